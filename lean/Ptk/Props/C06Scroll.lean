/-
  C06 — the stated exception of "rendering never scrolls": a `done` render whose output fills the
  terminal scrolls it by exactly one line (`diff_done_scroll`).
-/
import Ptk.Props.C06
namespace Ptk.C06
open Ptk.Py

variable (cw : Char → Nat)

theorem write_crlf_scroll (t : Term) (h : ¬ t.row + 1 < t.h) :
    execCmd cw t (.write (repeatText crlf 1)) =
      { t with col := 0,
               cells := fun y x => if y + 1 < t.h then t.cells (y + 1) x else erased t.sgr,
               scrolled := t.scrolled + 1 } := by
  simp only [execCmd]
  rw [repeat_crlf_succ, List.foldl_cons, List.foldl_cons, putChar_cr, putChar_lf]
  simp [repeatText, Term.lineFeed, h]

/-- the tail of a `done` render whose output fills the terminal: the newline below the last row
    scrolls by one line -/
theorem finish_scroll_spec (e : Env) (s prev : Screen) (pos : Point) (last : Option Nat) (T : Term)
    (g : Good e T pos last)
    (hfull : min s.height e.h = T.h) (hprev : prev.height = 0) :
    (∀ y x, (exec cw T (finish e s prev true pos last).cmds).cells y x =
      if y + 1 < T.h then T.cells (y + 1) x else TCell.blank) ∧
    (exec cw T (finish e s prev true pos last).cmds).row = T.h - 1 ∧
    (exec cw T (finish e s prev true pos last).cmds).col = 0 ∧
    (exec cw T (finish e s prev true pos last).cmds).sgr = Attrs.dflt ∧
    (exec cw T (finish e s prev true pos last).cmds).autowrap = true ∧
    (exec cw T (finish e s prev true pos last).cmds).scrolled = T.scrolled + 1 ∧
    (exec cw T (finish e s prev true pos last).cmds).oob = T.oob ∧
    (exec cw T (finish e s prev true pos last).cmds).h = T.h ∧
    (exec cw T (finish e s prev true pos last).cmds).log = T.log := by
  have hpos : 0 < T.h := by have := g.geo.rowlt; omega
  unfold finish
  simp only [hfull, hprev, hpos, if_true, Bool.true_or]
  obtain ⟨m1, m2, m3, m4⟩ := moveCursor_spec cw e T pos last ⟨0, T.h - 1⟩ g (by simp; omega)
  generalize moveCursor e.w pos last ⟨0, T.h - 1⟩ = m at *
  rw [exec_append]
  generalize exec cw T m.1 = T1 at *
  have hmv : moveCursor e.w ⟨0, T.h - 1⟩ m.2 ⟨0, T.h⟩ =
      ([Cmd.resetAttrs, Cmd.write (repeatText crlf (T.h - (T.h - 1))), Cmd.cursorForward 0], none) := by
    unfold moveCursor
    have : T.h - 1 < T.h := by omega
    simp [this]
  rw [hmv]
  have h1 : T.h - (T.h - 1) = 1 := by omega
  rw [h1]
  have hrow : T1.row = T.h - 1 := m1.geo.row
  have hh : T1.h = T.h := m2.h
  have hnolf : ¬ (T1.row + 1 < T1.h) := by rw [hrow, hh]; omega
  simp only [List.cons_append, List.nil_append, exec_cons]
  have e1 : execCmd cw T1 Cmd.resetAttrs = { T1 with sgr := Attrs.dflt } := rfl
  rw [e1, write_crlf_scroll cw _ (by simpa using hnolf)]
  simp only [execCmd]
  rw [eraseFrom_eq _ _ (Or.inr (by simp))]
  cases hs : s.showCursor <;>
    simp only [if_true, Bool.false_eq_true, if_false, exec_nil, exec_cons, execCmd, erased_dflt, hrow, hh,
      m2.scrolled, m2.oob, m3, m4] <;>
    (refine ⟨?_, ?_, ?_, ?_, ?_, ?_, ?_, ?_, ?_⟩ <;> try (first | trivial | rfl | simp)
     intro y x
     by_cases hy : y + 1 < T.h
     · have a1 : ¬ (y = T.h - 1) := by omega
       have a2 : ¬ (T.h - 1 < y) := by omega
       simp [hy, a1, a2]
     · have : y = T.h - 1 ∨ T.h - 1 < y := by omega
       simp [hy, this])

/-- **diff_done_scroll** — the stated exception, in general: when the output of the final (`done`)
    render fills the terminal (`min(height, rows)` = the rows from the origin to the bottom), the
    newline that puts the cursor below the output scrolls the terminal by exactly one line: the
    output's rows `1 …` are shown one row higher (row `0` has left the screen), the bottom line is
    blank and carries the cursor in column 0, attributes are reset, autowrap is on, and nothing else
    went wrong (no cursor motion past the margins). -/
theorem diff_done_scroll (e : Env) (s : Screen) (pos : Point) (prev : Option Screen) (last : Option Nat)
    (pw : Nat) (T : Term)
    (h1 : cw ' ' = 1) (hdef : EnvOk e) (hn : Narrow cw s)
    (pre : Pre e T pos last prev) (hfull : min s.height e.h = T.h) :
    (∀ y x, y + 1 < T.h → x < e.w →
      ((exec cw T (diff e s pos prev last true pw).cmds).cells y x).norm =
        (tcellOf e.attrsOf (cellAt (s.row (y + 1)) x)).norm) ∧
    (∀ y x, T.h ≤ y + 1 → (exec cw T (diff e s pos prev last true pw).cmds).cells y x = TCell.blank) ∧
    (exec cw T (diff e s pos prev last true pw).cmds).row = T.h - 1 ∧
    (exec cw T (diff e s pos prev last true pw).cmds).col = 0 ∧
    (exec cw T (diff e s pos prev last true pw).cmds).sgr = Attrs.dflt ∧
    (exec cw T (diff e s pos prev last true pw).cmds).autowrap = true ∧
    (exec cw T (diff e s pos prev last true pw).cmds).scrolled = T.scrolled + 1 ∧
    (exec cw T (diff e s pos prev last true pw).cmds).oob = T.oob := by
  have nar := narrow_cellAt cw h1 s hn
  unfold diff
  simp only []
  rw [exec_append, exec_append]
  obtain ⟨q1, q2, q3, q4, q5, q6, q7, q8⟩ :=
    preamble_full cw e T pos last prev true pw pre (by simp)
  generalize preamble e pos prev last true pw = p at *
  obtain ⟨⟨pc, pp, pl⟩, pscr⟩ := p
  simp only at q1 q2 q3 q4 q5 q6 q7 q8 ⊢
  subst q1 q2 q3
  generalize exec cw T pc = T1 at *
  have hnc1 : NoCont T1 := by intro y x; rw [q5]; simp [TCell.blank]
  have hsh1 := shows_empty_of_blank e T1 hdef q5
  have hE : Screen.empty.height = 0 := rfl
  have hK : min (max s.height Screen.empty.height) e.h = T.h := by rw [hE]; omega
  rw [hK]
  obtain ⟨r1, r2, r3, r4, r5⟩ := rowLoop_spec cw e s Screen.empty nar T.h 0 ⟨0, 0⟩ none T1 q4 hnc1
    (by rw [q8.h]; omega)
  generalize rowLoop e s Screen.empty T.h 0 ⟨0, 0⟩ none = r at *
  generalize exec cw T1 r.cmds = T2 at *
  have hh2 : T2.h = T.h := by rw [r2.h, q8.h]
  obtain ⟨f1, f2, f3, f4, f5, f6, f7, f8, _⟩ :=
    finish_scroll_spec cw e s Screen.empty r.pos r.last T2 r1 (by rw [hh2]; exact hfull) hE
  refine ⟨?_, ?_, by rw [f2, hh2], f3, f4, f5, ?_, ?_⟩
  · intro y x hy hx
    rw [f1, hh2]
    simp only [hy, if_true]
    rw [r4]
    have : 0 ≤ y + 1 ∧ y + 1 < 0 + T.h := by omega
    simp only [this, and_self, if_true]
    exact rowAfter_shows e s Screen.empty (y + 1) (T1.cells (y + 1)) hdef
      (fun x' hx' => hsh1 (y + 1) x' (by rw [q8.h]; exact hy) hx') x hx
  · intro y x hy
    rw [f1, hh2]
    have : ¬ (y + 1 < T.h) := by omega
    simp [this]
  · rw [f6, r2.scrolled, q8.scrolled]
  · rw [f7, r2.oob, q8.oob]

/-- non-vacuity of `diff_done_scroll`, and the model computes the same: the 3-row screen `exS3`
    (`a` / empty / `c`) on the 3-row terminal: after the done render row 1 of the terminal shows `c` -/
example : (exec cw1 exT0 (diff exEnv exS3 ⟨0, 0⟩ none none true 0).cmds).cells 1 0 = ⟨['c'], Attrs.dflt⟩ ∧
    (exec cw1 exT0 (diff exEnv exS3 ⟨0, 0⟩ none none true 0).cmds).row = 2 := by
  decide

example : ((exec cw1 exT0 (diff exEnv exS3 ⟨0, 0⟩ none none true 0).cmds).cells 1 0).norm =
    (tcellOf exEnv.attrsOf (cellAt (exS3.row 2) 0)).norm :=
  (diff_done_scroll cw1 exEnv exS3 ⟨0, 0⟩ none none 0 exT0 rfl (exEnvOk 0 8) (narrow_of_check _ (by decide))
    ⟨rfl, by decide, rfl, rfl, by decide, (fun _ h => by cases h), rfl⟩ (by decide)).1 1 0 (by decide) (by decide)
end Ptk.C06
