/-
  Cross-model agreement, cluster "KeyProcessor and key bindings".

  Part 7 — the argument channel of `KeyProcessor._call_handler` (`arg = self.arg; self.arg = None;
  event = KeyPressEvent(arg=arg, …); handler.call(event)`): C08's Vi session (`Ptk.C08.step`:
  `a := ss.arg`, `ss0 := { ss with arg := none }`, the handler gets both) vs the canonical C04
  (`Ptk.C04.callHandler`: the event carries `ps.arg`, afterwards `arg` is what the handler left,
  `none` when it did not touch it).
-/
import Ptk.Model.C04
import Ptk.Model.C08Session
import Ptk.Model.C05
import Ptk.Props.AgreeKeyArg
import Ptk.Props.AgreeKeyFix
namespace Ptk.AgreeKey.V08

/-- key_processor.py::KeyProcessor._call_handler — for EVERY interface, `Ptk.C04.callHandler` hands
    `self.arg` to the event and leaves in `self.arg` exactly what the handler set
    (`Iface.argOut`, `none` = untouched, i.e. cleared), whatever way the handler ends -/
theorem callHandler_arg_C04 {σ : Type} (I : C04.Iface σ) (ps : C04.PS σ) (b : C04.Binding)
    (seq : List C04.KP) :
    (C04.eventOf ps b).arg = ps.arg ∧
    (C04.callHandler I ps b seq).1.arg = I.argOut ps.w b seq (C04.eventOf ps b) := by
  refine ⟨rfl, ?_⟩
  simp only [C04.callHandler]
  split <;> rfl

theorem afterHandler_arg (wasTemp : Bool) (s1 : C08.Sess) : (C08.afterHandler wasTemp s1).arg = s1.arg := by
  unfold C08.afterHandler
  simp only []
  split
  · exact (Fix.fixNav_fields s1).2.1
  · exact (Fix.fixNav_fields s1).2.1

/-- key_processor.py::KeyProcessor._call_handler + `_arg` (vi.py, `event.append_to_arg_count`) —
    a count digit through `Ptk.C08.step`: the handler sees the old argument and leaves
    `appendArg old digit`, as `Ptk.C04.callHandler` does with `argOut := appendArg ev.arg digit` -/
theorem step_digit_arg_C04_C08 (env : C08.Env) (ss ss' : C08.Sess) (d : Fin 10) (a : C04.Arg)
    (ha : absNat a = ss.arg) (hd : ¬ (d.val = 0 ∧ ss.arg = none))
    (h : C08.step env ss (.digit d) = some ss') :
    ss'.arg = absNat (C04.appendArg a (dch d.val)) := by
  simp only [C08.step, hd, if_false] at h
  split at h
  · simp only [Option.some.injEq] at h
    rw [← h, afterHandler_arg, ← ha]
    exact arg_append_C04_C08 _ a d
  · cases h

/-- key_processor.py::KeyProcessor._call_handler — a handler that does not touch the argument
    (Escape, c-o, an operator key, a doubled operator) through `Ptk.C08.step`: `arg` is `None`
    afterwards, as after `Ptk.C04.callHandler` with `argOut = none` -/
theorem step_clears_arg_C08 (env : C08.Env) (ss ss' : C08.Sess) (k : C08.Key)
    (hk : (∃ o, k = .op o) ∨ k = .escape ∨ k = .ctrlO ∨ (∃ x, k = .double x))
    (h : C08.step env ss k = some ss') : ss'.arg = none := by
  rcases hk with ⟨o, rfl⟩ | rfl | rfl | ⟨x, rfl⟩
  · simp only [C08.step] at h
    split at h
    · split at h
      · cases h
      · simp only [Option.some.injEq] at h; rw [← h, afterHandler_arg]
    · split at h
      · simp only [Option.some.injEq] at h; rw [← h, afterHandler_arg]; rfl
      · cases h
  · simp only [C08.step, Option.some.injEq] at h; rw [← h, afterHandler_arg]; rfl
  · simp only [C08.step] at h
    split at h <;> (simp only [Option.some.injEq] at h; rw [← h, afterHandler_arg])
  · simp only [C08.step] at h
    split at h
    · simp only [Option.some.injEq] at h; rw [← h, afterHandler_arg]
    · split at h
      · simp only [Option.some.injEq] at h; rw [← h, afterHandler_arg]
      · cases h


/-! ### C05, application level (`Ptk.C05.callHandler` on `App`, whose `arg` is the string itself) -/

/-- how C05's `_call_handler` ends, as an outcome of C04's `handler.call(event)`:
    `EditReadOnlyBuffer` is swallowed inside (C05 returns `.ok`), anything else propagates -/
def trO05 : C05.Outcome → C04.Outcome
  | .ok => .ok
  | .readOnly => .readonly
  | _ => .raise

/-- C04's interface over C05's `App`: `handler.call(event)` (with everything `_call_handler` does
    around it on the application state) is `Ptk.C05.callHandler h saveBefore`, started from the
    application with `key_processor.arg` = the event's argument -/
def iface05A (h : C05.App → C05.App × C05.Outcome) (saveBefore : Bool) : C04.Iface C05.App where
  getFor := fun w _ => (w, [])
  getStart := fun w _ => (w, [])
  evalF := fun _ f => f.eval fun _ => false
  call := fun w q _ _ _ ev =>
    ((C05.callHandler h saveBefore { w with arg := ev.arg }).1, q,
     trO05 (C05.callHandler h saveBefore { w with arg := ev.arg }).2)
  done := fun _ => false
  argOut := fun w _ _ ev => (C05.callHandler h saveBefore { w with arg := ev.arg }).1.arg

/-- key_processor.py::KeyProcessor._call_handler — `Ptk.C04.callHandler` at `iface05A` =
    `Ptk.C05.callHandler`: the application state after the call, and `key_processor.arg`
    (cleared before the handler, then whatever the handler / nobody wrote), for a processor whose
    `arg` is the application's (`ps.w.arg = ps.arg`) -/
theorem callHandler_C04_C05App (h : C05.App → C05.App × C05.Outcome) (saveBefore : Bool)
    (ps : C04.PS C05.App) (b : C04.Binding) (seq : List C04.KP) (harg : ps.w.arg = ps.arg)
    (hnr : trO05 (C05.callHandler h saveBefore ps.w).2 ≠ .raise) :
    (C04.callHandler (iface05A h saveBefore) ps b seq).1.w = (C05.callHandler h saveBefore ps.w).1 ∧
    (C04.callHandler (iface05A h saveBefore) ps b seq).1.arg = (C05.callHandler h saveBefore ps.w).1.arg ∧
    (C04.callHandler (iface05A h saveBefore) ps b seq).2.2 = false := by
  have hw : ({ ps.w with arg := ps.arg } : C05.App) = ps.w := by rw [← harg]
  have hm : ∀ (w : C05.App), C04.recordMacro (iface05A h saveBefore) false false w b seq = (w, []) := by
    intro w
    simp only [C04.recordMacro, iface05A]
    by_cases hh : C04.F.eval (fun _ => false) b.rim = true <;> simp [hh]
  have hcall : (iface05A h saveBefore).call ps.w ps.queue b seq ps.prev (C04.eventOf ps b)
      = ((C05.callHandler h saveBefore ps.w).1, ps.queue, trO05 (C05.callHandler h saveBefore ps.w).2) := by
    simp only [iface05A, C04.eventOf, hw]
  have hout : (iface05A h saveBefore).argOut ps.w b seq (C04.eventOf ps b)
      = (C05.callHandler h saveBefore ps.w).1.arg := by
    simp only [iface05A, C04.eventOf, hw]
  have hE : (iface05A h saveBefore).recE ps.w = false := rfl
  have hV : (iface05A h saveBefore).recV ps.w = false := rfl
  simp only [C04.callHandler, hcall, hout, hE, hV, hm]
  cases ho : trO05 (C05.callHandler h saveBefore ps.w).2 with
  | ok => exact ⟨rfl, rfl, rfl⟩
  | readonly => exact ⟨rfl, rfl, rfl⟩
  | raise => exact absurd ho hnr

end Ptk.AgreeKey.V08
