/-
  C13 — the `History` base class with InMemoryHistory / DummyHistory (`Ptk.Model.C13Mem`): caching
  (`_loaded`, `_loaded_strings`), `get_strings()` order, `append_string` before / after `load()`,
  the inline async generator `History.load()` stepped item by item, and the `write()` calls of
  `FileHistory.store_string` with several processes appending to one file.
-/
import Ptk.Props.C13File
import Ptk.Props.C13Utf8
import Ptk.Model.C13Mem
namespace Ptk.C13
open Ptk.Py

/-! ## History base class, InMemoryHistory, DummyHistory -/

/-- the strings appended by a sequence of operations -/
def happended : List HOp → List Text
  | [] => []
  | .append s :: r => s :: happended r
  | _ :: r => happended r

structure MemInv (init : List Text) (app : List Text) (h : Hist) : Prop where
  be : h.backend = .memory
  sto : h.storage = init ++ app
  cache : h.loaded = true → h.strs = (init ++ app).reverse
  pre : h.loaded = false → h.strs = app.reverse

theorem memInv_ensure {init app : List Text} {h : Hist} (hi : MemInv init app h) :
    MemInv init app h.ensure := by
  unfold Hist.ensure
  split
  · exact hi
  · constructor <;> simp [hi.be, hi.sto, Hist.loadStrings]

theorem ensure_strs {init app : List Text} {h : Hist} (hi : MemInv init app h) :
    h.ensure.strs = (init ++ app).reverse ∧ h.ensure.loaded = true := by
  unfold Hist.ensure
  split
  · rename_i hl; exact ⟨hi.cache hl, hl⟩
  · simp [Hist.loadStrings, hi.be, hi.sto]

theorem memInv_apply (copy : Bool) {init app : List Text} {h : Hist} (hi : MemInv init app h) (op : HOp) :
    MemInv init (app ++ happended [op]) (h.apply copy op) := by
  cases op with
  | append s =>
    simp only [Hist.apply, Hist.append, hi.be, happended]
    constructor
    · rfl
    · simp [hi.sto]
    · intro hl; simp [hi.cache hl]
    · intro hl; simp [hi.pre hl]
  | load => simpa [Hist.apply, Hist.load, happended] using memInv_ensure hi
  | get => simpa [Hist.apply, happended] using hi
  | gnew =>
    simp only [Hist.apply, happended, List.append_nil]
    exact ⟨hi.be, hi.sto, hi.cache, hi.pre⟩
  | gnext =>
    simp only [Hist.apply, happended, List.append_nil, Hist.gnext]
    have he := memInv_ensure hi
    split
    · exact hi
    · split
      · exact ⟨he.be, he.sto, he.cache, he.pre⟩
      · exact ⟨he.be, he.sto, he.cache, he.pre⟩
    · split
      · exact ⟨hi.be, hi.sto, hi.cache, hi.pre⟩
      · exact ⟨hi.be, hi.sto, hi.cache, hi.pre⟩

theorem happended_append (a b : List HOp) : happended (a ++ b) = happended a ++ happended b := by
  induction a with
  | nil => rfl
  | cons x r ih => cases x <;> simp [happended, ih]

theorem memInv_run (copy : Bool) {init app : List Text} {h : Hist} (hi : MemInv init app h) (ops : List HOp) :
    MemInv init (app ++ happended ops) (h.runOps copy ops) := by
  induction ops generalizing h app with
  | nil => simpa [Hist.runOps, happended] using hi
  | cons op r ih =>
    have := ih (memInv_apply copy hi op)
    simp only [Hist.runOps, List.foldl_cons] at this ⊢
    rw [show happended (op :: r) = happended [op] ++ happended r from happended_append [op] r,
      ← List.append_assoc]
    exact this

/-- INMEMORY ROUNDTRIP + CACHE: after ANY sequence of `append_string`, `load()`, `get_strings()` and
    item-by-item generator steps on an `InMemoryHistory(init)`: `load()` yields everything (the
    initial strings and all appended ones), newest first, each once; once loaded `get_strings()` is
    the same oldest first; before the first load it shows exactly the strings appended so far. -/
theorem mem_load_exact (copy : Bool) (init : List Text) (ops : List HOp) :
    let h := (Hist.mem init).runOps copy ops
    h.load.2 = (init ++ happended ops).reverse ∧
    (h.loaded = true → h.getStrings = init ++ happended ops) ∧
    (h.loaded = false → h.getStrings = happended ops) ∧
    h.load.1.getStrings = init ++ happended ops := by
  intro h
  have hi : MemInv init ([] ++ happended ops) h :=
    memInv_run copy (h := Hist.mem init) ⟨rfl, by simp [Hist.mem], by simp [Hist.mem], by simp [Hist.mem]⟩ ops
  simp only [List.nil_append] at hi
  refine ⟨(ensure_strs hi).1, fun hl => ?_, fun hl => ?_, ?_⟩
  · simp [Hist.getStrings, hi.cache hl]
  · simp [Hist.getStrings, hi.pre hl]
  · simp [Hist.getStrings, Hist.load, (ensure_strs hi).1]

example : ((Hist.mem ["a".toList]).runOps false
    [.append "b".toList, .load, .append "c".toList, .gnew, .gnext, .get]).load.2
    = ["c".toList, "b".toList, "a".toList] := by decide

/-- DUMMY: a `DummyHistory` never remembers anything -/
theorem dummy_nothing (copy : Bool) (ops : List HOp) :
    let h := Hist.dummy.runOps copy ops
    h.load.2 = [] ∧ h.getStrings = [] := by
  have key : ∀ (ops : List HOp) (h : Hist), h.backend = .dummy → h.strs = [] →
      (h.runOps copy ops).backend = .dummy ∧ (h.runOps copy ops).strs = [] := by
    intro ops
    induction ops with
    | nil => intro h hb hs; exact ⟨hb, hs⟩
    | cons op r ih =>
      intro h hb hs
      simp only [Hist.runOps, List.foldl_cons]
      apply ih
      · cases op <;> simp [Hist.apply, Hist.append, Hist.load, Hist.ensure, Hist.gnext, hb] <;>
          (repeat' split) <;> simp_all
      · cases op <;> simp [Hist.apply, Hist.append, Hist.load, Hist.ensure, Hist.gnext, hb, hs,
          Hist.loadStrings] <;> (repeat' split) <;> simp_all
  intro h
  obtain ⟨hb, hs⟩ := key ops Hist.dummy rfl rfl
  refine ⟨?_, by simp [Hist.getStrings, h, hs]⟩
  simp only [Hist.load, Hist.ensure]
  split
  · exact hs
  · simp [Hist.loadStrings, h, hb]

/-! ## the inline async generator `History.load()`, item by item -/

/-- operations that leave the generator in progress alone (no new `load()` call) -/
def noGnew (ops : List HOp) : Prop := ∀ op ∈ ops, op ≠ .gnew

structure GenInv (L : List Text) (h : Hist) : Prop where
  run : h.gpc = .iter → h.snap = L ∧ h.out = L.take h.idx ∧ h.loaded = true
  fin : h.gpc = .none → h.out = L
  notFresh : h.gpc ≠ .fresh

theorem genInv_apply {L : List Text} {h : Hist} (hi : GenInv L h) (op : HOp) (hop : op ≠ .gnew) :
    GenInv L (h.apply true op) := by
  cases op with
  | gnew => exact absurd rfl hop
  | append s =>
    simp only [Hist.apply, Hist.append]
    split <;> exact ⟨hi.run, hi.fin, hi.notFresh⟩
  | get => exact hi
  | load =>
    simp only [Hist.apply, Hist.load, Hist.ensure]
    split
    · exact hi
    · rename_i hl
      refine ⟨fun hg => ?_, hi.fin, hi.notFresh⟩
      have := (hi.run hg).2.2
      simp [this] at hl
  | gnext =>
    simp only [Hist.apply, Hist.gnext]
    split
    · exact hi
    · rename_i hf; exact absurd hf hi.notFresh
    · rename_i hg
      obtain ⟨h1, h2, h3⟩ := hi.run hg
      simp only [if_true]
      split
      · rename_i hn
        refine ⟨fun hc => by simp at hc, fun _ => ?_, by simp⟩
        have : h.snap.length ≤ h.idx := by
          rw [List.getElem?_eq_none_iff] at hn; exact hn
        show h.out = L
        rw [h2, ← h1, List.take_of_length_le this]
      · rename_i x hx
        refine ⟨fun _ => ⟨h1, ?_, h3⟩, fun hc => by simp [hg] at hc, by simp [hg]⟩
        show h.out ++ [x] = L.take (h.idx + 1)
        rw [h2, ← h1, List.take_add_one, hx]
        rfl

theorem genInv_run {L : List Text} {h : Hist} (hi : GenInv L h) (ops : List HOp) (hops : noGnew ops) :
    GenInv L (h.runOps true ops) := by
  induction ops generalizing h with
  | nil => exact hi
  | cons op r ih =>
    simp only [Hist.runOps, List.foldl_cons]
    exact ih (genInv_apply hi op (hops op (by simp))) (fun o ho => hops o (by simp [ho]))

/-- INLINE `load()` OVER A COPY (proposed hardening): whatever is appended (or loaded, or read) between
    two items, the generator yields a prefix of, and when exhausted exactly, the history as it was at
    its first resumption — every item once, newest first. -/
theorem inline_copy_exact (h : Hist) (hf : h.gpc = .fresh) (ho : h.out = []) (ops : List HOp)
    (hops : noGnew ops) :
    let h' := (h.gnext true).runOps true ops
    h'.out <+: h.ensure.strs ∧ (h'.gpc = .none → h'.out = h.ensure.strs) := by
  have h0 : GenInv h.ensure.strs (h.gnext true) := by
    simp only [Hist.gnext, hf, if_true]
    have hl : h.ensure.loaded = true := by unfold Hist.ensure; split <;> simp_all
    have hout : h.ensure.out = [] := by unfold Hist.ensure; split <;> simp_all
    split
    · rename_i hn
      exact ⟨fun hc => by simp at hc, fun _ => by simp [hout, hn], by simp⟩
    · rename_i x r hx
      refine ⟨fun _ => ⟨rfl, ?_, hl⟩, fun hc => by simp at hc, by simp⟩
      simp [hout, hx]
  intro h'
  have hi := genInv_run h0 ops hops
  refine ⟨?_, hi.fin⟩
  cases hg : h'.gpc with
  | none => rw [hi.fin hg]; exact List.prefix_rfl
  | fresh => exact absurd hg hi.notFresh
  | iter => rw [(hi.run hg).2.1]; exact List.take_prefix _ _

example : ((Hist.mem ["a".toList, "b".toList]).runOps true
    [.gnew, .gnext, .append "c".toList, .gnext, .gnext, .gnext]).out = ["b".toList, "a".toList] := by decide

/-- INLINE `load()` OVER THE LIVE LIST (the current code): an `append_string` between two items makes
    the generator yield the item it had just yielded a second time, and the new entry never. -/
theorem inline_live_duplicate :
    let h := (Hist.mem ["a".toList, "b".toList]).runOps false
      [.gnew, .gnext, .append "c".toList, .gnext, .gnext, .gnext]
    h.out = ["b".toList, "b".toList, "a".toList] ∧ h.gpc = .none ∧
    h.getStrings = ["a".toList, "b".toList, "c".toList] := by decide

/-! ## the `write()` calls of `FileHistory.store_string`; several processes on one file -/

/-- whichever way it is cut into `write()` calls, one `store_string` hands over exactly `record` -/
theorem writeCalls_flatten (single : Bool) (C : Codec) (ts s : Text) :
    (writeCalls single C ts s).flatten = record C ts s := by
  cases single <;> simp [writeCalls, record, List.flatMap]

theorem interleave_map {α β : Type} (f : α → β) (qs : List (List α)) (order : List Nat) :
    interleave (qs.map (·.map f)) order = (interleave qs order).map f := by
  induction order generalizing qs with
  | nil => simp [interleave]
  | cons i rest ih =>
    simp only [interleave]
    rw [List.getElem?_map]
    cases hq : qs[i]? with
    | none => simpa using ih qs
    | some q =>
      cases q with
      | nil => simpa using ih qs
      | cons w q' =>
        simp only [Option.map_some, List.map_cons]
        have : (qs.map (·.map f)).set i (q'.map f) = (qs.set i q').map (·.map f) := by
          simp [List.map_set]
        rw [this, ih]

theorem stores_eq_flatten (C : Codec) (es : List (Text × Text)) :
    stores C es = (es.map fun e => record C e.1 e.2).flatten := by
  induction es with
  | nil => rfl
  | cons e r ih => obtain ⟨ts, s⟩ := e; simp [stores, ih]

/-- CONCURRENT WRITERS, ONE `write()` PER RECORD (proposed hardening): any number of processes, each
    storing its own entries, their `write()` calls arriving in ANY order: the file is exactly the
    records of the entries in arrival order — so a fresh instance reads every entry back intact,
    each once, each process's entries in its own order (`interleave` keeps every queue's order). -/
theorem single_write_interleave (procs : List (List (Text × Text))) (order : List Nat)
    (hts : ∀ p ∈ procs, TsOk p) :
    interleaveWrites (procs.map (procWrites true utf8)) order = stores utf8 (interleave procs order) ∧
    loadFile utf8 (interleaveWrites (procs.map (procWrites true utf8)) order)
      = ((interleave procs order).map (·.2)).reverse := by
  have h1 : interleaveWrites (procs.map (procWrites true utf8)) order
      = stores utf8 (interleave procs order) := by
    have : procs.map (procWrites true utf8) = procs.map (·.map fun e => record utf8 e.1 e.2) := by
      apply List.map_congr_left
      intro p hp
      clear hp
      simp only [procWrites, writeCalls, if_true, List.flatMap]
      induction p with
      | nil => rfl
      | cons e r ih => simpa using ih
    rw [interleaveWrites, this, interleave_map, stores_eq_flatten]
  refine ⟨h1, ?_⟩
  rw [h1]
  have hmem : ∀ (order : List Nat) (qs : List (List (Text × Text))), (∀ p ∈ qs, TsOk p) →
      TsOk (interleave qs order) := by
    intro order
    induction order with
    | nil => intro qs _ e he; simp [interleave] at he
    | cons i rest ih =>
      intro qs hq
      simp only [interleave]
      cases hqi : qs[i]? with
      | none => exact ih qs hq
      | some q =>
        cases q with
        | nil => exact ih qs hq
        | cons w q' =>
          have hin : (w :: q') ∈ qs := List.mem_of_getElem? hqi
          have hw := hq _ hin
          have hset : ∀ p ∈ qs.set i q', TsOk p := by
            intro p hp
            rcases List.mem_or_eq_of_mem_set hp with hp | hp
            · exact hq p hp
            · subst hp; exact fun e he => hw e (by simp [he])
          intro e he
          simp only [List.mem_cons] at he
          rcases he with he | he
          · subst he; exact hw e (by simp)
          · exact ih _ hset e he
  have := loadRun_stores utf8_good _ (hmem order procs hts) ⟨[], []⟩
  simp only [add_nil_lines, List.nil_append] at this
  simp [loadFile, this]

end Ptk.C13
