/-
  C12 — lemmas about the grow loops (`bump`, `capOf`, `growLoop`, `growSizes`):
  fuel monotonicity, partial correctness (what a finished loop guarantees) and termination
  (enough fuel exists), the latter from the fairness of the weighted stream.
-/
import Ptk.Props.C12Gen
namespace Ptk.C12

/-! #### lists -/

theorem getD_set_nat (l : List Nat) (j i v : Nat) :
    (l.set j v).getD i 0 = if i = j ∧ j < l.length then v else l.getD i 0 := by
  rw [List.getD_eq_getElem?_getD, List.getD_eq_getElem?_getD, List.getElem?_set]
  by_cases hij : j = i
  · subst hij
    by_cases hj : j < l.length
    · simp [hj]
    · simp [hj]
  · have : ¬ (i = j ∧ j < l.length) := fun h => hij h.1.symm
    simp [hij, this]

theorem sum_set_succ (l : List Nat) (j : Nat) (h : j < l.length) :
    (l.set j (l.getD j 0 + 1)).sum = l.sum + 1 := by
  induction l generalizing j with
  | nil => simp at h
  | cons a l ih =>
    cases j with
    | zero => simp; omega
    | succ j =>
      simp only [List.set_cons_succ, List.sum_cons, List.getD_cons_succ]
      rw [ih j (by simpa using h)]
      omega

/-! #### bump -/

theorem bump_length (s lim : List Nat) (j : Nat) : (bump s lim j).length = s.length := by
  unfold bump; split_ifs <;> simp

theorem bump_of_not_lt {s lim : List Nat} {j : Nat} (h : ¬ s.getD j 0 < lim.getD j 0) :
    bump s lim j = s := by
  unfold bump; rw [if_neg h]

theorem bump_sum_of_lt {s lim : List Nat} {j : Nat} (hj : j < s.length)
    (h : s.getD j 0 < lim.getD j 0) : (bump s lim j).sum = s.sum + 1 := by
  unfold bump; rw [if_pos h]; exact sum_set_succ s j hj

theorem bump_sum_le (s lim : List Nat) (j : Nat) :
    s.sum ≤ (bump s lim j).sum ∧ (bump s lim j).sum ≤ s.sum + 1 := by
  by_cases h : s.getD j 0 < lim.getD j 0
  · by_cases hj : j < s.length
    · rw [bump_sum_of_lt hj h]; omega
    · unfold bump; rw [if_pos h, List.set_eq_of_length_le (by omega)]; omega
  · rw [bump_of_not_lt h]; omega

theorem bump_getD (s lim : List Nat) (j i : Nat) :
    (bump s lim j).getD i 0 =
      if i = j ∧ j < s.length ∧ s.getD j 0 < lim.getD j 0 then s.getD j 0 + 1 else s.getD i 0 := by
  unfold bump
  by_cases h : s.getD j 0 < lim.getD j 0
  · rw [if_pos h, getD_set_nat]
    by_cases h2 : i = j ∧ j < s.length
    · rw [if_pos h2, if_pos ⟨h2.1, h2.2, h⟩]
    · rw [if_neg h2, if_neg (fun h3 => h2 ⟨h3.1, h3.2.1⟩)]
  · rw [if_neg h, if_neg (fun h3 => h h3.2.2)]

theorem bump_getD_ge (s lim : List Nat) (j i : Nat) : s.getD i 0 ≤ (bump s lim j).getD i 0 := by
  rw [bump_getD]; split_ifs with h
  · rw [h.1]; omega
  · exact le_refl _

theorem bump_getD_le (s lim : List Nat) (j i : Nat) :
    (bump s lim j).getD i 0 ≤ max (s.getD i 0) (lim.getD i 0) := by
  rw [bump_getD]; split_ifs with h
  · obtain ⟨rfl, _, h3⟩ := h; omega
  · exact le_max_left _ _

/-! #### capOf -/

theorem capOf_bump_notin {s lim grp : List Nat} {j : Nat} (hj : j ∉ grp) :
    capOf (bump s lim j) lim grp = capOf s lim grp := by
  unfold capOf
  congr 1
  apply List.map_congr_left
  intro i hi
  have : i ≠ j := fun h => hj (h ▸ hi)
  rw [bump_getD, if_neg (fun h => this h.1)]

theorem capOf_bump_mem {s lim : List Nat} {j : Nat} (hjl : j < s.length)
    (hlt : s.getD j 0 < lim.getD j 0) :
    ∀ {grp : List Nat}, grp.Nodup → j ∈ grp →
      capOf (bump s lim j) lim grp + 1 = capOf s lim grp := by
  intro grp
  induction grp with
  | nil => intro _ h; simp at h
  | cons a grp ih =>
    intro hnd hmem
    rw [List.nodup_cons] at hnd
    unfold capOf at ih ⊢
    simp only [List.map_cons, List.sum_cons]
    by_cases ha : a = j
    · subst ha
      have h1 := capOf_bump_notin (s := s) (lim := lim) hnd.1
      unfold capOf at h1
      rw [h1, bump_getD, if_pos ⟨rfl, hjl, hlt⟩]
      omega
    · have hmem' : j ∈ grp := by
        rcases List.mem_cons.mp hmem with h | h
        · exact absurd h.symm ha
        · exact h
      have := ih hnd.2 hmem'
      rw [bump_getD, if_neg (fun h => ha h.1)]
      omega

theorem capOf_pos_exists {s lim grp : List Nat} (h : 0 < capOf s lim grp) :
    ∃ j ∈ grp, s.getD j 0 < lim.getD j 0 := by
  induction grp with
  | nil => simp [capOf] at h
  | cons a grp ih =>
    unfold capOf at h ih
    simp only [List.map_cons, List.sum_cons] at h
    by_cases ha : s.getD a 0 < lim.getD a 0
    · exact ⟨a, List.mem_cons_self, ha⟩
    · obtain ⟨j, hj, hlt⟩ := ih (by omega)
      exact ⟨j, List.mem_cons_of_mem _ hj, hlt⟩

/-! #### growLoop: fuel monotonicity -/

theorem growLoop_mono (limits : List Nat) (stop : Nat) {nf nf' : Nat} (hnf : nf ≤ nf') :
    ∀ {f f' : Nat} {sizes : List Nat} {g : Gen} {r : List Nat × Gen},
      growLoop limits stop nf f sizes g = some r → f ≤ f' →
      growLoop limits stop nf' f' sizes g = some r := by
  intro f
  induction f with
  | zero =>
    intro f' sizes g r h _
    unfold growLoop at h
    split_ifs at h with hlt
    cases f' with
    | zero => unfold growLoop; rw [if_neg hlt]; exact h
    | succ f' => unfold growLoop; rw [if_neg hlt]; exact h
  | succ f ih =>
    intro f' sizes g r h hle
    obtain ⟨f'', rfl⟩ : ∃ f'', f' = f'' + 1 := ⟨f' - 1, by omega⟩
    unfold growLoop at h ⊢
    split_ifs at h ⊢ with hlt
    · rcases hn : g.next? nf with _ | ⟨i, g'⟩
      · rw [hn] at h; simp at h
      · rw [hn] at h
        rw [Gen.next?_mono hn hnf]
        simp only at h ⊢
        exact ih h (by omega)
    · exact h

theorem growLoop_noop (limits : List Nat) (stop nf : Nat) {sizes : List Nat} (g : Gen)
    (h : ¬ sizes.sum < stop) : ∀ f, growLoop limits stop nf f sizes g = some (sizes, g) := by
  intro f
  cases f <;> (unfold growLoop; rw [if_neg h])

/-! #### growLoop: what a finished loop guarantees -/

theorem growLoop_spec (limits : List Nat) (stop nf : Nat) :
    ∀ (f : Nat) (sizes : List Nat) (g : Gen) (s' : List Nat) (g' : Gen),
      g.WF → sizes.sum ≤ stop → growLoop limits stop nf f sizes g = some (s', g') →
      g'.WF ∧ g'.items = g.items ∧ g'.ws = g.ws ∧ s'.length = sizes.length ∧ s'.sum = stop ∧
      (∀ i, sizes.getD i 0 ≤ s'.getD i 0) ∧
      (∀ i, s'.getD i 0 ≤ max (sizes.getD i 0) (limits.getD i 0)) ∧
      (∀ G : List Nat, (∀ x ∈ g.items, x ∉ G) → capOf s' limits G = capOf sizes limits G) := by
  intro f
  induction f with
  | zero =>
    intro sizes g s' g' hwf hle h
    unfold growLoop at h
    split_ifs at h with hlt
    simp only [Option.some.injEq, Prod.mk.injEq] at h
    obtain ⟨rfl, rfl⟩ := h
    exact ⟨hwf, rfl, rfl, rfl, by omega, fun _ => le_refl _, fun _ => le_max_left _ _, fun _ _ => rfl⟩
  | succ f ih =>
    intro sizes g s' g' hwf hle h
    unfold growLoop at h
    split_ifs at h with hlt
    · rcases hn : g.next? nf with _ | ⟨i, g1⟩
      · rw [hn] at h; simp at h
      · rw [hn] at h
        simp only at h
        obtain ⟨hwf1, hit1, hws1, _, hmem⟩ := Gen.next?_spec hwf hn
        have hb := bump_sum_le sizes limits i
        obtain ⟨a1, a2, a3, a4, a5, a6, a7, a8⟩ :=
          ih (bump sizes limits i) g1 s' g' hwf1 (by omega) h
        refine ⟨a1, by rw [a2, hit1], by rw [a3, hws1], by rw [a4, bump_length], a5, ?_, ?_, ?_⟩
        · intro k; exact le_trans (bump_getD_ge sizes limits i k) (a6 k)
        · intro k
          have h1 := a7 k
          have h2 := bump_getD_le sizes limits i k
          omega
        · intro G hG
          rw [a8 G (by rw [hit1]; exact hG)]
          exact capOf_bump_notin (hG i hmem)
    · simp only [Option.some.injEq, Prod.mk.injEq] at h
      obtain ⟨rfl, rfl⟩ := h
      exact ⟨hwf, rfl, rfl, rfl, by omega, fun _ => le_refl _, fun _ => le_max_left _ _, fun _ _ => rfl⟩

/-! #### growLoop: termination -/

theorem growLoop_terminates (limits : List Nat) (stop : Nat) (grp : List Nat) (hnd : grp.Nodup) :
    ∀ (D : Nat) (sizes : List Nat) (g : Gen), stop - sizes.sum ≤ D → g.WF → g.items = grp →
      (∀ i ∈ grp, i < sizes.length) → stop ≤ sizes.sum + capOf sizes limits grp →
      ∃ F, ∀ nf f, F ≤ nf → F ≤ f → ∃ r, growLoop limits stop nf f sizes g = some r := by
  intro D
  induction D with
  | zero =>
    intro sizes g hD _ _ _ _
    exact ⟨0, fun nf f _ _ => ⟨_, growLoop_noop limits stop nf g (by omega) f⟩⟩
  | succ D ih =>
    intro sizes g hD hwf hit hrange hinv
    by_cases hlt : sizes.sum < stop
    swap
    · exact ⟨0, fun nf f _ _ => ⟨_, growLoop_noop limits stop nf g hlt f⟩⟩
    -- a member of the group can still grow, and the stream reaches it
    obtain ⟨j, hj, hjlt⟩ := capOf_pos_exists (s := sizes) (lim := limits) (grp := grp) (by omega)
    obtain ⟨m, hm⟩ := Gen.fair hwf (x := j) (by rw [hit]; exact hj)
    -- one productive iteration, then the outer induction hypothesis
    have productive : ∀ (g0 g1 : Gen) (f0 y : Nat), g0.WF → g0.items = grp →
        g0.next? f0 = some (y, g1) → sizes.getD y 0 < limits.getD y 0 →
        ∃ F, ∀ nf f, F ≤ nf → F ≤ f → ∃ r, growLoop limits stop nf f sizes g0 = some r := by
      intro g0 g1 f0 y hwf0 hit0 hn hy
      obtain ⟨hwf1, hit1, _, _, hmem⟩ := Gen.next?_spec hwf0 hn
      have hyg : y ∈ grp := by rw [← hit0]; exact hmem
      have hyl := hrange y hyg
      have hs := bump_sum_of_lt hyl hy
      have hc := capOf_bump_mem hyl hy hnd hyg
      obtain ⟨F1, hF1⟩ := ih (bump sizes limits y) g1 (by omega) hwf1 (by rw [hit1, hit0])
        (by intro i hi; rw [bump_length]; exact hrange i hi) (by omega)
      refine ⟨max f0 (F1 + 1), fun nf f hnf hf => ?_⟩
      obtain ⟨f', rfl⟩ : ∃ f', f = f' + 1 := ⟨f - 1, by omega⟩
      obtain ⟨r, hr⟩ := hF1 nf f' (by omega) (by omega)
      refine ⟨r, ?_⟩
      unfold growLoop
      rw [if_pos hlt, Gen.next?_mono hn (by omega : f0 ≤ nf)]
      exact hr
    -- induction on the number of `next` calls until `j` is yielded
    have inner : ∀ (m : Nat) (g0 : Gen), g0.WF → g0.items = grp → Gen.Eventually j g0 m →
        ∃ F, ∀ nf f, F ≤ nf → F ≤ f → ∃ r, growLoop limits stop nf f sizes g0 = some r := by
      intro m
      induction m with
      | zero =>
        intro g0 hwf0 hit0 hev
        cases hev with
        | now hn => exact productive g0 _ _ j hwf0 hit0 hn hjlt
      | succ m ihm =>
        intro g0 hwf0 hit0 hev
        cases hev with
        | later hn hev' =>
          rename_i g1 f0 y
          by_cases hy : sizes.getD y 0 < limits.getD y 0
          · exact productive g0 g1 f0 y hwf0 hit0 hn hy
          · obtain ⟨hwf1, hit1, _, _, _⟩ := Gen.next?_spec hwf0 hn
            obtain ⟨F1, hF1⟩ := ihm g1 hwf1 (by rw [hit1, hit0]) hev'
            refine ⟨max f0 (F1 + 1), fun nf f hnf hf => ?_⟩
            obtain ⟨f', rfl⟩ : ∃ f', f = f' + 1 := ⟨f - 1, by omega⟩
            obtain ⟨r, hr⟩ := hF1 nf f' (by omega) (by omega)
            refine ⟨r, ?_⟩
            unfold growLoop
            rw [if_pos hlt, Gen.next?_mono hn (by omega : f0 ≤ nf)]
            simp only
            rw [bump_of_not_lt hy]
            exact hr
    exact inner m g hwf hit hm

end Ptk.C12
