/-
  C16, round 2 — the rest of the search keys:

    * `~search_state` (`SearchState.__invert__`)
    * the search field as a buffer of its own: typing, deleting and recalling needles from the
      field's history never touch the searched buffer; only Enter extends that history
    * abort restores exactly when nothing but field keys were pressed since the start
      (and, as the model shows, keeps what C-r / C-s already applied otherwise)
    * accept when nothing matches
    * Vi `*` / `#` (search the word under the cursor), Emacs `n` / `N` on a read-only buffer
      (with negative and zero arguments)

  Every theorem holds for every comparison `eq` and every white-space class `isSp`.
-/
import Ptk.Props.C16
namespace Ptk.C16
open Ptk.Py

/-! ## `~search_state` -/

theorem Dir.inv_inv (d : Dir) : d.inv.inv = d := by cases d <;> rfl

theorem SState.inv_dir (ss : SState) : ss.inv.dir = ss.dir.inv := by
  cases ss with | mk t d i => cases d <;> rfl

theorem SState.inv_keeps (ss : SState) : ss.inv.text = ss.text ∧ ss.inv.ic = ss.ic := ⟨rfl, rfl⟩

theorem SState.inv_inv (ss : SState) : ss.inv.inv = ss := by
  cases ss with | mk t d i => cases d <;> rfl

theorem applySS_inv (eqOf : Bool → Char → Char → Bool) (b : Buf) (ss : SState) (incl : Bool)
    (n : Nat) :
    applySS eqOf b ss.inv incl n = applySearch (eqOf ss.ic) b ss.text ss.dir.inv incl n := by
  unfold applySS
  rw [SState.inv_dir]; rfl

/-! ## the search field's own keys -/

/-- the working lines of the search field's buffer -/
def fieldLines (s : Sess) : List Text := s.fbefore ++ [s.field] ++ s.fafter

/-- keys that only edit the search field: printable keys, backspace, history up / down -/
def FieldKey : Key → Prop
  | .type _ => True
  | .backspace => True
  | .histPrev => True
  | .histNext => True
  | _ => False

theorem hist_frame (eq : Char → Char → Bool) (vi : Bool) (s : Sess) (k : Key)
    (hk : k = .histPrev ∨ k = .histNext) :
    let s' := step eq vi s k
    s'.buf = s.buf ∧ s'.stext = s.stext ∧ s'.sdir = s.sdir ∧ s'.searching = s.searching ∧
      s'.fhist = s.fhist ∧ s'.floaded = s.floaded ∧ fieldLines s' = fieldLines s := by
  rcases hk with rfl | rfl
  · simp only [step]
    split
    · cases h : s.fbefore.getLast? with
      | none => simp
      | some x =>
        simp only [fieldLines, true_and]
        have := List.dropLast_append_getLast? x h
        conv => rhs; rw [← this]
        simp
    · simp
  · simp only [step]
    split
    · cases h : s.fafter with
      | nil => simp
      | cons x r => simp [fieldLines, h]
    · simp


/-- one field key, Emacs mode: only the search field's buffer changes -/
theorem fieldKey_step (eq : Char → Char → Bool) (s : Sess) (k : Key) (hk : FieldKey k)
    (hs : s.searching = true) :
    let s' := step eq false s k
    s'.buf = s.buf ∧ s'.stext = s.stext ∧ s'.sdir = s.sdir ∧ s'.searching = true ∧
      s'.fhist = s.fhist := by
  cases k with
  | type c => simp [step, hs]
  | backspace =>
    simp only [step, hs, if_true]
    split <;> simp [hs]
  | histPrev =>
    simp only [step, hs, if_true]
    split <;> simp [hs]
  | histNext =>
    simp only [step, hs, if_true]
    split <;> simp [hs]
  | start d => exact absurd hk (by simp [FieldKey])
  | incr d => exact absurd hk (by simp [FieldKey])
  | accept => exact absurd hk (by simp [FieldKey])
  | abort => exact absurd hk (by simp [FieldKey])
  | next n => exact absurd hk (by simp [FieldKey])
  | prev n => exact absurd hk (by simp [FieldKey])

/-- TYPING, in full: whatever is typed, deleted or recalled from the field's history in the
    search field, the searched buffer (text, entry, cursor) and the search state stay as they are -/
theorem run_fieldKeys_frame (eq : Char → Char → Bool) (s : Sess) (ks : List Key)
    (hk : ∀ k ∈ ks, FieldKey k) (hs : s.searching = true) :
    let s' := run eq false s ks
    s'.buf = s.buf ∧ s'.stext = s.stext ∧ s'.sdir = s.sdir ∧ s'.searching = true ∧
      s'.fhist = s.fhist := by
  induction ks generalizing s with
  | nil => simp [run, hs]
  | cons k ks ih =>
    simp only [run]
    obtain ⟨h1, h2, h3, h4, h5⟩ := fieldKey_step eq s k (hk k (by simp)) hs
    obtain ⟨g1, g2, g3, g4, g5⟩ := ih (step eq false s k) (fun k' hk' => hk k' (by simp [hk'])) h4
    exact ⟨g1.trans h1, g2.trans h2, g3.trans h3, g4, g5.trans h5⟩

/-- Vi mode: the same, except that backspace in an EMPTY field leaves the search (like C-g): the
    buffer is then the old one after the navigation-mode cursor fix -/
theorem fieldKey_step_vi (eq : Char → Char → Bool) (s : Sess) (k : Key) (hk : FieldKey k) :
    let s' := step eq true s k
    (s'.buf = s.buf ∨ (s.searching = true ∧ s'.searching = false ∧ s'.buf = viFix s.buf)) ∧
      (s.searching = false → s'.searching = false) ∧
      s'.stext = s.stext ∧ s'.sdir = s.sdir ∧ s'.fhist = s.fhist := by
  cases k with
  | type c =>
    simp only [step]
    split <;> simp_all
  | backspace =>
    simp only [step]
    split
    · rename_i hs
      split
      · simp [stopSearch, step.viFixS, hs]
      · simp [hs]
    · simp
  | histPrev =>
    simp only [step]
    split
    · split <;> simp_all
    · simp
  | histNext =>
    simp only [step]
    split
    · split <;> simp_all
    · simp
  | start d => exact absurd hk (by simp [FieldKey])
  | incr d => exact absurd hk (by simp [FieldKey])
  | accept => exact absurd hk (by simp [FieldKey])
  | abort => exact absurd hk (by simp [FieldKey])
  | next n => exact absurd hk (by simp [FieldKey])
  | prev n => exact absurd hk (by simp [FieldKey])

theorem run_fieldKeys_frame_vi (eq : Char → Char → Bool) (s : Sess) (ks : List Key)
    (hk : ∀ k ∈ ks, FieldKey k) :
    let s' := run eq true s ks
    (s'.buf = s.buf ∨ (s.searching = true ∧ s'.searching = false ∧ s'.buf = viFix s.buf)) ∧
      (s.searching = false → s'.searching = false) ∧
      s'.stext = s.stext ∧ s'.sdir = s.sdir ∧ s'.fhist = s.fhist := by
  induction ks generalizing s with
  | nil => simp [run]
  | cons k ks ih =>
    simp only [run]
    obtain ⟨h1, h2, h3, h4, h5⟩ := fieldKey_step_vi eq s k (hk k (by simp))
    obtain ⟨g1, g2, g3, g4, g5⟩ := ih (step eq true s k) (fun k' hk' => hk k' (by simp [hk']))
    refine ⟨?_, fun h => g2 (h2 h), g3.trans h3, g4.trans h4, g5.trans h5⟩
    rcases g1 with g1 | ⟨ga, gb, gc⟩
    · rcases h1 with h1 | ⟨ha, hb, hc⟩
      · left; exact g1.trans h1
      · right; exact ⟨ha, g2 hb, g1.trans hc⟩
    · rcases h1 with h1 | ⟨ha, hb, hc⟩
      · right
        refine ⟨?_, gb, by rw [gc, h1]⟩
        cases hs : s.searching with
        | true => rfl
        | false => rw [h2 hs] at ga; cases ga
      · rw [hb] at ga; cases ga


theorem run_append (eq : Char → Char → Bool) (vi : Bool) (s : Sess) (k1 k2 : List Key) :
    run eq vi s (k1 ++ k2) = run eq vi (run eq vi s k1) k2 := by
  induction k1 generalizing s with
  | nil => rfl
  | cons k ks ih => simp [run, ih]

/-- ABORT restores exactly (Emacs mode): start a search, type / delete / recall anything in the
    search field, abort — the searched buffer and the remembered needle are what they were, the
    field is empty again; only the search DIRECTION stays at the one the search was started with. -/
theorem abort_restores (eq : Char → Char → Bool) (s : Sess) (d : Dir) (ks : List Key)
    (hk : ∀ k ∈ ks, FieldKey k) (hs : s.searching = false) :
    let s' := run eq false s (.start d :: ks ++ [.abort])
    s'.buf = s.buf ∧ s'.stext = s.stext ∧ s'.fhist = s.fhist ∧ s'.searching = false ∧
      s'.field = [] ∧ s'.sdir = d := by
  simp only [run, run_append]
  have h0 : step eq false s (.start d) = renderField { s with sdir := d, searching := true } := by
    simp [step, hs]
  obtain ⟨r1, r2, r3, r4, r5, r6⟩ := renderField_frame { s with sdir := d, searching := true }
  rw [h0]
  obtain ⟨f1, f2, f3, f4, f5⟩ := run_fieldKeys_frame eq _ ks hk (r5.trans rfl)
  generalize run eq false (renderField { s with sdir := d, searching := true }) ks = m at *
  simp only [step, f4, if_true, Bool.false_eq_true, if_false, stopSearch]
  exact ⟨f1.trans r1, f2.trans r3, f5.trans r6, trivial, trivial, f3.trans r4⟩

/-- ACCEPT when nothing matches: the buffer stays exactly as it is, the search is left, the typed
    text still becomes the remembered needle and goes into the field's history -/
theorem accept_nomatch (eq : Char → Char → Bool) (s : Sess) (hwf : SessWF s)
    (hs : s.searching = true) (hf : s.field ≠ [])
    (hno : ∀ j q, ¬ Occ eq s.buf.lines s.field j q) :
    let s' := step eq false s .accept
    s'.buf = s.buf ∧ s'.searching = false ∧ s'.stext = s.field ∧ s'.field = [] ∧
      s'.fhist = appendHist s.fhist s.field := by
  have hne : s.field.isEmpty = false := by simpa using hf
  simp only [step, hs, hne, stopSearch]
  simp only [Bool.not_false, if_true, Bool.false_eq_true, if_false, and_self, and_true]
  rcases applySearch_unchanged_or_occ eq s.buf s.field s.sdir true 1 (by omega) hwf with h | h
  · exact h
  · exact absurd h (hno _ _)


/-! ## the search field's history -/

theorem appendHist_prefix (h : List Text) (t : Text) : h <+: appendHist h t := by
  unfold appendHist
  split
  · exact List.prefix_refl _
  · split
    · exact List.prefix_refl _
    · exact List.prefix_append _ _

/-- a non-empty accepted text is afterwards the NEWEST history string (appended, or already there) -/
theorem appendHist_last (h : List Text) (t : Text) (ht : t ≠ []) :
    (appendHist h t).getLast? = some t := by
  unfold appendHist
  have : t.isEmpty = false := by simpa using ht
  simp only [this, Bool.false_eq_true, if_false]
  split
  · rename_i h1; simpa using h1
  · simp

/-- only Enter changes the search field's history -/
theorem step_fhist (eq : Char → Char → Bool) (vi : Bool) (s : Sess) (k : Key) :
    (step eq vi s k).fhist =
      if k = .accept ∧ s.searching = true then appendHist s.fhist s.field else s.fhist := by
  cases k with
  | start d =>
    rw [if_neg (by simp)]
    simp only [step]
    split
    · rfl
    · rw [(renderField_frame _).2.2.2.2.2]
  | type c =>
    rw [if_neg (by simp)]
    simp only [step]; split <;> (try split) <;> rfl
  | backspace =>
    rw [if_neg (by simp)]
    simp only [step]
    split
    · split
      · split <;> rfl
      · rfl
    · rfl
  | incr d =>
    rw [if_neg (by simp)]
    simp only [step]; split <;> (try split) <;> rfl
  | accept =>
    by_cases hs : s.searching = true
    · rw [if_pos ⟨rfl, hs⟩]
      simp only [step, hs, if_true]
      split <;> rfl
    · rw [if_neg (by simp [hs])]
      simp [step, hs]
  | abort =>
    rw [if_neg (by simp)]
    simp only [step]
    split
    · split <;> rfl
    · rfl
  | next n => rw [if_neg (by simp)]; simp only [step]; split <;> rfl
  | prev n => rw [if_neg (by simp)]; simp only [step]; split <;> rfl
  | histPrev => rw [if_neg (by simp)]; simp only [step]; split <;> (try split) <;> rfl
  | histNext => rw [if_neg (by simp)]; simp only [step]; split <;> (try split) <;> rfl

/-- the search field's history only grows, whatever keys are pressed -/
theorem run_fhist_prefix (eq : Char → Char → Bool) (vi : Bool) (s : Sess) (ks : List Key) :
    s.fhist <+: (run eq vi s ks).fhist := by
  induction ks generalizing s with
  | nil => exact List.prefix_refl _
  | cons k ks ih =>
    simp only [run]
    refine List.IsPrefix.trans ?_ (ih _)
    rw [step_fhist]
    split
    · exact appendHist_prefix _ _
    · exact List.prefix_refl _

/-- RECALL: the needle just accepted is the first one the history brings back in the next search
    (Enter, start again, history-up), so preview / accept then work on exactly that needle -/
theorem recall_last (eq : Char → Char → Bool) (vi : Bool) (s : Sess) (d : Dir)
    (hs : s.searching = true) (hf : s.field ≠ []) :
    (run eq vi s [.accept, .start d, .histPrev]).field = s.field ∧
    (run eq vi s [.accept, .start d, .histPrev]).searching = true := by
  have hne : s.field.isEmpty = false := by simpa using hf
  have hl := appendHist_last s.fhist s.field hf
  cases vi <;>
    simp [run, step, hs, hne, stopSearch, step.viFixS, renderField, hl]


/-! ## Vi `*` / `#`, Emacs `n` / `N` on a read-only buffer -/

/-- Vi `*` is: remember (word under the cursor, forward), then Vi `n` -/
theorem star_eq_next (eq : Char → Char → Bool) (isSp : Char → Bool) (ro : Bool) (s : Sess) (n : Nat)
    (hs : s.searching = false) :
    stepX eq isSp true ro s (.star n) =
      step eq true { s with stext := wordUnderCursor isSp s.buf.text s.buf.cur, sdir := .fwd }
        (.next n) := by
  simp [stepX, step, step.viFixS, hs]

/-- Vi `#` is: remember (word under the cursor, backward), then Vi `n` -/
theorem hash_eq_next (eq : Char → Char → Bool) (isSp : Char → Bool) (ro : Bool) (s : Sess) (n : Nat)
    (hs : s.searching = false) :
    stepX eq isSp true ro s (.hash n) =
      step eq true { s with stext := wordUnderCursor isSp s.buf.text s.buf.cur, sdir := .bwd }
        (.next n) := by
  simp [stepX, step, step.viFixS, hs]

/-- what `*` / `#` leave behind: the word is the remembered needle (so `n` / `N` repeat it) -/
theorem star_state (eq : Char → Char → Bool) (isSp : Char → Bool) (ro : Bool) (s : Sess) (n : Nat)
    (hs : s.searching = false) :
    (stepX eq isSp true ro s (.star n)).stext = wordUnderCursor isSp s.buf.text s.buf.cur ∧
    (stepX eq isSp true ro s (.star n)).sdir = .fwd ∧
    (stepX eq isSp true ro s (.hash n)).stext = wordUnderCursor isSp s.buf.text s.buf.cur ∧
    (stepX eq isSp true ro s (.hash n)).sdir = .bwd := by
  simp [stepX, hs]

/-- Vi `*` / `#` land on an occurrence of the word under the cursor, or stay (up to the cursor fix) -/
theorem star_sound (eq : Char → Char → Bool) (isSp : Char → Bool) (ro : Bool) (s : Sess)
    (hwf : SessWF s) (n : Nat) (hn : 0 < n) (hs : s.searching = false) (a : Char) (as : Text)
    (hw : wordUnderCursor isSp s.buf.text s.buf.cur = a :: as)
    (hnl : ∀ ch, eq a ch = true → ch ≠ '\n') (k : XKey) (hk : k = .star n ∨ k = .hash n) :
    (stepX eq isSp true ro s k).buf = viFix s.buf ∨
      Occ eq s.buf.lines (a :: as) (stepX eq isSp true ro s k).buf.widx
        (stepX eq isSp true ro s k).buf.cur := by
  rcases hk with rfl | rfl
  · rw [star_eq_next _ _ _ _ _ hs]
    have := session_next_sound eq { s with stext := wordUnderCursor isSp s.buf.text s.buf.cur, sdir := .fwd }
      hwf n hn hs a as hw hnl (.next n) (Or.inl rfl)
    simpa [hw] using this
  · rw [hash_eq_next _ _ _ _ _ hs]
    have := session_next_sound eq { s with stext := wordUnderCursor isSp s.buf.text s.buf.cur, sdir := .bwd }
      hwf n hn hs a as hw hnl (.next n) (Or.inl rfl)
    simpa [hw] using this

/-- `jump` : a positive argument searches `arg` times in the given direction, a negative one
    `-arg` times in the opposite direction, zero does nothing -/
theorem jump_cases (eq : Char → Char → Bool) (b : Buf) (sub : Text) (dir : Dir) (arg : Int) :
    (0 < arg → jump eq b sub dir arg = applySearch eq b sub dir false arg.toNat) ∧
    (arg < 0 → jump eq b sub dir arg = applySearch eq b sub dir.inv false (-arg).toNat) ∧
    (arg = 0 → jump eq b sub dir arg = b) := by
  unfold jump
  refine ⟨fun h => ?_, fun h => ?_, fun h => ?_⟩
  · rw [if_neg (by omega), if_pos h]
  · rw [if_pos h]
  · subst h; simp

/-- Emacs `N` with argument k is Emacs `n` with argument −k -/
theorem jumpPrev_eq_jumpNext_neg (eq : Char → Char → Bool) (isSp : Char → Bool) (vi ro : Bool)
    (s : Sess) (arg : Int) :
    stepX eq isSp vi ro s (.jumpPrev arg) = stepX eq isSp vi ro s (.jumpNext (-arg)) := by
  simp only [stepX]
  split
  · congr 1
    unfold jump
    rcases Int.lt_trichotomy arg 0 with h | h | h
    · rw [if_pos h, if_neg (by omega), if_pos (by omega), Dir.inv_inv]
    · subst h; simp
    · rw [if_neg (by omega), if_pos h, if_pos (by omega)]; simp
  · rfl

/-- `jump` never leaves the buffer on anything but an occurrence of the remembered needle -/
theorem jump_sound (eq : Char → Char → Bool) (b : Buf) (sub : Text) (dir : Dir) (arg : Int)
    (hwf : BufWF b) :
    jump eq b sub dir arg = b ∨
      Occ eq b.lines sub (jump eq b sub dir arg).widx (jump eq b sub dir arg).cur := by
  obtain ⟨h1, h2, h3⟩ := jump_cases eq b sub dir arg
  rcases Int.lt_trichotomy arg 0 with h | h | h
  · rw [h2 h]; exact applySearch_unchanged_or_occ eq b sub dir.inv false _ (by omega) hwf
  · left; exact h3 h
  · rw [h1 h]; exact applySearch_unchanged_or_occ eq b sub dir false _ (by omega) hwf

theorem jump_wf (eq : Char → Char → Bool) (b : Buf) (sub : Text) (dir : Dir) (arg : Int)
    (hwf : BufWF b) : BufWF (jump eq b sub dir arg) := by
  unfold jump
  split
  · exact applySearch_wf eq _ _ _ _ _ hwf
  · split
    · exact applySearch_wf eq _ _ _ _ _ hwf
    · exact hwf

theorem jump_lines (eq : Char → Char → Bool) (b : Buf) (sub : Text) (dir : Dir) (arg : Int) :
    (jump eq b sub dir arg).lines = b.lines := by
  unfold jump
  split
  · exact applySearch_frame ..
  · split
    · exact applySearch_frame ..
    · rfl

/-- every key of the extended set keeps the buffer invariant -/
theorem stepX_wf (eq : Char → Char → Bool) (isSp : Char → Bool) (vi ro : Bool) (s : Sess) (k : XKey)
    (h : SessWF s) : SessWF (stepX eq isSp vi ro s k) := by
  cases k with
  | base k =>
    cases k <;> simp only [stepX] <;> (try split) <;> first | exact h | exact step_wf eq vi s _ h
  | star n =>
    simp only [stepX]; split
    · exact viFix_wf _ (applySearch_wf eq _ _ _ _ _ h)
    · exact h
  | hash n =>
    simp only [stepX]; split
    · exact viFix_wf _ (applySearch_wf eq _ _ _ _ _ h)
    · exact h
  | jumpNext a =>
    simp only [stepX]; split
    · exact jump_wf eq _ _ _ _ h
    · exact h
  | jumpPrev a =>
    simp only [stepX]; split
    · exact jump_wf eq _ _ _ _ h
    · exact h

theorem runX_wf (eq : Char → Char → Bool) (isSp : Char → Bool) (vi ro : Bool) (s : Sess)
    (ks : List XKey) (h : SessWF s) : SessWF (runX eq isSp vi ro s ks) := by
  induction ks generalizing s with
  | nil => exact h
  | cons k ks ih => exact ih _ (stepX_wf eq isSp vi ro s k h)

/-- no search key of the extended set changes any text (a printable key outside the search field
    is an edit, not a search key) -/
theorem stepX_lines_frame (eq : Char → Char → Bool) (isSp : Char → Bool) (vi ro : Bool) (s : Sess)
    (k : XKey) (hk : (∀ c, k ≠ .base (.type c)) ∨ s.searching = true ∨ ro = true) :
    (stepX eq isSp vi ro s k).buf.lines = s.buf.lines := by
  cases k with
  | base k =>
    cases k with
    | type c =>
      simp only [stepX]
      split
      · rfl
      · rename_i h
        rcases hk with hk | hk | hk
        · exact absurd rfl (hk c)
        · exact step_lines_frame eq vi s _ (Or.inr hk)
        · simp [hk] at h
          exact step_lines_frame eq vi s _ (Or.inr h)
    | _ => exact step_lines_frame eq vi s _ (Or.inl (by intro c; simp))
  | star n => simp only [stepX]; split <;> simp [(viFix_lines _).1, applySearch_frame]
  | hash n => simp only [stepX]; split <;> simp [(viFix_lines _).1, applySearch_frame]
  | jumpNext a => simp only [stepX]; split <;> simp [jump_lines]
  | jumpPrev a => simp only [stepX]; split <;> simp [jump_lines]

/-- a read-only buffer's text never changes, whatever keys (of the extended set) are pressed -/
theorem runX_ro_lines (eq : Char → Char → Bool) (isSp : Char → Bool) (vi : Bool) (s : Sess)
    (ks : List XKey) : (runX eq isSp vi true s ks).buf.lines = s.buf.lines := by
  induction ks generalizing s with
  | nil => rfl
  | cons k ks ih =>
    simp only [runX]
    rw [ih]
    exact stepX_lines_frame eq isSp vi true s k (Or.inr (Or.inr rfl))

/-- Emacs `n` / `N` on a read-only buffer: stays, or lands on an occurrence of the remembered needle -/
theorem jumpKey_sound (eq : Char → Char → Bool) (isSp : Char → Bool) (vi ro : Bool) (s : Sess)
    (hwf : SessWF s) (arg : Int) (k : XKey) (hk : k = .jumpNext arg ∨ k = .jumpPrev arg) :
    (stepX eq isSp vi ro s k).buf = s.buf ∨
      Occ eq s.buf.lines s.stext (stepX eq isSp vi ro s k).buf.widx (stepX eq isSp vi ro s k).buf.cur := by
  rcases hk with rfl | rfl <;> simp only [stepX] <;> split
  · exact jump_sound eq _ _ _ _ hwf
  · left; rfl
  · exact jump_sound eq _ _ _ _ hwf
  · left; rfl


/-! ## the word under the cursor -/

theorem take_length_takeWhile {α} (p : α → Bool) (l : List α) :
    l.take (l.takeWhile p).length = l.takeWhile p := by
  induction l with
  | nil => rfl
  | cons x xs ih =>
    simp only [List.takeWhile]
    split <;> simp [*]

theorem length_takeWhile_le' {α} (p : α → Bool) (l : List α) : (l.takeWhile p).length ≤ l.length :=
  (List.takeWhile_prefix p).length_le

theorem mem_takeWhile_imp' {α} (p : α → Bool) (l : List α) (x : α) (h : x ∈ l.takeWhile p) :
    p x = true := by
  induction l with
  | nil => simp at h
  | cons y ys ih =>
    simp only [List.takeWhile] at h
    split at h
    · rename_i hy
      rcases List.mem_cons.1 h with rfl | h
      · exact hy
      · exact ih h
    · simp at h

theorem curWordEnd_le (isSp : Char → Bool) (t : Text) : curWordEnd isSp t ≤ t.length := by
  unfold curWordEnd
  split
  · simp
  · split
    · exact length_takeWhile_le' _ _
    · split
      · exact length_takeWhile_le' _ _
      · omega

/-- the characters the current-word regex consumes are word characters or punctuation, never
    white space -/
theorem curWordEnd_take (isSp : Char → Bool) (t : Text) :
    ∀ c ∈ t.take (curWordEnd isSp t), isWordCh c = true ∨ isPunctCh isSp c = true := by
  unfold curWordEnd
  split
  · simp
  · split
    · rw [take_length_takeWhile]
      intro c hc; left; exact mem_takeWhile_imp' _ _ _ hc
    · split
      · rw [take_length_takeWhile]
        intro c hc; right; exact mem_takeWhile_imp' _ _ _ hc
      · simp

theorem take_of_takeWhile_prefix {α} (q : α → Bool) (m : List α) (n : Nat)
    (hn : n ≤ (m.takeWhile q).length) : m.take n = (m.takeWhile q).take n := by
  induction m generalizing n with
  | nil => simp
  | cons x xs ih =>
    cases n with
    | zero => simp
    | succ n =>
      simp only [List.takeWhile] at hn ⊢
      split at hn
      · rename_i hq
        simp only [List.take_succ_cons, List.cons.injEq, true_and]
        exact ih n (by simpa using hn)
      · simp at hn

theorem wordBounds_fst_le (isSp : Char → Bool) (text : Text) (cur : Nat) :
    (wordBounds isSp text cur).1 ≤ cur := by
  have h := curWordEnd_le isSp ((text.take cur).reverse.takeWhile notNl)
  have h2 := length_takeWhile_le' notNl (text.take cur).reverse
  have h3 : (text.take cur).reverse.length ≤ cur := by simp; omega
  simp only [wordBounds]
  split
  · split
    · split <;> omega
    · omega
  · omega

theorem wordBounds_snd_le (isSp : Char → Bool) (text : Text) (cur : Nat) :
    cur + (wordBounds isSp text cur).2 ≤ max cur text.length := by
  have h := curWordEnd_le isSp ((text.drop cur).takeWhile notNl)
  have h2 := length_takeWhile_le' notNl (text.drop cur)
  simp only [wordBounds]
  simp at h2
  omega

theorem prefixBy_take (eq : Char → Char → Bool) (hrefl : ∀ c, eq c c = true) (u : Text) (k : Nat) :
    prefixBy eq (u.take k) u = true := by
  induction u generalizing k with
  | nil => simp [prefixBy]
  | cons x xs ih =>
    cases k with
    | zero => simp [prefixBy]
    | succ k => simp [prefixBy, hrefl, ih]

/-- the needle of Vi `*` / `#` is a piece of the current text: it occurs there, starting
    `(wordBounds …).1` characters before the cursor (under every reflexive comparison) -/
theorem wordUnderCursor_occ (eq : Char → Char → Bool) (hrefl : ∀ c, eq c c = true)
    (isSp : Char → Bool) (text : Text) (cur : Nat) (hc : cur ≤ text.length) :
    OccAt eq (wordUnderCursor isSp text cur) text (cur - (wordBounds isSp text cur).1) := by
  rw [occAt_iff_prefixBy]
  refine ⟨by omega, ?_⟩
  simp only [wordUnderCursor]
  exact prefixBy_take eq hrefl _ _



theorem wordBounds_cases (isSp : Char → Bool) (text : Text) (cur : Nat) :
    ((wordBounds isSp text cur).1 = 0 ∨
      (wordBounds isSp text cur).1 = curWordEnd isSp ((text.take cur).reverse.takeWhile notNl)) ∧
    (wordBounds isSp text cur).2 = curWordEnd isSp ((text.drop cur).takeWhile notNl) := by
  simp only [wordBounds, and_true]
  split
  · split
    · split
      · left; rfl
      · right; rfl
    · right; rfl
  · right; rfl

/-- every character of the word under the cursor is a word character or punctuation — never
    white space (in particular never a newline) -/
theorem wordUnderCursor_chars (isSp : Char → Bool) (text : Text) (cur : Nat) (hc : cur ≤ text.length) :
    ∀ c ∈ wordUnderCursor isSp text cur, isWordCh c = true ∨ isPunctCh isSp c = true := by
  intro c hmem
  obtain ⟨h1, h2⟩ := wordBounds_cases isSp text cur
  have hle := wordBounds_fst_le isSp text cur
  simp only [wordUnderCursor] at hmem
  generalize hmb : (wordBounds isSp text cur).1 = mb at *
  generalize hma : (wordBounds isSp text cur).2 = ma at *
  -- split the slice at the cursor
  have hsplit : (text.drop (cur - mb)).take (mb + ma) =
      (text.take cur).drop (cur - mb) ++ (text.drop cur).take ma := by
    conv => lhs; rw [← List.take_append_drop cur text]
    rw [List.drop_append_of_le_length (by simp; omega)]
    rw [List.take_append]
    have hl : ((text.take cur).drop (cur - mb)).length = mb := by simp; omega
    rw [hl, List.take_of_length_le (by omega)]
    simp
  rw [hsplit] at hmem
  rcases List.mem_append.1 hmem with hm | hm
  · -- before the cursor
    have hrev : (text.take cur).drop (cur - mb) = ((text.take cur).reverse.take mb).reverse := by
      rw [List.take_reverse]; simp [hc]
    rw [hrev, List.mem_reverse] at hm
    rcases h1 with h0 | h0
    · subst h0; simp at hm
    · have hmle : mb ≤ ((text.take cur).reverse.takeWhile notNl).length := by
        rw [h0]; exact curWordEnd_le _ _
      rw [take_of_takeWhile_prefix notNl _ _ hmle, h0] at hm
      exact curWordEnd_take isSp _ c hm
  · have hmle : ma ≤ ((text.drop cur).takeWhile notNl).length := by
      rw [h2]; exact curWordEnd_le _ _
    rw [take_of_takeWhile_prefix notNl _ _ hmle, h2] at hm
    exact curWordEnd_take isSp _ c hm

/-- … so, when the interpreter's `\s` contains the newline, `*` / `#` never search for a needle
    that starts with a newline (the side condition of `star_sound`) -/
theorem wordUnderCursor_no_nl (isSp : Char → Bool) (hsp : isSp '\n' = true) (text : Text) (cur : Nat)
    (hc : cur ≤ text.length) : '\n' ∉ wordUnderCursor isSp text cur := by
  intro h
  rcases wordUnderCursor_chars isSp text cur hc _ h with h | h
  · revert h; decide
  · simp [isPunctCh, hsp] at h


/-! ## non-vacuity, and the witnesses that are replayed on the real editor (corpus/C16) -/

section examples

/-- history entry "ab", current text "xab ab" -/
private def L1 : List Text := [['a', 'b'], ['x', 'a', 'b', ' ', 'a', 'b']]
/-- not searching, cursor at 3, the search field's history holds "b", "ab" -/
private def S1 : Sess :=
  { buf := ⟨L1, 1, 3⟩, field := [], stext := [], sdir := .fwd, searching := false,
    fhist := [['b'], ['a', 'b']] }
private def sp (c : Char) : Bool := c == ' ' || c == '\n' || c == '\t'

-- SState.inv / applySS_inv
example : (SState.mk ['a'] .fwd true).inv = SState.mk ['a'] .bwd true ∧
    (SState.mk ['a'] .bwd false).inv.inv = SState.mk ['a'] .bwd false := ⟨by decide, by decide⟩

-- hist_frame / run_fieldKeys_frame / step_fhist: C-r, Up, Up, Down, type: the field shows the
-- recalled needle, its working lines are intact, the buffer has not moved
example :
    let s := run eqCS false S1 [.start .bwd, .histPrev, .histPrev, .histNext, .type 'x']
    s.buf = S1.buf ∧ s.searching = true ∧ s.field = ['a', 'b', 'x'] ∧
      fieldLines s = [['b'], ['a', 'b', 'x'], []] ∧ s.fhist = S1.fhist ∧
      preview eqCS (run eqCS false S1 [.start .bwd, .histPrev]) = (['x', 'a', 'b', ' ', 'a', 'b'], 1) := by
  decide
-- run_fieldKeys_frame_vi: in Vi mode backspace in the empty field leaves the search
example : (run eqCS true S1 [.start .bwd, .type 'a', .backspace, .backspace]).searching = false ∧
    (run eqCS true S1 [.start .bwd, .type 'a', .backspace, .backspace]).buf = viFix S1.buf := by decide
-- abort_restores: any amount of typing / recalling, then C-g
example : (run eqCS false S1 [.start .bwd, .histPrev, .type 'b', .backspace, .histPrev, .abort]).buf
    = S1.buf := by decide
/-- OBSERVATION (abort does not undo incremental steps): C-r / C-s pressed while searching really
    move the buffer (`apply_search`), through history entries too, and C-g / C-c keep that position
    — `abort_search` only leaves the search field ("restore the original line" in its docstring is
    not what it does).  The property speaks about typing, preview and accept; it does not require
    abort to restore, so this is recorded, not reported. -/
example : (run eqCS false S1 [.start .bwd, .type 'a', .type 'b', .incr .bwd, .incr .bwd, .abort]).buf
    = ⟨L1, 0, 0⟩ := by decide
-- accept_nomatch
example : (run eqCS false S1 [.start .bwd, .type 'q', .accept]).buf = S1.buf ∧
    (run eqCS false S1 [.start .bwd, .type 'q', .accept]).stext = ['q'] ∧
    (run eqCS false S1 [.start .bwd, .type 'q', .accept]).fhist = [['b'], ['a', 'b'], ['q']] := by decide
-- appendHist: no duplicate of the newest string; recall_last
example : appendHist [['b'], ['a', 'b']] ['a', 'b'] = [['b'], ['a', 'b']] ∧
    appendHist [['b'], ['a', 'b']] ['b'] = [['b'], ['a', 'b'], ['b']] ∧
    appendHist [['b']] [] = [['b']] := by decide
example : (run eqCS true S1 [.start .fwd, .type 'x', .accept, .start .bwd, .histPrev]).field = ['x'] := by
  decide

/-- "foo", then "x foo.bar foo" -/
private def L2 : List Text :=
  [['f', 'o', 'o'], ['x', ' ', 'f', 'o', 'o', '.', 'b', 'a', 'r', ' ', 'f', 'o', 'o']]
private def S2 (c : Nat) : Sess :=
  { buf := ⟨L2, 1, c⟩, field := [], stext := [], sdir := .fwd, searching := false }

-- wordUnderCursor / wordBounds: inside a word, on punctuation next to a word, on a blank behind a
-- word (the word BEFORE the cursor is taken), at the very end
example : wordUnderCursor sp (entry L2 1) 3 = ['f', 'o', 'o'] ∧ wordBounds sp (entry L2 1) 3 = (1, 2) ∧
    wordUnderCursor sp (entry L2 1) 5 = ['.'] ∧ wordUnderCursor sp (entry L2 1) 6 = ['b', 'a', 'r'] ∧
    wordUnderCursor sp (entry L2 1) 9 = ['b', 'a', 'r'] ∧ wordUnderCursor sp (entry L2 1) 1 = ['x'] ∧
    wordUnderCursor sp (entry L2 1) 13 = ['f', 'o', 'o'] := by decide
-- star_sound / star_state / star_eq_next: `*` in the middle of the first "foo" goes to the second
-- one, `#` from there back into the history entry; `2*` wraps around through entry 0
example : SessWF (S2 3) ∧ (stepX eqCS sp true false (S2 3) (.star 1)).buf = ⟨L2, 1, 10⟩ ∧
    (stepX eqCS sp true false (S2 3) (.star 1)).stext = ['f', 'o', 'o'] ∧
    (stepX eqCS sp true false (S2 3) (.hash 1)).buf = ⟨L2, 0, 0⟩ ∧
    (stepX eqCS sp true false (S2 10) (.star 2)).buf = ⟨L2, 1, 2⟩ :=
  ⟨by unfold SessWF BufWF WF; decide, by decide, by decide, by decide, by decide⟩
-- … a word that occurs nowhere else: the cursor stays, the word is remembered all the same
example : (stepX eqCS sp true false (S2 7) (.star 1)).buf = ⟨L2, 1, 7⟩ ∧
    (stepX eqCS sp true false (S2 7) (.star 1)).stext = ['b', 'a', 'r'] := by decide

-- jump_cases / jumpKey_sound / jumpPrev_eq_jumpNext_neg: Emacs n / N on a read-only buffer
private def S3 : Sess :=
  { buf := ⟨L1, 1, 0⟩, field := [], stext := ['a', 'b'], sdir := .fwd, searching := false }
example : (stepX eqCS sp false true S3 (.jumpNext 1)).buf = ⟨L1, 1, 1⟩ ∧
    (stepX eqCS sp false true S3 (.jumpNext 2)).buf = ⟨L1, 1, 4⟩ ∧
    (stepX eqCS sp false true S3 (.jumpNext (-1))).buf = ⟨L1, 0, 0⟩ ∧
    (stepX eqCS sp false true S3 (.jumpPrev 1)).buf = ⟨L1, 0, 0⟩ ∧
    (stepX eqCS sp false true S3 (.jumpNext 0)).buf = S3.buf ∧
    -- a printable key is refused on the read-only buffer; without `ro` the keys are not bound
    stepX eqCS sp false true S3 (.base (.type 'z')) = S3 ∧
    stepX eqCS sp false false S3 (.jumpNext 1) = S3 := by decide

end examples

end Ptk.C16
