/-
  Cross-model agreement, output side, pair (1): C10 (code points, canonical) vs C11 (`Widths`).

    utils.py          get_cwidth                      C10.cwidth        vs C11.textWidth / measWidth (dm = false)
    layout/screen.py  Char.__init__ / display_mappings C10.mkCell/lookup vs C11.Widths.disp / C11.cellW
    layout/screen.py  get_display_width               C10.displayWidth  vs C11.measWidth (dm = true)

  Translation: a C11 character `c : Char` is the C10 code point `c.toNat`, a text `t` is `enc t`;
  C11's runtime classes `W` correspond to C10's `(m, wc)` through `WRel` (raw width = `max(0, wcwidth)`,
  display string = table entry or the character itself).
-/
import Ptk.Model.C10Gen
import Ptk.Model.C11W
namespace Ptk.AgreeOut.Char
open Ptk.Py

/-- translation of characters / texts: a Lean `Char` of C11 is the code point `c.toNat` of C10 -/
def enc (t : Text) : List Nat := t.map Char.toNat

@[simp] theorem enc_nil : enc [] = [] := rfl
@[simp] theorem enc_cons (c : Char) (t : Text) : enc (c :: t) = c.toNat :: enc t := rfl
@[simp] theorem enc_append (a b : Text) : enc (a ++ b) = enc a ++ enc b := by simp [enc]

/-- the translation between C11's runtime character classes `W` and C10's `(table, wcwidth)` pair -/
structure WRel (W : C11.Widths) (m : C10.Table) (wc : Nat → Int) : Prop where
  hrw : ∀ c, W.rw c = (wc c.toNat).toNat
  hdisp : ∀ c, enc (W.disp c) = (C10.lookup m [c.toNat]).getD [c.toNat]

/-- utils.py `get_cwidth` : `C11.textWidth` = `C10.cwidth` -/
theorem textWidth_eq {W m wc} (h : WRel W m wc) (t : Text) :
    C11.textWidth W t = C10.cwidth wc (enc t) := by
  induction t with
  | nil => rfl
  | cons c cs ih => simp [C11.textWidth, C10.cwidth, ih, h.hrw]

/-- layout/screen.py `Char.__init__` : `.char` of `C10.mkCell` = `Widths.disp` of C11 -/
theorem mkCell_char {W m wc} (h : WRel W m wc) (c : Char) (style : Text) :
    (C10.mkCell m wc [c.toNat] style).char = enc (W.disp c) := by
  rw [h.hdisp]; unfold C10.mkCell
  cases C10.lookup m [c.toNat] <;> simp

theorem mkCell_width_char (m wc s style) :
    (C10.mkCell m wc s style).width = C10.cwidth wc (C10.mkCell m wc s style).char := by
  unfold C10.mkCell
  cases C10.lookup m s <;> simp

/-- layout/screen.py `Char.__init__` : `.width` of `C10.mkCell` = `C11.cellW` -/
theorem mkCell_width {W m wc} (h : WRel W m wc) (c : Char) (style : Text) :
    (C10.mkCell m wc [c.toNat] style).width = C11.cellW W c := by
  rw [mkCell_width_char, mkCell_char h, C11.cellW, textWidth_eq h]

/-- `get_cwidth` as the scroll code's measure (`dm = false`) -/
theorem measWidth_raw {W m wc} (h : WRel W m wc) (hdm : W.dm = false) (t : Text) :
    C11.measWidth W t = C10.cwidth wc (enc t) := by
  induction t with
  | nil => rfl
  | cons c cs ih => simp [C11.measWidth, C11.measure, hdm, C10.cwidth, ih, h.hrw]

theorem cellW_eq {W m wc} (h : WRel W m wc) (c : Char) :
    C11.cellW W c = C10.cwidth wc ((C10.lookup m [c.toNat]).getD [c.toNat]) := by
  rw [C11.cellW, textWidth_eq h, h.hdisp]

/-- the slow path of `get_display_width` -/
theorem measWidth_sum {W m wc} (h : WRel W m wc) (hdm : W.dm = true) (t : Text) :
    C11.measWidth W t = ((enc t).map fun c => C10.cwidth wc ((C10.lookup m [c]).getD [c])).sum := by
  induction t with
  | nil => rfl
  | cons c cs ih => simp [C11.measWidth, C11.measure, hdm, ih, cellW_eq h]

theorem sum_unmapped (m : C10.Table) (wc : Nat → Int) (t : List Nat)
    (hn : ∀ c ∈ t, C10.lookup m [c] = none) :
    (t.map fun c => C10.cwidth wc ((C10.lookup m [c]).getD [c])).sum = C10.cwidth wc t := by
  induction t with
  | nil => rfl
  | cons c cs ih =>
    have h1 := hn c (by simp)
    have h2 := ih (fun d hd => hn d (by simp [hd]))
    simp [h1, h2, C10.cwidth]

/-- the table side condition: `str.isprintable` characters have no display mapping -/
def PrintableUnmapped (m : C10.Table) (printable : Nat → Bool) : Prop :=
  ∀ c, printable c = true → C10.lookup m [c] = none

/-- layout/screen.py `get_display_width` : `C11.measWidth` (with `dm = true`) = `C10.displayWidth` -/
theorem measWidth_display {W m wc} (h : WRel W m wc) (hdm : W.dm = true)
    (printable : Nat → Bool) (hp : PrintableUnmapped m printable) (t : Text) :
    C11.measWidth W t = C10.displayWidth m wc printable (enc t) := by
  rw [measWidth_sum h hdm, C10.displayWidth]
  split
  · rename_i hall
    apply sum_unmapped
    intro c hc
    exact hp c (by simpa using List.all_eq_true.mp hall c hc)
  · rfl

/-- one character, as `copy_line`'s horizontal scroll loop measures it -/
theorem measure_display {W m wc} (h : WRel W m wc) (hdm : W.dm = true)
    (printable : Nat → Bool) (hp : PrintableUnmapped m printable) (c : Char) :
    C11.measure W c = C10.displayWidth m wc printable [c.toNat] := by
  have := measWidth_display h hdm printable hp [c]
  simpa [C11.measWidth] using this

/-- without `PrintableUnmapped` the two models differ (outside the real table): a table that maps the
    printable "A" to "BB".  `C10.displayWidth` follows the code (fast path), C11 measures as drawn. -/
theorem display_differs_without_hyp :
    let m : C10.Table := [([65], [66, 66])]
    let W : C11.Widths := { rw := fun _ => 1, disp := fun c => if c = 'A' then ['B', 'B'] else [c], dm := true }
    C10.displayWidth m (fun _ => 1) (fun _ => true) (enc ['A']) = 1 ∧ C11.measWidth W ['A'] = 2 := by
  decide

/-! ### `Widths` decoded from a C10 table: the translation is realisable for every `(m, wc)` -/

theorem toNat_ofNat_valid (n : Nat) (h : n.isValidChar) : (Char.ofNat n).toNat = n := by
  simp [Char.ofNat, h, Char.ofNatAux, Char.toNat]

/-- C11's runtime classes decoded from C10's `(table, wcwidth)` -/
def ofTable (m : C10.Table) (wc : Nat → Int) (dm : Bool) : C11.Widths :=
  { rw := fun c => (wc c.toNat).toNat,
    disp := fun c => match C10.lookup m [c.toNat] with
      | some v => v.map Char.ofNat
      | none => [c],
    dm := dm }

/-- every display string consists of code points that are Lean `Char`s (no lone surrogates) -/
def valuesValid (m : C10.Table) : Bool := m.all fun kv => kv.2.all fun n => decide n.isValidChar

theorem lookup_mem (m : C10.Table) (s v : List Nat) (h : C10.lookup m s = some v) : (s, v) ∈ m := by
  induction m with
  | nil => simp [C10.lookup] at h
  | cons kv rest ih =>
    obtain ⟨k, w⟩ := kv
    simp only [C10.lookup] at h
    by_cases hk : k = s
    · simp [hk] at h; simp [hk, h]
    · simp [hk] at h; simp [ih h]

theorem WRel_ofTable (m : C10.Table) (wc : Nat → Int) (dm : Bool) (hv : valuesValid m = true) :
    WRel (ofTable m wc dm) m wc := by
  constructor
  · intro c; rfl
  · intro c
    simp only [ofTable]
    cases hl : C10.lookup m [c.toNat] with
    | none => simp
    | some v =>
      have hm := lookup_mem m _ _ hl
      have : ∀ n ∈ v, n.isValidChar := by
        intro n hn
        have := List.all_eq_true.mp hv _ hm
        simpa using List.all_eq_true.mp this n hn
      simp only [Option.getD_some, enc, List.map_map]
      conv => rhs; rw [← List.map_id v]
      apply List.map_congr_left
      intro n hn; simp [toNat_ofNat_valid n (this n hn)]


/-- `WRel` is satisfiable on a non-trivial table: "^A" for U+0001, a combining and a wide character -/
example : WRel (ofTable [([1], [94, 65])] (fun n => if n = 768 then 0 else if n = 19968 then 2 else 1) true)
    [([1], [94, 65])] (fun n => if n = 768 then 0 else if n = 19968 then 2 else 1) :=
  WRel_ofTable _ _ _ (by decide)

end Ptk.AgreeOut.Char
