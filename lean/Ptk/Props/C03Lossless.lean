/-
  C03 — losslessness of the decoder model: side conditions on the configuration (`wf`),
  reconstruction of the consumed stream (`recon`), and the invariant chain through handler,
  shift loop, retry loop, normal-mode loop and `feed`.
-/
import Ptk.Props.C03Lemmas
namespace Ptk.C03
open Ptk.Py

/-- what terminals send when a bracketed paste begins (the table maps it to `Keys.BracketedPaste`) -/
def pasteStart : Text := [ESC, '[', '2', '0', '0', '~']

/-! ### decidable side conditions on table / keys / digit class -/

def wfEntry (cfg : Cfg) (kv : Text × List String) : Bool :=
  !kv.1.isEmpty && !kv.2.isEmpty
  && lookup cfg.table kv.1 == kv.2
  && !isCpr cfg.isDigit kv.1 && !isMouse cfg.isDigit kv.1
  && (if kv.1 == pasteStart then kv.2 == [cfg.pasteKey] else !kv.2.contains cfg.pasteKey)
  && (kv.1 == pasteStart || findSub? pasteStart kv.1 == none)

/-- * every table entry: non-empty sequence, non-empty value, it is the dict value of its sequence,
      it does not look like a CPR / mouse report, only `ESC[200~` maps to the paste key (and to
      nothing else), no other sequence contains `ESC[200~`;
    * the CPR / mouse keys are not the paste key; the paste key is not a single character;
    * `~` is not a `\d` digit. -/
def wf (cfg : Cfg) : Bool :=
  cfg.table.all (wfEntry cfg)
  && cfg.cprKey != cfg.pasteKey && cfg.mouseKey != cfg.pasteKey
  && cfg.pasteKey.length != 1
  && !cfg.isDigit '~'

structure WF (cfg : Cfg) : Prop where
  entry : ∀ kv ∈ cfg.table, wfEntry cfg kv = true
  cpr : cfg.cprKey ≠ cfg.pasteKey
  mouse : cfg.mouseKey ≠ cfg.pasteKey
  len : cfg.pasteKey.length ≠ 1
  tilde : cfg.isDigit '~' = false

theorem wf_iff (cfg : Cfg) : wf cfg = true ↔ WF cfg := by
  unfold wf
  simp only [Bool.and_eq_true, List.all_eq_true, bne_iff_ne, ne_eq, Bool.not_eq_true']
  constructor
  · rintro ⟨⟨⟨⟨h1, h2⟩, h3⟩, h4⟩, h5⟩; exact ⟨h1, h2, h3, h4, h5⟩
  · rintro ⟨h1, h2, h3, h4, h5⟩; exact ⟨⟨⟨⟨h1, h2⟩, h3⟩, h4⟩, h5⟩

/-! ### consequences of `WF` -/

theorem csi_nil : csi [] = none := rfl

theorem wf_getMatch_nil {cfg : Cfg} (h : WF cfg) : getMatch cfg [] = [] := by
  have h1 : isCpr cfg.isDigit [] = false := rfl
  have h2 : isMouse cfg.isDigit [] = false := rfl
  simp only [getMatch, h1, h2, Bool.false_eq_true, if_false]
  cases hl : lookup cfg.table [] with
  | nil => rfl
  | cons a as =>
    have hm := lookup_mem hl (by simp)
    have := h.entry _ hm
    simp [wfEntry] at this

/-- what a successful `_get_match` can return: keys other than the paste key, or exactly the
    paste key for exactly `ESC[200~` -/
theorem wf_getMatch {cfg : Cfg} (h : WF cfg) {p : Text} (hne : getMatch cfg p ≠ []) :
    cfg.pasteKey ∉ getMatch cfg p ∨ (getMatch cfg p = [cfg.pasteKey] ∧ p = pasteStart) := by
  unfold getMatch at hne ⊢
  split
  · left; simp only [List.mem_singleton]; exact fun e => h.cpr e.symm
  · split
    · left; simp only [List.mem_singleton]; exact fun e => h.mouse e.symm
    · rename_i h1 h2
      simp only [h1, h2, Bool.false_eq_true, if_false] at hne
      have hm := lookup_mem rfl hne
      have := h.entry _ hm
      simp only [wfEntry, Bool.and_eq_true] at this
      obtain ⟨⟨_, h6⟩, _⟩ := this
      by_cases hp : p = pasteStart
      · right
        simp only [hp, beq_self_eq_true, if_true, beq_iff_eq] at h6
        exact ⟨by rw [hp]; exact h6, hp⟩
      · left
        have : (p == pasteStart) = false := by simpa using hp
        simp only [this, Bool.false_eq_true, if_false, Bool.not_eq_true', List.contains_eq_mem,
          decide_eq_false_iff_not] at h6
        exact h6

theorem wf_singleton {cfg : Cfg} (h : WF cfg) (c : Char) : cfg.pasteKey ∉ [String.singleton c] := by
  simp only [List.mem_singleton]
  intro e
  exact h.len (by rw [e]; exact String.length_singleton)

/-! ### `findSub?` and infixes -/

theorem findSub_none_infix (sub l : Text) : findSub? sub l = none ↔ ¬ sub <:+: l := by
  rw [findSub_none_iff]
  constructor
  · rintro h ⟨a, b, hab⟩
    refine h a.length (by rw [← hab]; simp) ?_
    rw [← hab, List.append_assoc, List.drop_left]
    exact List.prefix_append _ _
  · intro h i _ hp
    obtain ⟨t, ht⟩ := hp
    exact h ⟨l.take i, t, by rw [List.append_assoc, ht, List.take_append_drop]⟩

/-! ### the pending prefix never contains `ESC[200~` -/

/-- at the `yield`: `ESC[200~` does not occur in the pending prefix -/
def NoPS (p : Text) : Prop := ¬ pasteStart <:+: p
/-- inside the body (one more character, or a flush): `ESC[200~` can only be the whole tail -/
def NoPSInner (p : Text) : Prop := ¬ pasteStart <:+: p.dropLast

theorem tilde_mem_of_infix {p : Text} (h : pasteStart <:+: p) : '~' ∈ p :=
  h.subset (by simp [pasteStart])

theorem noPS_of_short {p : Text} (h : p.length < 6) : NoPS p := by
  intro hi
  have := hi.length_le
  simp [pasteStart] at this
  omega

theorem csi_some {p r : Text} (h : csi p = some r) : p = ESC :: '[' :: r := by
  unfold csi at h
  split at h
  · split at h
    · rename_i e b r' hc
      simp only [Bool.and_eq_true, beq_iff_eq] at hc
      cases h
      rw [hc.1, hc.2]
    · cases h
  · cases h

theorem noPS_of_allDS {cfg : Cfg} (h : WF cfg) {r : Text} (pre : Text) (hpre : '~' ∉ pre)
    (hr : r.all (isDS cfg.isDigit) = true) : NoPS (pre ++ r) := by
  intro hi
  have hm := tilde_mem_of_infix hi
  rw [List.mem_append] at hm
  rcases hm with hm | hm
  · exact hpre hm
  · rw [List.all_eq_true] at hr
    have := hr _ hm
    simp [isDS, h.tilde] at this

theorem wf_isPrefix_noPS {cfg : Cfg} (h : WF cfg) {p : Text}
    (hp : isPrefixOfLonger cfg p = true) : NoPS p := by
  unfold isPrefixOfLonger at hp
  split at hp
  · rename_i hc
    simp only [Bool.or_eq_true] at hc
    rcases hc with hc | hc
    · unfold isCprPrefix at hc
      split at hc
      · rename_i r hr
        rw [csi_some hr]
        exact noPS_of_allDS h [ESC, '['] (by simp [ESC]) hc
      · cases hc
    · unfold isMousePrefix at hc
      split at hc
      · rename_i r hr
        rw [csi_some hr]
        unfold mousePrefixBody at hc
        simp only [Bool.or_eq_true] at hc
        rcases hc with hc | hc
        · exact noPS_of_allDS h [ESC, '['] (by simp [ESC]) hc
        · split at hc
          · rename_i c r'
            simp only [Bool.or_eq_true, Bool.and_eq_true, beq_iff_eq, decide_eq_true_eq] at hc
            rcases hc with ⟨hc1, hc2⟩ | ⟨⟨hc1, hc2⟩, _⟩
            · subst hc1
              exact noPS_of_allDS h [ESC, '[', '<'] (by simp [ESC]) hc2
            · apply noPS_of_short
              simp; omega
          · cases hc
      · cases hc
  · rw [List.any_eq_true] at hp
    obtain ⟨⟨k, v⟩, hm, hkv⟩ := hp
    simp only [Bool.and_eq_true, Bool.not_eq_true', bne_iff_ne, ne_eq] at hkv
    obtain ⟨⟨_, hpk⟩, hne⟩ := hkv
    rw [List.isPrefixOf_iff_prefix] at hpk
    have he := h.entry _ hm
    simp only [wfEntry, Bool.and_eq_true, Bool.or_eq_true, beq_iff_eq] at he
    obtain ⟨_, he⟩ := he
    intro hi
    rcases he with he | he
    · -- k = pasteStart, p a proper prefix: too short
      have h1 := hpk.length_le
      have h2 := hi.length_le
      have : p.length = k.length := by rw [he] at h1 ⊢; omega
      exact hne (hpk.eq_of_length this).symm
    · have : ¬ pasteStart <:+: k := (findSub_none_infix _ _).1 he
      exact this (hi.trans hpk.isInfix)

theorem noPSInner_of_noPS {p : Text} (h : NoPS p) : NoPSInner p :=
  fun hi => h (hi.trans (List.dropLast_prefix p).isInfix)

theorem noPSInner_snoc {p : Text} (c : Char) (h : NoPS p) : NoPSInner (p ++ [c]) := by
  unfold NoPSInner; rwa [List.dropLast_concat]

theorem noPSInner_suffix {p t : Text} (h : NoPSInner p) (ht : t <:+ p) : NoPSInner t := by
  intro hi
  apply h
  obtain ⟨a, rfl⟩ := ht
  cases t with
  | nil => simp [pasteStart] at hi
  | cons x xs =>
    rw [List.dropLast_append_of_ne_nil (by simp)]
    exact hi.trans (List.suffix_append _ _).isInfix

/-- if `ESC[200~` is a prefix of the text being processed, it is all of it -/
theorem noPSInner_take {p : Text} (h : NoPSInner p) {i : Nat} (ht : p.take i = pasteStart) :
    p.drop i = [] := by
  cases hd : p.drop i with
  | nil => rfl
  | cons x xs =>
    exfalso
    apply h
    have hp : p = pasteStart ++ x :: xs := by rw [← ht, ← hd, List.take_append_drop]
    rw [hp, List.dropLast_append_of_ne_nil (by simp)]
    exact (List.prefix_append _ _).isInfix

/-! ### reconstruction -/

/-- the characters a key press accounts for: its data, and for a paste event the two marks around
    the pasted text -/
def pressText (cfg : Cfg) (p : Press) : Text :=
  if p.key == cfg.pasteKey then pasteStart ++ p.data ++ endMark else p.data

/-- characters received but not yet delivered -/
def pending (s : St) : Text := if s.inPaste then pasteStart ++ s.paste else s.pre

/-- the stream accounted for by a parser state: delivered key presses in order, then what is
    still buffered -/
def recon (cfg : Cfg) (s : St) : Text := s.out.flatMap (pressText cfg) ++ pending s

theorem presses_text (cfg : Cfg) (m : List String) (d : Text) (hm : m ≠ []) (h : cfg.pasteKey ∉ m) :
    (presses m d).flatMap (pressText cfg) = d := by
  have aux : ∀ ks : List String, cfg.pasteKey ∉ ks → (presses ks []).flatMap (pressText cfg) = [] := by
    intro ks
    induction ks with
    | nil => intro _; rfl
    | cons k ks ih =>
      intro hk
      have hk1 : (k == cfg.pasteKey) = false := by
        simp only [beq_eq_false_iff_ne, ne_eq]; intro e; exact hk (by simp [e])
      simp only [presses, List.flatMap_cons, pressText, hk1, Bool.false_eq_true, if_false,
        List.nil_append]
      exact ih (fun hm => hk (List.mem_cons_of_mem _ hm))
  cases m with
  | nil => exact absurd rfl hm
  | cons k ks =>
    have hk1 : (k == cfg.pasteKey) = false := by
      simp only [beq_eq_false_iff_ne, ne_eq]; intro e; exact h (by simp [e])
    simp only [presses, List.flatMap_cons, pressText, hk1, Bool.false_eq_true, if_false]
    rw [aux ks (fun hm => h (List.mem_cons_of_mem _ hm))]; simp

theorem callHandler_paste (cfg : Cfg) (s : St) (d : Text) :
    callHandler cfg s [cfg.pasteKey] d = { s with inPaste := true, paste := [] } := by
  simp [callHandler]

/-- state inside the retry loop: normal mode with `ESC[200~` only possible as the whole tail, or
    paste mode just entered with nothing left over -/
def Inner (s : St) : Prop :=
  (s.inPaste = false ∧ NoPSInner s.pre) ∨ (s.inPaste = true ∧ s.pre = [])

/-- one handler call on a matched head `p.take i` of the prefix keeps the reconstruction -/
theorem handler_step {cfg : Cfg} (h : WF cfg) (s : St) (i : Nat) (hip : s.inPaste = false)
    (hw : NoPSInner s.pre) (hne : getMatch cfg (s.pre.take i) ≠ []) :
    let s' := callHandler cfg { s with pre := s.pre.drop i } (getMatch cfg (s.pre.take i)) (s.pre.take i)
    recon cfg s' = recon cfg s ∧ Inner s' := by
  intro s'
  rcases wf_getMatch h hne with hk | ⟨hk, hps⟩
  · have hs' : s' = { s with pre := s.pre.drop i, out := s.out ++ presses (getMatch cfg (s.pre.take i)) (s.pre.take i) } :=
      callHandler_noPaste cfg _ _ _ hk
    rw [hs']
    constructor
    · simp only [recon, pending, hip, Bool.false_eq_true, if_false, List.flatMap_append,
        presses_text cfg _ _ hne hk, List.append_assoc, List.take_append_drop]
    · left; exact ⟨hip, noPSInner_suffix hw (List.drop_suffix _ _)⟩
  · have hs' : s' = { s with pre := s.pre.drop i, inPaste := true, paste := [] } := by
      show callHandler cfg _ (getMatch cfg (s.pre.take i)) _ = _
      rw [hk, callHandler_paste]
    have hd := noPSInner_take hw hps
    rw [hs']
    constructor
    · have hpre : s.pre = pasteStart := by rw [← List.take_append_drop i s.pre, hd, hps]; simp
      simp [recon, pending, hip, hpre]
    · right; exact ⟨rfl, hd⟩

theorem shiftLoop_lossless {cfg : Cfg} (h : WF cfg) (i : Nat) (s : St) (f : Bool) (hs : Inner s) :
    recon cfg (shiftLoop cfg i s f).1 = recon cfg s ∧ Inner (shiftLoop cfg i s f).1 := by
  induction i generalizing s f with
  | zero => exact ⟨rfl, hs⟩
  | succ i ih =>
    rw [shiftLoop]
    by_cases hm : (getMatch cfg (s.pre.take (i + 1))).isEmpty = true
    · simp only [hm, Bool.not_true, Bool.false_eq_true, if_false]
      exact ih s f hs
    · simp only [hm, Bool.not_false, if_true]
      have hne : getMatch cfg (s.pre.take (i + 1)) ≠ [] := by simpa [List.isEmpty_iff] using hm
      rcases hs with ⟨hip, hw⟩ | ⟨_, hp⟩
      · obtain ⟨h1, h2⟩ := handler_step h s (i + 1) hip hw hne
        obtain ⟨h3, h4⟩ := ih _ true h2
        exact ⟨h3.trans h1, h4⟩
      · rw [hp, List.take_nil, wf_getMatch_nil h] at hne
        exact absurd rfl hne

theorem shiftStep_lossless {cfg : Cfg} (h : WF cfg) (s : St) (hip : s.inPaste = false)
    (hw : NoPSInner s.pre) :
    recon cfg (shiftStep cfg s) = recon cfg s ∧ Inner (shiftStep cfg s) := by
  unfold shiftStep
  have hl := shiftLoop_lossless h s.pre.length s false (Or.inl ⟨hip, hw⟩)
  have hsp := (shiftLoop_spec cfg s.pre.length s false).2.1
  generalize shiftLoop cfg s.pre.length s false = r at hl hsp
  obtain ⟨s1, found⟩ := r
  simp only at hl hsp ⊢
  cases found with
  | true => simpa using hl
  | false =>
    have := (hsp rfl).1
    subst this
    simp only [Bool.false_eq_true, if_false]
    cases hp : s1.pre with
    | nil => exact ⟨by simp, Or.inl ⟨hip, hw⟩⟩
    | cons c r =>
      simp only
      rw [callHandler_noPaste cfg _ _ _ (wf_singleton h c)]
      constructor
      · have hne : String.singleton c ≠ cfg.pasteKey := fun e => wf_singleton h c (by simp [e])
        simp [recon, pending, hip, hp, presses, pressText, hne]
      · left
        exact ⟨hip, noPSInner_suffix hw (by rw [hp]; exact List.suffix_cons c r)⟩

/-- the whole coroutine body keeps the reconstruction; paste mode is only entered with nothing
    left in the prefix -/
theorem proc_lossless {cfg : Cfg} (h : WF cfg) (fl : Bool) (s : St) (hs : Inner s) :
    recon cfg (proc cfg fl s) = recon cfg s ∧ ((proc cfg fl s).inPaste = true → (proc cfg fl s).pre = []) := by
  induction s using proc_induct cfg with
  | step s ih =>
    rcases hs with ⟨hip, hw⟩ | ⟨hip, hp⟩
    · rw [proc_eq]
      by_cases hp : s.pre = []
      · simp [hp]
      · have hpe : s.pre.isEmpty = false := by simpa [List.isEmpty_iff] using hp
        simp only [hpe, Bool.false_eq_true, if_false]
        split
        · split
          · rename_i hm
            have hne : getMatch cfg (s.pre.take s.pre.length) ≠ [] := by
              rw [List.take_length]; simpa [List.isEmpty_iff] using hm
            have := handler_step h s s.pre.length hip hw hne
            simp only [List.take_length, List.drop_length] at this
            obtain ⟨h1, h2⟩ := this
            refine ⟨h1, fun _ => by simp⟩
          · obtain ⟨h1, h2⟩ := shiftStep_lossless h s hip hw
            obtain ⟨h3, h4⟩ := ih hp h2
            exact ⟨h3.trans h1, h4⟩
        · exact ⟨rfl, fun hq => by rw [hip] at hq; cases hq⟩
    · rw [proc_nil cfg fl s hp]
      exact ⟨rfl, fun _ => hp⟩

/-! ### parser states between two activations -/

/-- invariant of the parser at rest -/
structure Good (cfg : Cfg) (s : St) : Prop where
  /-- nothing is pending in the coroutine while a paste is being collected -/
  pasteClean : s.inPaste = true → s.pre = []
  /-- whatever is pending can still grow into a longer sequence -/
  pend : s.pre = [] ∨ isPrefixOfLonger cfg s.pre = true

theorem good_init (cfg : Cfg) : Good cfg St.init := ⟨fun _ => rfl, Or.inl rfl⟩

theorem good_noPS {cfg : Cfg} (h : WF cfg) {s : St} (g : Good cfg s) : NoPS s.pre := by
  rcases g.pend with hp | hp
  · rw [hp]; exact noPS_of_short (by simp)
  · exact wf_isPrefix_noPS h hp

theorem sendChar_lossless {cfg : Cfg} (h : WF cfg) (s : St) (c : Char) (g : Good cfg s)
    (hip : s.inPaste = false) :
    recon cfg (sendChar cfg s c) = recon cfg s ++ [c] ∧ Good cfg (sendChar cfg s c) := by
  rw [sendChar_eq]
  have hi : Inner { s with pre := s.pre ++ [c] } := Or.inl ⟨hip, noPSInner_snoc c (good_noPS h g)⟩
  obtain ⟨h1, h2⟩ := proc_lossless h false _ hi
  refine ⟨?_, ⟨h2, ?_⟩⟩
  · rw [h1]; simp [recon, pending, hip]
  · rcases proc_post cfg false { s with pre := s.pre ++ [c] } with hq | ⟨_, hq⟩
    · exact Or.inl hq
    · exact Or.inr hq

theorem flush_lossless' {cfg : Cfg} (h : WF cfg) (s : St) (g : Good cfg s) :
    recon cfg (flush cfg s) = recon cfg s ∧ Good cfg (flush cfg s) := by
  rw [flush_eq]
  have hi : Inner s := by
    by_cases hip : s.inPaste = true
    · exact Or.inr ⟨hip, g.pasteClean hip⟩
    · exact Or.inl ⟨by simpa using hip, noPSInner_of_noPS (good_noPS h g)⟩
  obtain ⟨h1, h2⟩ := proc_lossless h true _ hi
  refine ⟨h1, ⟨h2, ?_⟩⟩
  rcases proc_post cfg true s with hq | ⟨hq, _⟩
  · exact Or.inl hq
  · cases hq

theorem feedNormal_lossless {cfg : Cfg} (h : WF cfg) (d : Text) (s : St) (g : Good cfg s) :
    recon cfg (feedNormal cfg d s).1 ++ (feedNormal cfg d s).2 = recon cfg s ++ d ∧
    Good cfg (feedNormal cfg d s).1 := by
  induction d generalizing s with
  | nil => simp [feedNormal, g]
  | cons c cs ih =>
    rw [feedNormal]
    by_cases hip : s.inPaste = true
    · simp [hip, g]
    · have hip' : s.inPaste = false := by simpa using hip
      simp only [hip', Bool.false_eq_true, if_false]
      obtain ⟨h1, h2⟩ := sendChar_lossless h s c g hip'
      obtain ⟨h3, h4⟩ := ih _ h2
      refine ⟨?_, h4⟩
      rw [h3, h1]; simp

theorem feed_lossless' {cfg : Cfg} (h : WF cfg) (s : St) (d : Text) (g : Good cfg s) :
    recon cfg (feed cfg s d) = recon cfg s ++ d ∧ Good cfg (feed cfg s d) := by
  induction s, d using feed_induct cfg with
  | pasteOpen s d hp hf =>
    rw [feed_pasteOpen cfg s d hp hf]
    constructor
    · simp [recon, pending, hp]
    · exact ⟨g.pasteClean, g.pend⟩
  | pasteEnd s d j hp hf ih =>
    rw [feed_pasteEnd cfg s d j hp hf]
    have hpre := g.pasteClean hp
    obtain ⟨h1, h2⟩ := ih ⟨fun hq => (by cases hq), Or.inl hpre⟩
    refine ⟨?_, h2⟩
    rw [h1]
    have hsplit := findSub_split hf
    simp only [recon, pending, hp, if_true, Bool.false_eq_true, if_false, hpre, List.flatMap_append,
      List.flatMap_cons, List.flatMap_nil, pressText, beq_self_eq_true, List.append_nil,
      List.append_assoc]
    congr 1
    congr 1
    rw [← List.append_assoc]; exact hsplit.symm
  | normalDone s d hp hr =>
    rw [feed_normalDone cfg s d hp hr]
    have := feedNormal_lossless h d s g
    rw [hr, List.append_nil] at this
    exact this
  | normalPaste s d hp hr _ _ ih =>
    rw [feed_normalPaste cfg s d hp hr]
    obtain ⟨h1, h2⟩ := feedNormal_lossless h d s g
    obtain ⟨h3, h4⟩ := ih h2
    exact ⟨h3.trans h1, h4⟩

end Ptk.C03
