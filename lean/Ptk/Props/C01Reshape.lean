/-
  C01 — `buffer.reshape_text` (Vi `gq`): `splitlines(True)` loses nothing, the three list slices
  partition the lines for ANY integer rows (negative rows wrap like Python slices), and only the
  addressed lines are rewritten.
-/
import Ptk.Props.C01Words
import Ptk.Model.C01Reshape
namespace Ptk.C01
open Ptk.Py

/-! ### `str.splitlines(True)` loses nothing -/

theorem splitKeep_flatten (br : Char → Bool) : ∀ (t acc : Text) (cr : Bool),
    (splitKeep br t acc cr).flatten = acc.reverse ++ t := by
  intro t
  induction t with
  | nil =>
    intro acc cr
    cases cr <;> simp only [splitKeep] <;> split <;> simp_all
  | cons c rest ih =>
    intro acc cr
    cases cr with
    | true =>
      simp only [splitKeep]
      split
      · rename_i hc; subst hc; simp [ih]
      · split
        · rename_i hc; subst hc; simp [ih]
        · split <;> simp [ih]
    | false =>
      simp only [splitKeep]
      split
      · rename_i hc; subst hc; simp [ih]
      · split <;> simp [ih]

/-- the lines of `text.splitlines(True)`, concatenated, are the text -/
theorem splitLinesKeep_flatten (br : Char → Bool) (t : Text) : (splitLinesKeep br t).flatten = t := by
  simp [splitLinesKeep, splitKeep_flatten]

example : splitLinesKeep (fun c => c == '\n' || c == '\r') "a\r\nb\rc\n".toList
    = ["a\r\n".toList, "b\r".toList, "c\n".toList] := by decide

/-! ### the three list slices of `reshape_text` partition the lines -/

theorem slice_partition {α} (ls : List α) (a e : Nat) (h : a ≤ e) :
    ls = ls.take a ++ (ls.take e).drop a ++ ls.drop e := by
  have h1 : ls.take e = (ls.take e).take a ++ (ls.take e).drop a := (List.take_append_drop a _).symm
  have h2 : (ls.take e).take a = ls.take a := by rw [List.take_take]; congr 1; omega
  rw [h2] at h1
  rw [← h1]; simp

/-- `reshape_text(buffer, from_row, to_row)` for any integer rows and any text width:
    when the addressed row range is empty nothing changes; otherwise only the addressed lines are
    rewritten (by some text `R`): every line before `from_row` and every line after `to_row` is
    untouched, and the cursor ends directly behind the rewritten lines -/
theorem reshape_frame (br sp isp : Char → Bool) (dw : Nat) (b : Buf) (fromRow toRow : Int) (tw : Nat) :
    let lines := splitLinesKeep br b.text
    let a := normIdx lines.length fromRow
    let e := normIdx lines.length (toRow + 1)
    (e ≤ a → reshapeText br sp isp dw b fromRow toRow tw = b) ∧
    (a < e → ∃ R : Text,
        b.text = (lines.take a).flatten ++ ((lines.take e).drop a).flatten ++ (lines.drop e).flatten ∧
        (reshapeText br sp isp dw b fromRow toRow tw).text
          = (lines.take a).flatten ++ R ++ (lines.drop e).flatten ∧
        (reshapeText br sp isp dw b fromRow toRow tw).cur = ((lines.take a).flatten ++ R).length) := by
  intro lines a e
  have hto : slice lines (some fromRow) (some (toRow + 1)) = (lines.take e).drop a := rfl
  have hbefore : sliceTo lines fromRow = lines.take a := by
    simp [sliceTo, slice, a]
  have hafter : sliceFrom lines (toRow + 1) = lines.drop e := by
    simp [sliceFrom, slice, e]
  constructor
  · intro hle
    have : (lines.take e).drop a = [] := by
      apply List.drop_eq_nil_of_le; simp; omega
    unfold reshapeText
    simp only []
    rw [hto, this]
  · intro hlt
    have hpart := slice_partition lines a e (by omega)
    have htext : b.text = (lines.take a).flatten ++ ((lines.take e).drop a).flatten ++ (lines.drop e).flatten := by
      have := splitLinesKeep_flatten br b.text
      conv => lhs; rw [← this]
      show lines.flatten = _
      conv => lhs; rw [hpart]
      simp
    unfold reshapeText
    simp only []
    rw [hto, hbefore, hafter]
    cases hm : (lines.take e).drop a with
    | nil =>
      have : ((lines.take e).drop a).length = 0 := by rw [hm]; rfl
      have hle : e ≤ lines.length := by
        simp only [e, normIdx]; split <;> omega
      simp at this; omega
    | cons first restl =>
      simp only []
      refine ⟨(reshapePieces sp isp dw tw first (first :: restl)).flatten, ?_, ?_, ?_⟩
      · rw [← hm]; exact htext
      · have hc : (((lines.take a ++ reshapePieces sp isp dw tw first (first :: restl)).flatten.length : Nat) : Int)
            ≤ ((lines.take a ++ reshapePieces sp isp dw tw first (first :: restl) ++ lines.drop e).flatten.length : Int) := by
          simp; omega
        simp only [setDoc, hc, if_true]
        simp
      · have hc : (((lines.take a ++ reshapePieces sp isp dw tw first (first :: restl)).flatten.length : Nat) : Int)
            ≤ ((lines.take a ++ reshapePieces sp isp dw tw first (first :: restl) ++ lines.drop e).flatten.length : Int) := by
          simp; omega
        simp only [setDoc, hc, if_true]
        simp only [Int.toNat_natCast, List.flatten_append, List.length_append]

theorem reshapeText_inv (br sp isp : Char → Bool) (dw : Nat) (b : Buf) (h : Inv b) (x y : Int) (tw : Nat) :
    Inv (reshapeText br sp isp dw b x y tw) := by
  have := reshape_frame br sp isp dw b x y tw
  simp only [] at this
  obtain ⟨h1, h2⟩ := this
  by_cases hc : normIdx (splitLinesKeep br b.text).length (y + 1) ≤ normIdx (splitLinesKeep br b.text).length x
  · rw [h1 hc]; exact h
  · obtain ⟨R, _, ht, hcur⟩ := h2 (by omega)
    unfold Inv; rw [ht, hcur]; simp

example : reshapeText (fun c => c == '\n') (fun c => c == ' ' || c == '\n') (fun c => c == ' ' || c == '\n') 80
    { text := "x\n  aa bb cc\ny\n".toList, cur := 0 } 1 1 7
    = { text := "x\n  aa bb\n  cc\ny\n".toList, cur := 15 } := by decide

end Ptk.C01
