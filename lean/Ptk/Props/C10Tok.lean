/-
  C10 part 4a — the tokenised output stream: control tokens do not leak across complete
  pieces, control-free text contains none, hence the control tokens of a stream assembled from
  control-free content pieces and complete generated pieces are exactly those of the generated
  pieces.
-/
import Ptk.Props.C10
import Ptk.Model.C10Tok
namespace Ptk.C10
open Ptk.Py

/-- Prop form of `complete` -/
def Complete (t : CText) : Prop := (tkRun tk0 t).st = .ground

instance (t : CText) : Decidable (Complete t) := by unfold Complete; infer_instance

theorem complete_iff (t : CText) : complete t = true ↔ Complete t := by
  simp [complete, Complete]

/-! ### the completed-token list only grows at the front -/

theorem groundStep_out (out o : List CText) (c : CP) :
    groundStep (out ++ o) c = ⟨(groundStep out c).st, (groundStep out c).cur, (groundStep out c).out ++ o⟩ := by
  unfold groundStep
  split
  · rfl
  · split
    · rfl
    · split <;> rfl

theorem tkStep_out (st : TS) (cur : CText) (out o : List CText) (c : CP) :
    tkStep ⟨st, cur, out ++ o⟩ c =
      ⟨(tkStep ⟨st, cur, out⟩ c).st, (tkStep ⟨st, cur, out⟩ c).cur, (tkStep ⟨st, cur, out⟩ c).out ++ o⟩ := by
  cases st <;> simp only [tkStep, finishTok]
  · exact groundStep_out out o c
  · split
    · rfl
    · split
      · rfl
      · split <;> rfl
  · split <;> rfl
  · split
    · rfl
    · split
      · rfl
      · split
        · rfl
        · exact groundStep_out (cur.reverse :: out) o c
  · split
    · rfl
    · split
      · rfl
      · exact groundStep_out (cur.reverse :: out) o c
  · split
    · rfl
    · split <;> rfl
  · split
    · rfl
    · split
      · rfl
      · split <;> rfl

theorem tkRun_out (t : CText) (st : TS) (cur : CText) (out o : List CText) :
    tkRun ⟨st, cur, out ++ o⟩ t =
      ⟨(tkRun ⟨st, cur, out⟩ t).st, (tkRun ⟨st, cur, out⟩ t).cur, (tkRun ⟨st, cur, out⟩ t).out ++ o⟩ := by
  induction t generalizing st cur out with
  | nil => rfl
  | cons c cs ih =>
    simp only [tkRun, List.foldl_cons] at *
    rw [tkStep_out]
    exact ih _ _ _

theorem tkRun_append (k : TK) (a b : CText) : tkRun k (a ++ b) = tkRun (tkRun k a) b := by
  simp [tkRun, List.foldl_append]

/-! ### in the ground state no token is in progress -/

def GroundNil (k : TK) : Prop := k.st = .ground → k.cur = []

theorem groundStep_groundNil (out : List CText) (c : CP) : GroundNil (groundStep out c) := by
  unfold groundStep GroundNil
  split
  · intro h; cases h
  · split
    · intro h; cases h
    · split <;> intro _ <;> rfl

theorem tkStep_groundNil (k : TK) (c : CP) : GroundNil (tkStep k c) := by
  obtain ⟨st, cur, out⟩ := k
  cases st <;> simp only [tkStep]
  · exact groundStep_groundNil _ _
  all_goals (repeat' split) <;> first | exact groundStep_groundNil _ _ | (intro h; first | rfl | cases h)

theorem tkRun_groundNil (t : CText) (k : TK) (hk : GroundNil k) : GroundNil (tkRun k t) := by
  induction t generalizing k with
  | nil => exact hk
  | cons c cs ih =>
    simp only [tkRun, List.foldl_cons]
    exact ih _ (tkStep_groundNil k c)

theorem tk0_groundNil : GroundNil tk0 := fun _ => rfl

/-! ### composition -/

theorem run_of_complete {a : CText} (ha : Complete a) :
    tkRun tk0 a = ⟨.ground, [], (tkRun tk0 a).out⟩ := by
  have hn := tkRun_groundNil a tk0 tk0_groundNil ha
  unfold Complete at ha
  generalize tkRun tk0 a = k at *
  obtain ⟨st, cur, out⟩ := k
  simp at ha hn
  simp [ha, hn]

theorem ctrlTokens_of_complete {a : CText} (ha : Complete a) : ctrlTokens a = (tkRun tk0 a).out.reverse := by
  unfold ctrlTokens
  simp only
  unfold Complete at ha
  simp [ha]

/-- **Control tokens do not leak across a completed piece**: whatever follows a complete piece
    is tokenised on its own. -/
theorem ctrlTokens_append_complete {a : CText} (b : CText) (ha : Complete a) :
    ctrlTokens (a ++ b) = ctrlTokens a ++ ctrlTokens b := by
  rw [ctrlTokens_of_complete ha]
  unfold ctrlTokens
  simp only
  rw [tkRun_append, run_of_complete ha]
  have h := tkRun_out b .ground [] [] (tkRun tk0 a).out
  simp only [List.nil_append] at h
  rw [h]
  simp only
  have e0 : (⟨.ground, [], []⟩ : TK) = tk0 := rfl
  rw [e0]
  split
  · simp
  · simp [finishTok]

theorem complete_append {a b : CText} (ha : Complete a) (hb : Complete b) : Complete (a ++ b) := by
  unfold Complete
  rw [tkRun_append, run_of_complete ha]
  have h := tkRun_out b .ground [] [] (tkRun tk0 a).out
  simp only [List.nil_append] at h
  rw [h]
  exact hb

theorem groundStep_clean (out : List CText) {c : CP} (hc : isControl c = false) :
    groundStep out c = ⟨.ground, [], out⟩ := by
  unfold groundStep
  have h1 : c ≠ ESC := by intro h; subst h; exact absurd hc (by decide)
  have h2 : c ≠ CSI8 := by intro h; subst h; exact absurd hc (by decide)
  simp [h1, h2, hc]

theorem tkRun_clean {t : CText} (h : Clean t) (out : List CText) :
    tkRun ⟨.ground, [], out⟩ t = ⟨.ground, [], out⟩ := by
  induction t with
  | nil => rfl
  | cons c cs ih =>
    have hc := h c (by simp)
    simp only [tkRun, List.foldl_cons, tkStep, groundStep_clean out hc] at *
    exact ih (fun x hx => h x (by simp [hx]))

/-- control-free text contains no control token and leaves the tokenizer in the ground state -/
theorem ctrlTokens_clean {t : CText} (h : Clean t) : ctrlTokens t = [] ∧ Complete t := by
  have := tkRun_clean h []
  constructor
  · unfold ctrlTokens; simp only [tk0, this]; rfl
  · unfold Complete; simp only [tk0, this]

/-- **Stream theorem.** If every content piece of a stream is control-free and every other
    piece (emitter output, explicitly marked zero-width escape) is complete, then the control
    tokens of the whole stream are exactly the control tokens of the non-content pieces, in
    order: no control sequence in the output stream originates from, or is completed or
    altered by, content. -/
theorem stream_tokens (segs : List Seg)
    (hc : ∀ sg ∈ segs, sg.1 = .content → Clean sg.2)
    (hg : ∀ sg ∈ segs, sg.1 ≠ .content → Complete sg.2) :
    ctrlTokens (segsText segs) =
      (segs.filter (fun sg => sg.1 ≠ .content)).flatMap (fun sg => ctrlTokens sg.2) := by
  induction segs with
  | nil => simp [segsText]; rfl
  | cons sg rest ih =>
    have ih' := ih (fun s hs => hc s (by simp [hs])) (fun s hs => hg s (by simp [hs]))
    have hst : segsText (sg :: rest) = sg.2 ++ segsText rest := by simp [segsText]
    rw [hst]
    by_cases hk : sg.1 = .content
    · have hcl := ctrlTokens_clean (hc sg (by simp) hk)
      rw [ctrlTokens_append_complete _ hcl.2, hcl.1, ih']
      simp [hk]
    · rw [ctrlTokens_append_complete _ (hg sg (by simp) hk), ih']
      simp [hk]

end Ptk.C10
