/-
  C02 — audited module: declarative specification of the word / WORD motions and the refinement
  theorems  model = specification  (all texts, cursors, counts).
-/
import Ptk.Props.C02Runs
namespace Ptk.C02
open Ptk.Py
/-! ## 18. word / WORD motions: declarative specification and refinement

  For a class function `cl` (`cls sp WORD`), `isStartB cl T p` says that index `p` starts a maximal
  run of one non-blank class (a word, or a run of punctuation; with WORD a run of non-blanks) and
  `isEndB cl T p` that `p` is the exclusive end of such a run (`isStartB_iff`, `isEndB_iff`).
  Each motion is specified as "the `count`-th offset, counted away from the cursor, whose target
  starts / ends a run" — a filter over the range of possible offsets — and the model (the regex
  scan over the (reversed) text with its `count += 1` adjustment) is proved equal to it for every
  text, cursor and count. -/

-- (the specifications `specNextWordBeginning`, `specNextWordEnding`, `specPrevWordBeginning`,
-- `specPrevWordEnding` are defined in `Ptk.Model.C02Spec`, so that the driver can print them)

/-! ### transfer of the predicates to the scanned strings -/

theorem isStartB_drop (cl : Char → Nat) (T : Text) (c q : Nat) (hq : 1 ≤ q) :
    isStartB cl (T.drop c) q = isStartB cl T (c + q) := by
  have e1 : c + q - 1 = c + (q - 1) := by omega
  have h0 : (q == 0) = false := by simp; omega
  have h1 : (c + q == 0) = false := by simp; omega
  simp only [isStartB, clsAt_drop, e1, h0, h1]

theorem isEndB_drop (cl : Char → Nat) (T : Text) (c q : Nat) :
    isEndB cl (T.drop c) q = (decide (1 ≤ q) && isEndB cl T (c + q)) := by
  by_cases hq : 1 ≤ q
  · have e1 : c + q - 1 = c + (q - 1) := by omega
    have h1 : 1 ≤ c + q := by omega
    simp only [isEndB, clsAt_drop, e1, hq, h1, decide_true, Bool.true_and]
  · have : q = 0 := by omega
    subst this
    simp [isEndB]

/-- in the reversed text before the cursor, run ends are the word starts of the text -/
theorem isEndB_rev_take (cl : Char → Nat) (T : Text) (c : Nat) (hc : c ≤ T.length) (q : Nat) (hq : q ≤ c) :
    isEndB cl (T.take c).reverse q = (decide (1 ≤ q) && isStartB cl T (c - q)) := by
  by_cases hq1 : 1 ≤ q
  · have hlt : q - 1 < c := by omega
    have e1 : c - 1 - (q - 1) = c - q := by omega
    simp only [isEndB, isStartB, clsAt_rev_take cl T c hc, hlt, if_true, e1, hq1, decide_true, Bool.true_and]
    cases h : clsAt cl T (c - q) with
    | none => rfl
    | some k =>
      simp only
      rcases Nat.lt_or_ge q c with h2 | h2
      · have e2 : c - 1 - q = c - q - 1 := by omega
        have h0 : (c - q == 0) = false := by simp; omega
        simp only [h2, if_true, e2, h0, Bool.false_or]
      · have h0 : (c - q == 0) = true := by simp; omega
        have h3 : ¬ q < c := by omega
        simp [h3, h0]
  · have : q = 0 := by omega
    subst this
    simp [isEndB]

/-- the string scanned by `find_previous_word_ending` when there is a character under the cursor -/
theorem prevEnding_string (T : Text) (c : Nat) (hc : c < T.length) :
    (T.drop c).take 1 ++ (T.take c).reverse = (T.take (c + 1)).reverse := by
  have h1 : (T.drop c).take 1 = [T[c]] := by
    rw [List.drop_eq_getElem_cons hc]; rfl
  rw [h1, List.take_succ_eq_append_getElem hc, List.reverse_append]
  rfl

/-- in the reversed text up to and including the cursor, run starts at `q ≥ 1` are the word ends of the text -/
theorem isStartB_rev_take (cl : Char → Nat) (T : Text) (c : Nat) (hc : c < T.length) (q : Nat) (hq1 : 1 ≤ q)
    (hq : q ≤ c) : isStartB cl (T.take (c + 1)).reverse q = isEndB cl T (c + 1 - q) := by
  have hlt : q < c + 1 := by omega
  have hlt' : q - 1 < c + 1 := by omega
  have e1 : c + 1 - 1 - q = c - q := by omega
  have e2 : c + 1 - 1 - (q - 1) = c + 1 - q := by omega
  have e3 : c + 1 - q - 1 = c - q := by omega
  have h0 : (q == 0) = false := by simp; omega
  have h1 : 1 ≤ c + 1 - q := by omega
  simp only [isEndB, isStartB, clsAt_rev_take cl T (c + 1) (by omega), hlt, hlt', if_true, e1, e2, e3, h0,
    Bool.false_or, h1, decide_true, Bool.true_and]


/-! ### refinement: model = specification -/

theorem after_length (d : Doc) : d.after.length = d.text.length - d.cur := by simp [Doc.after]
theorem before_rev_length (d : Doc) (hc : d.cur ≤ d.text.length) : d.before.reverse.length = d.cur := by
  simp [Doc.before]; omega

/-- **`find_next_word_beginning` = its specification** (every text, cursor, count ≥ 1, word and WORD):
    the regex scan over the text after the cursor, with the "skip the word we are on" adjustment,
    returns exactly the `count`-th offset `q ≥ 1` such that `cursor + q` starts a run of word
    characters / of punctuation (WORD: of non-blanks), and `None` iff there are fewer. -/
theorem nextWordBeginning_refines (sp : Char → Bool) (d : Doc) (count : Int) (hcount : 1 ≤ count)
    (WORD : Bool) :
    nextWordBeginningPos sp d count WORD = specNextWordBeginning (cls sp WORD) d.text d.cur count := by
  simp only [nextWordBeginningPos, specNextWordBeginning]
  rw [nth_adjust_eq _ _ _ hcount]
  have e : ∀ o : Option (Nat × Nat), o.map (fun (r : Nat × Nat) => (r.1 : Int)) =
      (o.map (·.1)).map (fun (q : Nat) => (q : Int)) := by intro o; cases o <;> rfl
  rw [e, ← nth_map, filter_map_fst (runs (cls sp WORD) d.after) (fun s => decide (1 ≤ s)), runs_starts]
  simp only [wordStarts, List.filter_filter, after_length]
  congr 2
  apply List.filter_congr
  intro q _
  by_cases hq : 1 ≤ q
  · simp only [hq, decide_true, Bool.true_and, Doc.after, isStartB_drop _ _ _ _ hq]
  · simp [hq]
example : nextWordBeginningPos (· == ' ') ⟨['a', 'b', ' ', 'c', '.', ' ', 'd'], 1⟩ 2 false = some 3 ∧
    specNextWordBeginning (cls (· == ' ') false) ['a', 'b', ' ', 'c', '.', ' ', 'd'] 1 2 = some 3 := by decide

/-- **`find_next_word_ending` = its specification** (every text, cursor, count, flag) -/
theorem nextWordEnding_refines (sp : Char → Bool) (d : Doc) (incl : Bool) (count : Int) (WORD : Bool) :
    nextWordEndingPos sp d incl count WORD = specNextWordEnding (cls sp WORD) d.text d.cur incl count := by
  simp only [nextWordEndingPos, specNextWordEnding]
  cases incl with
  | true =>
    simp only [if_true]
    have e : ∀ o : Option (Nat × Nat), o.map (fun (r : Nat × Nat) => (r.2 : Int)) =
        (o.map (·.2)).map (fun (q : Nat) => (q : Int)) := by intro o; cases o <;> rfl
    rw [e, ← nth_map, runs_ends]
    simp only [wordEnds, after_length]
    congr 2
    apply List.filter_congr
    intro q _
    simp only [Doc.after, isEndB_drop]
  | false =>
    simp only [Bool.false_eq_true, if_false]
    have e : ∀ o : Option (Nat × Nat), o.map (fun (r : Nat × Nat) => (r.2 : Int) + 1) =
        ((o.map (·.2)).map (· + 1)).map (fun (q : Nat) => (q : Int)) := by
      intro o; cases o <;> simp
    rw [e, ← nth_map, ← nth_map, runs_ends]
    congr 2
    -- both lists are strictly increasing and have the same members
    apply sorted_ext
    · exact List.Pairwise.map _ (fun a b h => by omega) (range_filter_sorted _ _)
    · exact range_filter_sorted _ _
    · intro x
      simp only [wordEnds, Doc.after, List.drop_drop, List.mem_map, List.mem_filter, List.mem_range,
        isEndB_drop, Bool.and_eq_true, decide_eq_true_eq, List.length_drop]
      constructor
      · rintro ⟨q, ⟨hq, hq1, hend⟩, rfl⟩
        have hle := ((isEndB_iff _ _ _).mp hend).le
        have e1 : d.cur + (q + 1) = d.cur + 1 + q := by omega
        refine ⟨by omega, by omega, ?_⟩
        rw [e1]; exact hend
      · rintro ⟨hx, hx2, hend⟩
        have hle := ((isEndB_iff _ _ _).mp hend).le
        have e1 : d.cur + 1 + (x - 1) = d.cur + x := by omega
        refine ⟨x - 1, ⟨by omega, by omega, ?_⟩, by omega⟩
        rw [e1]; exact hend
example : nextWordEndingPos (· == ' ') ⟨['a', 'b', ' ', 'c', '.', ' ', 'd'], 1⟩ false 2 false = some 4 ∧
    specNextWordEnding (cls (· == ' ') false) ['a', 'b', ' ', 'c', '.', ' ', 'd'] 1 false 2 = some 4 ∧
    nextWordEndingPos (· == ' ') ⟨['a', 'b', ' ', 'c', '.', ' ', 'd'], 1⟩ true 1 false = some 1 := by decide

/-- **`find_previous_word_beginning` and `find_start_of_previous_word` = their specification** -/
theorem prevWordBeginning_refines (sp : Char → Bool) (d : Doc) (hc : d.cur ≤ d.text.length) (count : Int)
    (WORD : Bool) :
    prevWordBeginningPos sp d count WORD = specPrevWordBeginning (cls sp WORD) d.text d.cur count ∧
    findStartOfPreviousWord sp d count WORD = specPrevWordBeginning (cls sp WORD) d.text d.cur count := by
  have key : (nth (runs (cls sp WORD) d.before.reverse) count).map (fun (r : Nat × Nat) => -(r.2 : Int)) =
      specPrevWordBeginning (cls sp WORD) d.text d.cur count := by
    simp only [specPrevWordBeginning]
    have e : ∀ o : Option (Nat × Nat), o.map (fun (r : Nat × Nat) => -(r.2 : Int)) =
        (o.map (·.2)).map (fun (q : Nat) => -(q : Int)) := by intro o; cases o <;> rfl
    rw [e, ← nth_map, runs_ends]
    simp only [wordEnds, before_rev_length d hc]
    congr 2
    apply List.filter_congr
    intro q hq
    simp only [List.mem_range] at hq
    simp only [Doc.before]
    exact isEndB_rev_take _ _ _ hc q (by omega)
  exact ⟨key, key⟩
example : prevWordBeginningPos (· == ' ') ⟨['a', 'b', ' ', 'c', '.', ' ', 'd'], 6⟩ 2 false = some (-3) ∧
    specPrevWordBeginning (cls (· == ' ') false) ['a', 'b', ' ', 'c', '.', ' ', 'd'] 6 2 = some (-3) := by decide

/-- **`find_previous_word_ending` = its specification** for count ≥ 1 and a character under the
    cursor.  *Partial*: at `cursor == len(text)` the code is off by one (`prevWordEnding_defect`,
    known finding) and the equation is false there (`prevWordEnding_refines_fails_at_end`). -/
theorem prevWordEnding_refines_partial (sp : Char → Bool) (d : Doc) (hc : d.cur < d.text.length)
    (count : Int) (hcount : 1 ≤ count) (WORD : Bool) :
    prevWordEndingPos sp d count WORD = specPrevWordEnding (cls sp WORD) d.text d.cur count := by
  simp only [prevWordEndingPos, specPrevWordEnding, Doc.after, Doc.before, prevEnding_string _ _ hc]
  rw [nth_adjust_eq _ _ _ hcount]
  have e : ∀ o : Option (Nat × Nat), o.map (fun (r : Nat × Nat) => -(r.1 : Int) + 1) =
      (o.map (·.1)).map (fun (q : Nat) => -(q : Int) + 1) := by intro o; cases o <;> rfl
  rw [e, ← nth_map, filter_map_fst (runs (cls sp WORD) (d.text.take (d.cur + 1)).reverse) (fun s => decide (1 ≤ s)),
    runs_starts]
  -- the candidate list is the specification's list shifted by one
  have hL : (wordStarts (cls sp WORD) (d.text.take (d.cur + 1)).reverse).filter (fun s => decide (1 ≤ s)) =
      ((List.range d.cur).filter (fun q => isEndB (cls sp WORD) d.text (d.cur - q))).map (· + 1) := by
    apply sorted_ext
    · exact List.Pairwise.sublist List.filter_sublist (range_filter_sorted _ _)
    · exact List.Pairwise.map _ (fun a b h => by omega) (range_filter_sorted _ _)
    · intro x
      have hlen : (d.text.take (d.cur + 1)).reverse.length = d.cur + 1 := by simp; omega
      simp only [wordStarts, hlen, List.mem_filter, List.mem_range, decide_eq_true_eq, List.mem_map]
      constructor
      · rintro ⟨⟨hx, hst⟩, hx1⟩
        rw [isStartB_rev_take _ _ _ hc x hx1 (by omega)] at hst
        refine ⟨x - 1, ⟨by omega, ?_⟩, by omega⟩
        have : d.cur - (x - 1) = d.cur + 1 - x := by omega
        rw [this]; exact hst
      · rintro ⟨q, ⟨hq, hend⟩, rfl⟩
        refine ⟨⟨by omega, ?_⟩, by omega⟩
        rw [isStartB_rev_take _ _ _ hc (q + 1) (by omega) (by omega)]
        have : d.cur + 1 - (q + 1) = d.cur - q := by omega
        rw [this]; exact hend
  rw [hL, nth_map, Option.map_map]
  congr 1
  funext q
  simp only [Function.comp]
  omega
example : prevWordEndingPos (· == ' ') ⟨['a', 'b', ' ', 'c', '.', ' ', 'd'], 6⟩ 2 false = some (-2) ∧
    specPrevWordEnding (cls (· == ' ') false) ['a', 'b', ' ', 'c', '.', ' ', 'd'] 6 2 = some (-2) := by decide

/-- the excluded cursor position is exactly where the equation fails: with the cursor at the end
    of `"ab cd"` the specification says `0` (the cursor is itself at the end of `cd`; for count 2:
    `-3`, the end of `ab`), the code says `-2` (index 3, the *start* of `cd`) -/
theorem prevWordEnding_refines_fails_at_end :
    ∃ d : Doc, d.cur = d.text.length ∧
      prevWordEndingPos (· == ' ') d 1 false = some (-2) ∧
      specPrevWordEnding (cls (· == ' ') false) d.text d.cur 1 = some 0 ∧
      specPrevWordEnding (cls (· == ' ') false) d.text d.cur 2 = some (-3) :=
  ⟨⟨['a', 'b', ' ', 'c', 'd'], 5⟩, rfl, by decide, by decide, by decide⟩


/-- **all four word motions with any non-zero count** (negative counts delegate to the opposite
    direction) equal their specifications; `find_previous_word_ending` (also reached through
    `find_next_word_ending` with a negative count) needs a character under the cursor — the known
    finding D1 stays excluded exactly. -/
theorem word_motions_refine (sp : Char → Bool) (d : Doc) (hc : d.cur ≤ d.text.length) (count : Int)
    (hne : count ≠ 0) (WORD incl : Bool) :
    let cl := cls sp WORD
    findNextWordBeginning sp d count WORD =
      (if count < 0 then specPrevWordBeginning cl d.text d.cur (-count)
       else specNextWordBeginning cl d.text d.cur count) ∧
    findPreviousWordBeginning sp d count WORD =
      (if count < 0 then specNextWordBeginning cl d.text d.cur (-count)
       else specPrevWordBeginning cl d.text d.cur count) ∧
    ((0 < count ∨ d.cur < d.text.length) →
      findNextWordEnding sp d incl count WORD =
        (if count < 0 then specPrevWordEnding cl d.text d.cur (-count)
         else specNextWordEnding cl d.text d.cur incl count)) ∧
    ((count < 0 ∨ d.cur < d.text.length) →
      findPreviousWordEnding sp d count WORD =
        (if count < 0 then specNextWordEnding cl d.text d.cur false (-count)
         else specPrevWordEnding cl d.text d.cur count)) := by
  intro cl
  refine ⟨?_, ?_, ?_, ?_⟩
  · simp only [findNextWordBeginning]
    split
    · exact (prevWordBeginning_refines sp d hc _ WORD).1
    · exact nextWordBeginning_refines sp d count (by omega) WORD
  · simp only [findPreviousWordBeginning]
    split
    · exact nextWordBeginning_refines sp d _ (by omega) WORD
    · exact (prevWordBeginning_refines sp d hc _ WORD).1
  · intro h
    simp only [findNextWordEnding]
    split
    · exact prevWordEnding_refines_partial sp d (by omega) _ (by omega) WORD
    · exact nextWordEnding_refines sp d incl count WORD
  · intro h
    simp only [findPreviousWordEnding]
    split
    · exact nextWordEnding_refines sp d false _ WORD
    · exact prevWordEnding_refines_partial sp d (by omega) _ (by omega) WORD
example : findNextWordBeginning (· == ' ') ⟨['a', 'b', ' ', 'c', '.', ' ', 'd'], 6⟩ (-2) false = some (-3) := by decide

/-- **"the n-th position such that …"**: the specification lists read as counting statements.
    E.g. `find_next_word_beginning(count)` returns `q` iff `cursor + q` is a word start, `q ≥ 1`, and
    exactly `count - 1` offsets in `1 .. q-1` lead to a word start; it returns `None` iff fewer than
    `count` offsets do.  (Instances of `nth_filter_range` for the four specifications.) -/
theorem word_motions_nth (cl : Char → Nat) (T : Text) (c : Nat) (count : Int) (hcount : 1 ≤ count) (incl : Bool) :
    (∀ q : Nat, specNextWordBeginning cl T c count = some (q : Int) ↔
        (q < T.length - c ∧ 1 ≤ q ∧ IsWordStart cl T (c + q) ∧
          (((List.range q).filter (fun q' => decide (1 ≤ q') && isStartB cl T (c + q'))).length : Int) + 1 = count)) ∧
    (∀ q : Nat, specNextWordEnding cl T c incl count = some (q : Int) ↔
        (q < T.length - c + 1 ∧ (if incl = true then 1 else 2) ≤ q ∧ IsWordEnd cl T (c + q) ∧
          (((List.range q).filter (fun q' => decide ((if incl = true then 1 else 2) ≤ q') && isEndB cl T (c + q'))).length : Int) + 1 = count)) ∧
    (∀ q : Nat, specPrevWordBeginning cl T c count = some (-(q : Int)) ↔
        (q < c + 1 ∧ 1 ≤ q ∧ IsWordStart cl T (c - q) ∧
          (((List.range q).filter (fun q' => decide (1 ≤ q') && isStartB cl T (c - q'))).length : Int) + 1 = count)) ∧
    (∀ q : Nat, specPrevWordEnding cl T c count = some (-(q : Int)) ↔
        (q < c ∧ IsWordEnd cl T (c - q) ∧
          (((List.range q).filter (fun q' => isEndB cl T (c - q'))).length : Int) + 1 = count)) := by
  have cast : ∀ (o : Option Nat) (q : Nat), o.map (fun (x : Nat) => (x : Int)) = some (q : Int) ↔ o = some q := by
    intro o q; cases o <;> simp <;> omega
  have castn : ∀ (o : Option Nat) (q : Nat), o.map (fun (x : Nat) => -(x : Int)) = some (-(q : Int)) ↔ o = some q := by
    intro o q; cases o <;> simp <;> omega
  refine ⟨?_, ?_, ?_, ?_⟩
  · intro q
    simp only [specNextWordBeginning, cast, (nth_filter_range _ _ count hcount).1 q, Bool.and_eq_true,
      decide_eq_true_eq, isStartB_iff]
    constructor
    · rintro ⟨a, ⟨b, c'⟩, e⟩; exact ⟨a, b, c', e⟩
    · rintro ⟨a, b, c', e⟩; exact ⟨a, ⟨b, c'⟩, e⟩
  · intro q
    simp only [specNextWordEnding, cast, (nth_filter_range _ _ count hcount).1 q, Bool.and_eq_true,
      decide_eq_true_eq, isEndB_iff]
    constructor
    · rintro ⟨a, ⟨b, c'⟩, e⟩; exact ⟨a, b, c', e⟩
    · rintro ⟨a, b, c', e⟩; exact ⟨a, ⟨b, c'⟩, e⟩
  · intro q
    simp only [specPrevWordBeginning, castn, (nth_filter_range _ _ count hcount).1 q, Bool.and_eq_true,
      decide_eq_true_eq, isStartB_iff]
    constructor
    · rintro ⟨a, ⟨b, c'⟩, e⟩; exact ⟨a, b, c', e⟩
    · rintro ⟨a, b, c', e⟩; exact ⟨a, ⟨b, c'⟩, e⟩
  · intro q
    simp only [specPrevWordEnding, castn, (nth_filter_range _ _ count hcount).1 q, isEndB_iff]
example : specNextWordBeginning (cls (· == ' ') false) ['a', ' ', 'b', ' ', 'c'] 0 2 = some 4 ∧
    ((List.range 4).filter (fun q' => decide (1 ≤ q') && isStartB (cls (· == ' ') false) ['a', ' ', 'b', ' ', 'c'] (0 + q'))).length = 1 := by
  decide

end Ptk.C02
