/-
  C02 — audited module: find_boundaries_of_current_word with the whitespace flags, the word under the
  cursor and the word before the cursor.
-/
import Ptk.Props.C02Para
namespace Ptk.C02
open Ptk.Py

/-! ## 17. `find_boundaries_of_current_word` with the whitespace flags; the word under / before the cursor -/

/-- length of the run of `\s` characters of `t` that starts at index `e` -/
def wsRun (sp : Char → Bool) (t : Text) (e : Nat) : Nat := ((t.drop e).takeWhile sp).length

theorem currentWordEnd_pos (cl : Char → Nat) (t : Text) (e : Nat) (h : currentWordEnd cl t = some e) : 1 ≤ e := by
  cases t with
  | nil => simp [currentWordEnd] at h
  | cons c cs =>
    simp only [currentWordEnd] at h
    split at h
    · cases h
    · cases h; omega

/-- what `find_boundaries_of_current_word` does with its two regex matches -/
def wbCore (WORD : Bool) (i1 i2 : Option Char) (mb ma : Option Nat) : Int × Int :=
  let mb :=
    if !WORD && mb.isSome && ma.isSome then
      match i1, i2 with
      | some c1, some c2 => if isWordChar c1 != isWordChar c2 then none else mb
      | _, _ => mb
    else mb
  ((match mb with | some e => -(e : Int) | none => 0),
   (match ma with | some e => (e : Int) | none => 0))

theorem wordBoundaries_core (sp : Char → Bool) (d : Doc) (WORD lead trail : Bool) :
    wordBoundaries sp d WORD lead trail =
      wbCore WORD (index? d.text ((d.cur : Int) - 1)) (index? d.text (d.cur : Int))
        (if lead then currentWordEndWs (cls sp WORD) sp (lineBefore d).reverse
         else currentWordEnd (cls sp WORD) (lineBefore d).reverse)
        (if trail then currentWordEndWs (cls sp WORD) sp (lineAfter d)
         else currentWordEnd (cls sp WORD) (lineAfter d)) := rfl

theorem wbCore_map (WORD : Bool) (i1 i2 : Option Char) (mb ma : Option Nat) (f g : Nat → Nat)
    (hb : ∀ e, mb = some e → 1 ≤ e) (ha : ∀ e, ma = some e → 1 ≤ e) :
    wbCore WORD i1 i2 (mb.map f) (ma.map g) =
      (if (wbCore WORD i1 i2 mb ma).1 ≠ 0 then -(f (-(wbCore WORD i1 i2 mb ma).1).toNat : Int) else 0,
       if (wbCore WORD i1 i2 mb ma).2 ≠ 0 then (g (wbCore WORD i1 i2 mb ma).2.toNat : Int) else 0) := by
  cases mb with
  | none =>
    cases ma with
    | none => simp [wbCore]
    | some ea =>
      have := ha ea rfl
      have h0 : ea ≠ 0 := by omega
      simp [wbCore, h0]
  | some eb =>
    have h1 := hb eb rfl
    have hb0 : eb ≠ 0 := by omega
    cases ma with
    | none => simp [wbCore, hb0]
    | some ea =>
      have h2 := ha ea rfl
      have ha0 : ea ≠ 0 := by omega
      cases WORD
      · cases i1 with
        | none => simp [wbCore, hb0, ha0]
        | some c1 =>
          cases i2 with
          | none => simp [wbCore, hb0, ha0]
          | some c2 =>
            by_cases hw : isWordChar c1 = isWordChar c2
            · simp [wbCore, hb0, ha0, hw]
            · simp [wbCore, ha0, hw]
      · simp [wbCore, hb0, ha0]

theorem wbCore_sign (WORD : Bool) (i1 i2 : Option Char) (mb ma : Option Nat) :
    (wbCore WORD i1 i2 mb ma).1 ≤ 0 ∧ 0 ≤ (wbCore WORD i1 i2 mb ma).2 := by
  simp only [wbCore]
  constructor
  · split <;> omega
  · split <;> omega

/-- the flags only extend the no-flag boundaries by the adjacent run of `\s` characters of the line
    (and only on a side where there is a word part at all) -/
theorem wordBoundaries_flags_eq (sp : Char → Bool) (d : Doc) (WORD lead trail : Bool) :
    wordBoundaries sp d WORD lead trail =
      (let s0 := (wordBoundaries sp d WORD false false).1
       let e0 := (wordBoundaries sp d WORD false false).2
       (if s0 ≠ 0 then s0 - (if lead = true then wsRun sp (lineBefore d).reverse (-s0).toNat else 0) else 0,
        if e0 ≠ 0 then e0 + (if trail = true then wsRun sp (lineAfter d) e0.toNat else 0) else 0)) := by
  have hrx : ∀ (ws : Bool) (t : Text),
      (if ws = true then currentWordEndWs (cls sp WORD) sp t else currentWordEnd (cls sp WORD) t) =
        (currentWordEnd (cls sp WORD) t).map (fun e => e + (if ws = true then wsRun sp t e else 0)) := by
    intro ws t
    cases ws
    · simp
    · simp [currentWordEndWs, wsRun]
  rw [wordBoundaries_core, wordBoundaries_core, hrx, hrx]
  simp only [Bool.false_eq_true, if_false]
  rw [wbCore_map _ _ _ _ _ _ _ (currentWordEnd_pos _ _) (currentWordEnd_pos _ _)]
  obtain ⟨hs, he⟩ := wbCore_sign WORD (index? d.text ((d.cur : Int) - 1)) (index? d.text (d.cur : Int))
    (currentWordEnd (cls sp WORD) (lineBefore d).reverse) (currentWordEnd (cls sp WORD) (lineAfter d))
  generalize wbCore WORD _ _ _ _ = r at hs he ⊢
  obtain ⟨s0, e0⟩ := r
  simp only at hs he ⊢
  congr 1
  · split
    · simp only [Int.natCast_add]; omega
    · rfl
  · split
    · simp only [Int.natCast_add]; omega
    · rfl


theorem wsRun_spec (sp : Char → Bool) (t : Text) (e : Nat) :
    (∀ j, e ≤ j → j < e + wsRun sp t e → ∃ c, t[j]? = some c ∧ sp c = true) ∧
    (∀ c, t[e + wsRun sp t e]? = some c → sp c = false) := by
  obtain ⟨h1, h2, h3⟩ := takeWhile_spec' sp (t.drop e)
  unfold wsRun
  constructor
  · intro j hj1 hj2
    have hlt : j - e < (t.drop e).length := by omega
    refine ⟨(t.drop e)[j - e], ?_, h1 (j - e) _ (by omega) (List.getElem?_eq_getElem hlt)⟩
    rw [← List.getElem?_eq_getElem hlt, List.getElem?_drop]
    congr 1; omega
  · intro c hc
    apply h2 c
    rw [List.getElem?_drop]; exact hc

/-- **`find_boundaries_of_current_word` with `include_leading/trailing_whitespace`**: compared with
    the boundaries without the flags (a single word, `wordBoundaries_word`) the end moves right
    over exactly the run of `\s` characters of the line that follows the word, and the start moves
    left over exactly the run that precedes it — maximal runs, only when the flag is set and only
    on a side where there is a word part. -/
theorem wordBoundaries_flags (sp : Char → Bool) (d : Doc) (WORD lead trail : Bool) (s0 e0 s e : Int)
    (h0 : wordBoundaries sp d WORD false false = (s0, e0))
    (h : wordBoundaries sp d WORD lead trail = (s, e)) :
    (0 ≤ e0 ∧ e0 ≤ e ∧ (e0 = 0 ∨ trail = false → e = e0) ∧
      (∀ j : Nat, e0 ≤ j → (j : Int) < e → ∃ c, (lineAfter d)[j]? = some c ∧ sp c = true) ∧
      (trail = true → e0 ≠ 0 → ∀ c, (lineAfter d)[e.toNat]? = some c → sp c = false)) ∧
    (s0 ≤ 0 ∧ s ≤ s0 ∧ (s0 = 0 ∨ lead = false → s = s0) ∧
      (∀ j : Nat, -s0 ≤ j → (j : Int) < -s → ∃ c, (lineBefore d).reverse[j]? = some c ∧ sp c = true) ∧
      (lead = true → s0 ≠ 0 → ∀ c, (lineBefore d).reverse[(-s).toNat]? = some c → sp c = false)) := by
  have heq := wordBoundaries_flags_eq sp d WORD lead trail
  rw [h, h0] at heq
  simp only [Prod.mk.injEq] at heq
  obtain ⟨hs, he⟩ := heq
  have hsign := wbCore_sign WORD (index? d.text ((d.cur : Int) - 1)) (index? d.text (d.cur : Int))
    (currentWordEnd (cls sp WORD) (lineBefore d).reverse) (currentWordEnd (cls sp WORD) (lineAfter d))
  have hcore := wordBoundaries_core sp d WORD false false
  simp only [Bool.false_eq_true, if_false] at hcore
  rw [← hcore, h0] at hsign
  obtain ⟨hs0, he0⟩ : s0 ≤ 0 ∧ 0 ≤ e0 := hsign
  obtain ⟨a1, a2⟩ := wsRun_spec sp (lineAfter d) e0.toNat
  obtain ⟨b1, b2⟩ := wsRun_spec sp (lineBefore d).reverse (-s0).toNat
  constructor
  · refine ⟨he0, ?_, ?_, ?_, ?_⟩
    · rw [he]; split
      · split <;> omega
      · omega
    · intro h; rw [he]; rcases h with h | h
      · simp [h]
      · simp [h]; omega
    · intro j hj1 hj2
      rw [he] at hj2
      split at hj2
      · split at hj2
        · exact a1 j (by omega) (by omega)
        · omega
      · omega
    · intro ht hne c hc
      rw [he] at hc
      simp only [hne, ne_eq, not_false_eq_true, if_true, ht] at hc
      apply a2 c
      have : (e0 + (wsRun sp (lineAfter d) e0.toNat : Int)).toNat = e0.toNat + wsRun sp (lineAfter d) e0.toNat := by omega
      rw [this] at hc; exact hc
  · refine ⟨hs0, ?_, ?_, ?_, ?_⟩
    · rw [hs]; split
      · split <;> omega
      · omega
    · intro h; rw [hs]; rcases h with h | h
      · simp [h]
      · simp [h]; omega
    · intro j hj1 hj2
      rw [hs] at hj2
      split at hj2
      · split at hj2
        · exact b1 j (by omega) (by omega)
        · omega
      · omega
    · intro ht hne c hc
      rw [hs] at hc
      simp only [hne, ne_eq, not_false_eq_true, if_true, ht] at hc
      apply b2 c
      have : (-(s0 - (wsRun sp (lineBefore d).reverse (-s0).toNat : Int))).toNat =
          (-s0).toNat + wsRun sp (lineBefore d).reverse (-s0).toNat := by omega
      rw [this] at hc; exact hc
example : wordBoundaries (· == ' ') ⟨['x', ' ', ' ', 'a', 'b', ' ', ' ', '.'], 4⟩ false true true = (-3, 3) ∧
    wordBoundaries (· == ' ') ⟨['x', ' ', ' ', 'a', 'b', ' ', ' ', '.'], 4⟩ false false false = (-1, 1) ∧
    wordBoundaries (· == ' ') ⟨['x', ' ', ' ', 'a', 'b', ' ', ' ', '.'], 5⟩ false true true = (-4, 0) := by decide


theorem slice_nonneg {α : Type} (l : List α) (a b : Nat) :
    slice l (some (a : Int)) (some (b : Int)) = (l.take b).drop a := by
  have ha : ¬ ((a : Int) < 0) := by omega
  have hb : ¬ ((b : Int) < 0) := by omega
  simp only [slice, normIdx, ha, hb, if_false, Int.toNat_natCast]
  have h1 : l.take (min b l.length) = l.take b := by
    by_cases hbl : b ≤ l.length
    · rw [Nat.min_eq_left hbl]
    · rw [Nat.min_eq_right (by omega), List.take_of_length_le (Nat.le_refl _), List.take_of_length_le (by omega)]
  rw [h1]
  by_cases hal : a ≤ l.length
  · rw [Nat.min_eq_left hal]
  · rw [List.drop_eq_nil_of_le (by simp; omega), List.drop_eq_nil_of_le (by simp; omega)]

theorem slice_from_nonneg {α : Type} (l : List α) (a : Nat) (ha : a ≤ l.length) :
    slice l (some (a : Int)) none = l.drop a := by
  have h : ¬ ((a : Int) < 0) := by omega
  simp only [slice, normIdx, h, if_false, Int.toNat_natCast, Nat.min_eq_left ha]
  rw [List.take_of_length_le (Nat.le_refl _)]

/-- **`get_word_under_cursor`** is the text between the boundaries reported by
    `find_boundaries_of_current_word` (no flags); when non-empty it is a single word: all its
    characters have one and the same non-blank class -/
theorem wordUnderCursor_spec (sp : Char → Bool) (d : Doc) (hc : d.cur ≤ d.text.length) (WORD : Bool)
    (s e : Int) (h : wordBoundaries sp d WORD false false = (s, e)) :
    wordUnderCursor sp d WORD = (d.text.take ((d.cur : Int) + e).toNat).drop ((d.cur : Int) + s).toNat ∧
    (wordUnderCursor sp d WORD).length = (e - s).toNat ∧
    (s < e → ∃ k, k ≠ 0 ∧ ∀ c ∈ wordUnderCursor sp d WORD, cls sp WORD c = k) := by
  obtain ⟨h1, h2, h3, h4⟩ := wordBoundaries_on_line sp d hc WORD false false
  have hb3 := (onLine_same_row d hc _ h3).1
  have hb4 := (onLine_same_row d hc _ h4).1
  rw [h] at h1 h2 hb3 hb4
  simp only [InBounds] at hb3 hb4 h1 h2
  have hw : wordUnderCursor sp d WORD =
      (d.text.take ((d.cur : Int) + e).toNat).drop ((d.cur : Int) + s).toNat := by
    simp only [wordUnderCursor, h]
    have e1 : (d.cur : Int) + s = (((d.cur : Int) + s).toNat : Int) := by omega
    have e2 : (d.cur : Int) + e = (((d.cur : Int) + e).toNat : Int) := by omega
    conv => lhs; rw [e1, e2, slice_nonneg]
  refine ⟨hw, ?_, ?_⟩
  · rw [hw]; simp; omega
  · intro hlt
    have := wordBoundaries_word sp d hc WORD
    simp only [h] at this
    obtain ⟨k, hk, hall, _, _⟩ := this hlt
    refine ⟨k, hk, ?_⟩
    intro c hcm
    rw [hw] at hcm
    obtain ⟨j, hj⟩ := List.getElem?_of_mem hcm
    rw [List.getElem?_drop, List.getElem?_take] at hj
    split at hj
    · rename_i hlt2
      have := hall (((d.cur : Int) + s).toNat + j) (by omega) (by omega)
      simp only [clsAt, hj, Option.map_some] at this
      exact Option.some.inj this
    · cases hj
example : wordUnderCursor (· == ' ') ⟨['x', ' ', 'a', 'b', '.', ' '], 3⟩ false = ['a', 'b'] ∧
    wordUnderCursor (· == ' ') ⟨['x', ' ', 'a', 'b', '.', ' '], 3⟩ true = ['a', 'b', '.'] := by decide

theorem runs_head (cl : Char → Nat) (c : Char) (cs : Text) (hc : cl c ≠ 0) :
    (runs cl (c :: cs))[0]? = some (0, 1 + prefixLen cl (cl c) cs) := by
  simp [runs, runsGo, hc]

/-- **`get_word_before_cursor`** (no custom pattern; `\s ⊆ str.isspace`, which holds for the
    generated tables): empty exactly when there is no text before the cursor or the character
    before the cursor is whitespace; otherwise it is the non-empty suffix of the text before the
    cursor made of the word that ends at the cursor: all characters of one non-blank class, and the
    character before it (if any) of another class. -/
theorem wordBeforeCursor_spec (isSpace sp : Char → Bool) (hsp : ∀ c, sp c = true → isSpace c = true)
    (d : Doc) (hc : d.cur ≤ d.text.length) (WORD : Bool) :
    ∃ n : Nat, n ≤ d.cur ∧ wordBeforeCursor isSpace sp d WORD = (d.text.take d.cur).drop (d.cur - n) ∧
      (n = 0 ↔ (d.cur = 0 ∨ ∃ c, d.text[d.cur - 1]? = some c ∧ isSpace c = true)) ∧
      (0 < n → ∃ k, k ≠ 0 ∧ (∀ p, d.cur - n ≤ p → p < d.cur → clsAt (cls sp WORD) d.text p = some k) ∧
        (d.cur - n = 0 ∨ clsAt (cls sp WORD) d.text (d.cur - n - 1) ≠ some k)) := by
  have hblen : d.before.length = d.cur := by simp [Doc.before]; omega
  cases hrev : d.before.reverse with
  | nil =>
    have hb : d.before = [] := by simpa using hrev
    have h0 : d.cur = 0 := by rw [hb] at hblen; simpa using hblen.symm
    refine ⟨0, by omega, ?_, by simp [h0], by omega⟩
    simp [wordBeforeCursor, hb]
  | cons c rest =>
    have hne : d.before ≠ [] := by intro e; rw [e] at hrev; simp at hrev
    have hpos : 0 < d.cur := by
      rcases Nat.eq_zero_or_pos d.cur with h | h
      · rw [h] at hblen; exact absurd (List.length_eq_zero_iff.mp hblen) hne
      · exact h
    have hlast : d.before.getLast? = some c := by
      rw [List.getLast?_eq_head?_reverse, hrev]; rfl
    have hget : d.text[d.cur - 1]? = some c := by
      have : d.before.reverse[0]? = some c := by rw [hrev]; rfl
      rw [List.getElem?_reverse (by omega), hblen] at this
      simp only [Doc.before] at this
      rw [List.getElem?_take_of_lt (by omega)] at this
      simpa using this
    by_cases hs : isSpace c = true
    · refine ⟨0, by omega, ?_, ?_, by omega⟩
      · simp [wordBeforeCursor, hlast, hs]
      · simp only [true_iff]; right; exact ⟨c, hget, hs⟩
    · have hs' : isSpace c = false := by simpa using hs
      have hspc : sp c = false := by
        cases h : sp c with
        | false => rfl
        | true => rw [hsp c h] at hs'; cases hs'
      have hcl : cls sp WORD c ≠ 0 := by
        cases WORD
        · simp only [cls, Bool.false_eq_true, if_false, clsWord, hspc]; split <;> omega
        · simp [cls, clsBig, hspc]
      -- the first run of the reversed text starts at 0 = the `^word` match
      have hrun := runs_head (cls sp WORD) c rest hcl
      have hcw : currentWordEnd (cls sp WORD) (c :: rest) = some (1 + prefixLen (cls sp WORD) (cls sp WORD c) rest) := by
        simp [currentWordEnd, hcl]
      obtain ⟨k, hk, he1, _, hall, hstop⟩ := (currentWordEnd_spec (cls sp WORD) (c :: rest)).1 _ hcw
      have hele := currentWordEnd_le _ _ _ hcw
      generalize hn : 1 + prefixLen (cls sp WORD) (cls sp WORD c) rest = n at *
      have hnle : n ≤ d.cur := by
        have : (c :: rest).length = d.cur := by rw [← hrev]; simp [hblen]
        omega
      refine ⟨n, hnle, ?_, ?_, ?_⟩
      · have hstart : findStartOfPreviousWord sp d 1 WORD = some (-(n : Int)) := by
          simp only [findStartOfPreviousWord, hrev]
          have : nth (runs (cls sp WORD) (c :: rest)) 1 = some (0, n) := by
            simp only [nth]; simpa using hrun
          rw [this]; rfl
        simp only [wordBeforeCursor, hstart, Option.getD_some]
        rw [if_neg (by simp [hlast, hs', hne])]
        have e1 : ((d.before.length : Int) + -(n : Int)) = ((d.cur - n : Nat) : Int) := by omega
        rw [e1, slice_from_nonneg _ _ (by omega)]
        rfl
      · constructor
        · intro h; omega
        · rintro (h | ⟨c', hc', hsc'⟩)
          · omega
          · rw [hget] at hc'; cases hc'; rw [hs'] at hsc'; cases hsc'
      · intro _
        have hcls : ∀ j, j < d.cur → clsAt (cls sp WORD) (c :: rest) j = clsAt (cls sp WORD) d.text (d.cur - 1 - j) := by
          intro j hj
          rw [← hrev]
          have := clsAt_rev_take (cls sp WORD) d.text d.cur hc j
          simp only [Doc.before, this, hj, if_true]
        refine ⟨k, hk, ?_, ?_⟩
        · intro p hp1 hp2
          have := hall (d.cur - 1 - p) (by omega)
          rw [hcls _ (by omega)] at this
          have e : d.cur - 1 - (d.cur - 1 - p) = p := by omega
          rw [e] at this; exact this
        · rcases Nat.lt_or_ge n d.cur with hlt | hge
          · right
            rw [hcls _ hlt] at hstop
            have e : d.cur - 1 - n = d.cur - n - 1 := by omega
            rw [e] at hstop; exact hstop
          · left; omega
example : wordBeforeCursor (· == ' ') (· == ' ') ⟨['x', ' ', 'a', 'b', '.'], 4⟩ false = ['a', 'b'] ∧
    wordBeforeCursor (· == ' ') (· == ' ') ⟨['x', ' ', 'a', 'b', '.'], 5⟩ true = ['a', 'b', '.'] ∧
    wordBeforeCursor (· == ' ') (· == ' ') ⟨['x', ' ', 'a', 'b', '.'], 2⟩ false = [] := by decide

end Ptk.C02
