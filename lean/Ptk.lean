import Ptk.Py
import Ptk.Proto
