import Ptk.Proto
import Ptk.Model.C14
import Ptk.Gen.PyChars
open Ptk Ptk.Py Ptk.Proto Ptk.C14

/-- scripted validator family used by the correspondence harness
    (mode 0: accept everything; mode 1: reject iff `needle` occurs in the text;
     error position: 0 = `arg`, 1 = index of the needle + `arg`, 2 = len(text) + `arg`) -/
structure VSpec where
  mode : Nat := 0
  needle : Text := []
  posMode : Nat := 0
  arg : Int := 0

def VSpec.toValidator (vs : VSpec) : Validator := fun t =>
  if vs.mode = 0 then none else
  match findSub? vs.needle t with
  | none => none
  | some k =>
    some (match vs.posMode with
      | 0 => vs.arg
      | 1 => (k : Int) + vs.arg
      | _ => (t.length : Int) + vs.arg)

structure DSt where
  st : St := St.fresh [] false false
  vs : VSpec := {}
  /-- the running prompt has returned: further `key` lines are not delivered to it -/
  done : Bool := false
  /-- vi sessions: `vi_state.input_mode == NAVIGATION` -/
  nav : Bool := false

def encOptStr : Option Text → String
  | none => "N"
  | some t => encStr t

def encOptNat : Option Nat → String
  | none => "N"
  | some n => toString n

def encV : VState → String
  | .unknown => "U" | .valid => "V" | .invalid => "I"

def encOut : Out → String
  | .none => "-"
  | .bool b => "b" ++ encBool b
  | .accepted t => "acc:" ++ encStr t
  | .rejected => "rej"
  | .assertErr => "aerr"

def encOInt : Option Int → String
  | none => "N"
  | some n => toString n

def encRun : Option (Text × Nat) → String
  | none => "N"
  | some (t, c) => s!"R:{encStr t}:{c}"

def encYank : Option Yank → String
  | none => "N"
  | some y => s!"Y:{y.pos}:{y.n}:{encStr y.prev}"

/-- the runtime classes and the word splitter the key level is instantiated with -/
def drvEnv : Env :=
  { isSp := Ptk.Gen.isSpace, words := quotedWords Ptk.Gen.reSpace Ptk.Gen.isSpace,
    fixG := Ptk.Gen.C14.goToHistoryResetsSearch }

def showSt (s : St) (o : String) : String :=
  s!"{s.idx} {s.cur} {encV s.vstate} {encOInt s.verr} {encOptStr s.search} {encOptNat s.pref} {encBool s.loading} {s.vtasks} {encRun s.vrun} {encBool s.hloaded} {encBool s.ehs} {encBool s.vwt} {encList toString s.preRun} {encYank s.yank} W {encList encStr s.work} H {encList encStr s.hist} S {encList encStr s.storage} P {encList encStr s.pending} {o}"

def decStrs : List String → Option (List Text)
  | [] => some []
  | x :: xs => do pure ((← decStr x) :: (← decStrs xs))

def parseKey : List String → Option Key
  | ["char", c] => do
    match (← decStr c) with
    | [ch] => some (.char ch)
    | _ => none
  | ["backspace"] => some .backspace
  | ["left"] => some .left
  | ["right"] => some .right
  | ["home"] => some .home
  | ["end"] => some .endl
  | ["up", a] => do pure (.up (← decInt a))
  | ["down", a] => do pure (.down (← decInt a))
  | ["c-p", a] => do pure (.ctrlP (← decInt a))
  | ["c-n"] => some .ctrlN
  | ["prevhist", a] => do pure (.prevHist (← decInt a))
  | ["nexthist", a] => do pure (.nextHist (← decInt a))
  | ["beginhist"] => some .beginHist
  | ["endhist"] => some .endHist
  | ["enter"] => some .enter
  | ["escenter"] => some .escEnter
  | ["c-o"] => some .ctrlO
  | ["yanknth", a] => do pure (.yankNth (← decOptInt a))
  | ["yanklast", a] => do pure (.yankLast (← decOptInt a))
  | ["valdone"] => some .valDone
  | _ => none

def parseViKey : List String → Option ViKey
  | ["char", c] => do
    match (← decStr c) with
    | [ch] => some (.char ch)
    | _ => none
  | ["backspace"] => some .backspace
  | ["escape"] => some .escape
  | ["i"] => some .insertI
  | ["a"] => some .appendA
  | ["k", a] => do pure (.k (← decInt a))
  | ["j", a] => do pure (.j (← decInt a))
  | ["up", a] => do pure (.up (← decInt a))
  | ["down", a] => do pure (.down (← decInt a))
  | ["G", n] => do pure (.gotoG (← decNat n))
  | ["enter"] => some .enter
  | ["valdone"] => some .valDone
  | _ => none

def parseOp : List String → Option Op
  | ["ins", d] => do pure (.insert (← decStr d))
  | ["delb", n] => do pure (.delBefore (← decNat n))
  | ["text", t] => do pure (.setText (← decStr t))
  | ["cur", c] => do pure (.setCursor (← decInt c))
  | ["left"] => some .left
  | ["right"] => some .right
  | ["home"] => some .home
  | ["end"] => some .endl
  | ["hb", c] => do pure (.histBack (← decInt c))
  | ["hf", c] => do pure (.histFwd (← decInt c))
  | ["goto", i] => do
    let i ← decNat i
    pure (if Ptk.Gen.C14.goToHistoryResetsSearch then .goToFixed i else .goTo i)
  | ["gotofix", i] => do pure (.goToFixed (← decNat i))
  | ["endhistfix"] => some .endHistFixed
  | ["endhist"] => some (if Ptk.Gen.C14.goToHistoryResetsSearch then .endHistFixed else .endHist)
  | ["aup", c, g] => do pure (.autoUp (← decInt c) (← decBool g))
  | ["adown", c, g] => do pure (.autoDown (← decInt c) (← decBool g))
  | ["ehs", b] => do pure (.setEhs (← decBool b))
  | ["vwt", b] => do pure (.setVwt (← decBool b))
  | ["vstart"] => some .vStart
  | ["vrel"] => some .vFinish
  | ["reseta", t, c] => do pure (.resetAppend (← decStr t) (← decNat c))
  | ["validate", b] => do pure (.validate (← decBool b))
  | ["avalidate"] => some .asyncValidate
  | ["accept", k] => do pure (.accept (← decBool k))
  | ["append"] => some .append
  | ["reset", t, c] => do pure (.reset (← decStr t) (← decNat c))
  | ["startload"] => some .startLoad
  | ["loadone"] => some .loadOne
  | _ => none

def stepLine1 (d : DSt) (toks : List String) : DSt × String :=
  let v := d.vs.toValidator
  match toks with
  | "init" :: e :: w :: a :: m :: strs =>
    match decBool e, decBool w, decBool a, decBool m, decStrs strs with
    | some e, some w, some a, some m, some strs =>
      let s := St.fresh strs e w a m
      ({ d with st := s, done := false }, showSt s "-")
    | _, _, _, _, _ => (d, "bad-op")
  | ["val", m, nd, pm, a] =>
    match decNat m, decStr nd, decNat pm, decInt a with
    | some m, some nd, some pm, some a =>
      ({ d with vs := { mode := m, needle := nd, posMode := pm, arg := a } }, showSt d.st "-")
    | _, _, _, _ => (d, "bad-op")
  | ["show"] => (d, showSt d.st "-")
  | ["words", t] =>
    match decStr t with
    | some t => (d, encList encStr (drvEnv.words t))
    | none => (d, "bad-op")
  | ["yank", a, l] =>
    match decOptInt a, decBool l with
    | some a, some l =>
      let (s, o) := step v d.st (yankOp drvEnv d.st a l)
      ({ d with st := s }, showSt s (encOut o))
    | _, _ => (d, "bad-op")
  | ["loadall"] =>
    let s := loadAll d.st
    ({ d with st := s }, showSt s "-")
  | ["prompt", dflt] =>
    match decStr dflt with
    | some t => let s := promptStart d.st t; ({ d with st := s, done := false, nav := false }, showSt s "-")
    | none => (d, "bad-op")
  | ["promptacc", dflt] =>
    match decStr dflt with
    | some t =>
      match promptAcceptDefault v d.st t with
      | (s, some r) => ({ d with st := s, done := true }, showSt s (encOut (.accepted r)))
      | (s, none) => ({ d with st := s, done := true }, showSt s (encOut .rejected))
    | none => (d, "bad-op")
  | "vkey" :: rest =>
    if d.done then (d, "after-accept") else
    match parseViKey rest with
    | some k =>
      let (vs, o) := viKeyStep v drvEnv { st := d.st, nav := d.nav } k
      let fin := match o with | .accepted _ => true | _ => false
      ({ d with st := vs.st, nav := vs.nav, done := fin }, showSt vs.st (encBool vs.nav ++ " " ++ encOut o))
    | none => (d, "bad-op")
  | "key" :: rest =>
    if d.done then (d, "after-accept") else
    match parseKey rest with
    | some k =>
      let (s, o) := keyStep v drvEnv d.st k
      let fin := match o with | .accepted _ => true | _ => false
      ({ d with st := s, done := fin }, showSt s (encOut o))
    | none => (d, "bad-op")
  | _ =>
    match parseOp toks with
    | some op => let (s, o) := step v d.st op; ({ d with st := s }, showSt s (encOut o))
    | none => (d, "bad-op")

/-- `q <op>`: run the op but print only `-` (a state the real code cannot be observed in) -/
def stepLine (d : DSt) (toks : List String) : DSt × String :=
  match toks with
  | "q" :: rest => let (d', r) := stepLine1 d rest; (d', if r == "bad-op" then r else "-")
  | _ => stepLine1 d toks

def main : IO Unit := runS stepLine {}
