import Ptk.Proto
import Ptk.Gen.C18
import Ptk.Model.C18
import Ptk.Model.C18Html
open Ptk Ptk.Py Ptk.Proto Ptk.C18

def tb : Tables := { fg := Gen.C18.fgColors, bg := Gen.C18.bgColors, c256 := Gen.C18.colors256 }

/-- token parsers -/
abbrev P (α : Type) := List String → Option (α × List String)

def pStr : P Text
  | t :: r => (decStr t).map (·, r)
  | [] => none

def pNat : P Nat
  | t :: r => (decNat t).map (·, r)
  | [] => none

def pFrag : P Frag := fun ts => do
  let (st, ts) ← pStr ts
  let (tx, ts) ← pStr ts
  match ts with
  | "N" :: r => pure ({ style := st, text := tx, handler := none }, r)
  | h :: r => do pure ({ style := st, text := tx, handler := some (← decNat h) }, r)
  | [] => none

def pTimes (p : P α) : Nat → P (List α)
  | 0, ts => some ([], ts)
  | n + 1, ts => do
    let (a, ts) ← p ts
    let (as, ts) ← pTimes p n ts
    pure (a :: as, ts)

def pList (p : P α) : P (List α) := fun ts => do
  let (n, ts) ← pNat ts
  pTimes p n ts

def wrapCalls : Nat → AnyFT → AnyFT
  | 0, v => v
  | n + 1, v => .call (wrapCalls n v)

/-- `<depth> <kind> <payload>` -/
def pAny : P AnyFT := fun ts => do
  let (d, ts) ← pNat ts
  match ts with
  | "none" :: r => pure (wrapCalls d .none, r)
  | "str" :: r => do
    let (s, r) ← pStr r
    pure (wrapCalls d (.str s), r)
  | "list" :: r => do
    let (fs, r) ← pList pFrag r
    pure (wrapCalls d (.list fs), r)
  | "ft" :: r => do
    let (fs, r) ← pList pFrag r
    pure (wrapCalls d (.magic fs), r)
  | "ansi" :: r => do
    let (s, r) ← pStr r
    pure (wrapCalls d (.magic (ansi tb s)), r)
  | _ => none

def encFrag (f : Frag) : String :=
  s!"{encStr f.style} {encStr f.text} " ++ (match f.handler with | none => "N" | some h => toString h)

def encFrags (fs : Frags) : String := encList encFrag fs

def encErr : Err → String
  | .index => "err:IndexError"
  | .value => "err:ValueError"
  | .type => "err:TypeError"

def encRes (f : α → String) : Option (Except Err α) → String
  | none => "unsupported"
  | some (.error e) => encErr e
  | some (.ok a) => f a

def encHRes : Except HErr Frags → String
  | .ok fs => encFrags fs
  | .error .expat => "err:ExpatError"
  | .error .value => "err:ValueError"
  | .error .unsupported => "unsupported"

def encHFmt : Except HErr (Option (Except Err (Except HErr Frags))) → String
  | .error e => encHRes (.error e)
  | .ok r => encRes encHRes r

def handle (toks : List String) : String :=
  let r : Option String :=
    match toks with
    | ["ansi", s] => do pure (encFrags (ansi tb (← decStr s)))
    | ["aesc", s] => do pure (encStr (ansiEscape (← decStr s)))
    | ["hesc", s] => do pure (encStr (htmlEscape (← decStr s)))
    | "afmt" :: t :: rest => do
      let tm ← decStr t
      let (vs, r) ← pList pStr rest
      if r ≠ [] then none else pure (encRes encFrags (ansiFormat tb tm vs))
    | "amod" :: t :: rest => do
      let tm ← decStr t
      let (vs, r) ← pList pStr rest
      if r ≠ [] then none else pure (encRes encFrags (ansiMod tb tm vs))
    | ["html", s] => do pure (encHRes (html (← decStr s)))
    | "hfmt" :: t :: rest => do
      let tm ← decStr t
      let (vs, r) ← pList pStr rest
      if r ≠ [] then none else pure (encHFmt (htmlFormat tm vs))
    | "hmod" :: t :: rest => do
      let tm ← decStr t
      let (vs, r) ← pList pStr rest
      if r ≠ [] then none else pure (encHFmt (htmlMod tm vs))
    | "split" :: rest => do
      let (fs, r) ← pList pFrag rest
      if r ≠ [] then none else pure (encList encFrags (splitLines fs))
    | "explode" :: rest => do
      let (fs, r) ← pList pFrag rest
      if r ≠ [] then none else pure (encFrags (explode fs))
    | "text" :: rest => do
      let (fs, r) ← pList pFrag rest
      if r ≠ [] then none else pure (encStr (fragText fs))
    | "len" :: rest => do
      let (fs, r) ← pList pFrag rest
      if r ≠ [] then none else pure (toString (fragLen fs))
    | "width" :: rest => do
      let (fs, r) ← pList pFrag rest
      if r ≠ [] then none else pure (toString (fragWidth Gen.C18.cw fs))
    | "tft" :: st :: rest => do
      let style ← decStr st
      let (v, r) ← pAny rest
      if r ≠ [] then none else pure (encFrags (toFormattedText v style))
    | "plain" :: rest => do
      let (v, r) ← pAny rest
      if r ≠ [] then none else pure (encStr (toPlainText v))
    | "templ" :: t :: rest => do
      let tm ← decStr t
      let (vs, r) ← pList pAny rest
      if r ≠ [] then none else
        pure (match templateFormat tm vs with
          | none => "err:AssertionError"
          | some fs => encFrags fs)
    | "merge" :: rest => do
      let (vs, r) ← pList pAny rest
      if r ≠ [] then none else pure (encFrags (mergeFormattedText vs))
    | _ => none
  r.getD "bad-op"

def main : IO Unit := Ptk.Proto.run handle
