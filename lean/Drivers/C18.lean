import Ptk.Proto
import Ptk.Gen.C18
import Ptk.Model.C18
import Ptk.Model.C18Html
import Ptk.Model.C18Sess
import Ptk.Model.C18Expl
open Ptk Ptk.Py Ptk.Proto Ptk.C18

/-- the int-string-conversion limit that applies to control-sequence parameters in the current tree
    (mirrors `limitFor` of Props/C18Int.lean, which is not linked into the driver) -/
def ansiLimit : Option Nat :=
  if Gen.C18.ansiParamExpr = "min(int(current or 0), 9999)" then Gen.C18.intMaxStrDigits else none

/-- `str.isprintable` of the interpreter the harness runs in (generated table) -/
def pr : Char → Bool := Gen.C18.isPrintable

def tb : Tables := { fg := Gen.C18.fgColors, bg := Gen.C18.bgColors, c256 := Gen.C18.colors256 }

/-- token parsers -/
abbrev P (α : Type) := List String → Option (α × List String)

def pStr : P Text
  | t :: r => (decStr t).map (·, r)
  | [] => none

def pNat : P Nat
  | t :: r => (decNat t).map (·, r)
  | [] => none

def pFrag : P Frag := fun ts => do
  let (st, ts) ← pStr ts
  let (tx, ts) ← pStr ts
  match ts with
  | "N" :: r => pure ({ style := st, text := tx, handler := none }, r)
  | h :: r => do pure ({ style := st, text := tx, handler := some (← decNat h) }, r)
  | [] => none

def pTimes (p : P α) : Nat → P (List α)
  | 0, ts => some ([], ts)
  | n + 1, ts => do
    let (a, ts) ← p ts
    let (as, ts) ← pTimes p n ts
    pure (a :: as, ts)

def pList (p : P α) : P (List α) := fun ts => do
  let (n, ts) ← pNat ts
  pTimes p n ts

/-- a Python value: `S <str>` | `P <str> <repr>` (object.__format__) | `N <str> <repr>` (number) -/
def pVal : P Val
  | "S" :: r => do
    let (s, r) ← pStr r
    pure ({ kind := .str, s := s }, r)
  | "P" :: r => do
    let (s, r) ← pStr r
    let (rp, r) ← pStr r
    pure ({ kind := .plain, s := s, r := rp }, r)
  | "N" :: r => do
    let (s, r) ← pStr r
    let (rp, r) ← pStr r
    pure ({ kind := .num, s := s, r := rp }, r)
  | _ => none

def pKwItem : P (Text × Val) := fun ts => do
  let (n, ts) ← pStr ts
  let (v, ts) ← pVal ts
  pure ((n, v), ts)

def wrapCalls : Nat → AnyFT → AnyFT
  | 0, v => v
  | n + 1, v => .call (wrapCalls n v)

/-- `<depth> <kind> <payload>` -/
def pAny : P AnyFT := fun ts => do
  let (d, ts) ← pNat ts
  match ts with
  | "none" :: r => pure (wrapCalls d .none, r)
  | "str" :: r => do
    let (s, r) ← pStr r
    pure (wrapCalls d (.str s), r)
  | "list" :: r => do
    let (fs, r) ← pList pFrag r
    pure (wrapCalls d (.list fs), r)
  | "ft" :: r => do
    let (fs, r) ← pList pFrag r
    pure (wrapCalls d (.magic fs), r)
  | "ansi" :: r => do
    let (s, r) ← pStr r
    pure (wrapCalls d (.magic (ansi tb s)), r)
  | _ => none

def encFrag (f : Frag) : String :=
  s!"{encStr f.style} {encStr f.text} " ++ (match f.handler with | none => "N" | some h => toString h)

def encFrags (fs : Frags) : String := encList encFrag fs

def encErr : Err → String
  | .index => "err:IndexError"
  | .value => "err:ValueError"
  | .type => "err:TypeError"
  | .key => "err:KeyError"
  | .unsupported => "unsupported"

def encRes (f : α → String) : Option (Except Err α) → String
  | none => "unsupported"
  | some (.error e) => encErr e
  | some (.ok a) => f a

def encHRes : Except HErr Frags → String
  | .ok fs => encFrags fs
  | .error .expat => "err:ExpatError"
  | .error .value => "err:ValueError"
  | .error .attr => "err:AttributeError"
  | .error .unsupported => "unsupported"

def encHFmt : Except HErr (Option (Except Err (Except HErr Frags))) → String
  | .error e => encHRes (.error e)
  | .ok r => encRes encHRes r

def pOptInt : P (Option Int)
  | t :: r => (decOptInt t).map (·, r)
  | [] => none

def pInt : P Int
  | t :: r => (decInt t).map (·, r)
  | [] => none

def pElArg : P ElArg
  | "S" :: r => some (.self, r)
  | "P" :: r => do
    let (fs, r) ← pList pFrag r
    pure (.plain fs, r)
  | _ => none

def pElOp : P ElOp
  | "A" :: r => do let (f, r) ← pFrag r; pure (.append f, r)
  | "E" :: r => do let (x, r) ← pElArg r; pure (.extend x, r)
  | "I" :: r => do
    let (i, r) ← pInt r
    let (f, r) ← pFrag r
    pure (.insert i f, r)
  | "S" :: r => do
    let (i, r) ← pInt r
    let (f, r) ← pFrag r
    pure (.setItem i f, r)
  | "SL" :: r => do
    let (i, r) ← pInt r
    let (x, r) ← pElArg r
    pure (.setItemList i x, r)
  | "SS" :: r => do
    let (a, r) ← pOptInt r
    let (b, r) ← pOptInt r
    let (x, r) ← pElArg r
    pure (.setSlice a b x, r)
  | "ST" :: r => do
    let (a, r) ← pOptInt r
    let (b, r) ← pOptInt r
    let (f, r) ← pFrag r
    pure (.setSliceItem a b f, r)
  | "IA" :: r => do let (fs, r) ← pList pFrag r; pure (.iadd fs, r)
  | "X" :: r => some (.explodeSelf, r)
  | _ => none

/-- `<depth> other <str>` | `<depth> ft <AnyFT payload>` -/
def wrapCallsV : Nat → AnyV → AnyV
  | 0, v => v
  | n + 1, v => .call (wrapCallsV n v)

def pAnyV : P AnyV := fun ts => do
  match ts with
  | d :: "other" :: r => do
    let (s, r) ← pStr r
    pure (wrapCallsV (← decNat d) (.other s), r)
  | _ => do
    let (v, r) ← pAny ts
    pure (.ft v, r)

def pTok : P (List Text × Text) := fun ts => do
  let (names, ts) ← pList pStr ts
  let (tx, ts) ← pStr ts
  pure ((names, tx), ts)

def encSRes : SRes → String
  | .ok => "ok"
  | .frags fs => encFrags fs
  | .herr e => encHRes (.error e)
  | .err e => encErr e
  | .unsupported => "unsupported"
  | .noObj => "err:NoObject"

def pKind : String → Option Kind
  | "html" => some .html
  | "ansi" => some .ansi
  | _ => none

/-- the session ops (`reset` starts a new process image) -/
def handleSess (s : Sess) (toks : List String) : Option (Sess × String) :=
  match toks with
  | ["reset"] => some ({}, "ok")
  | ["snew", id, k, v] => do
    let (s', r) := sessStep tb pr s (.new (← decNat id) (← pKind k) (← decStr v))
    pure (s', encSRes r)
  | "sfmt" :: id :: rest => do
    let (args, r) ← pList pVal rest
    let (kw, r) ← pList pKwItem r
    if r ≠ [] then none else
    let (s', res) := sessStep tb pr s (.fmt (← decNat id) args kw)
    pure (s', encSRes res)
  | "smod" :: id :: rest => do
    let (args, r) ← pList pVal rest
    if r ≠ [] then none else
    let (s', res) := sessStep tb pr s (.mod (← decNat id) args)
    pure (s', encSRes res)
  | ["sget", id] => do
    let (s', res) := sessStep tb pr s (.get (← decNat id))
    pure (s', encSRes res)
  | _ => none

def handle (toks : List String) : String :=
  let r : Option String :=
    match toks with
    | ["ansi", s] => do
      pure (match ansiE ansiLimit tb (← decStr s) with
        | .ok fs => encFrags fs
        | .error .value => "err:ValueError")
    | ["aesc", s] => do pure (encStr (ansiEscape (← decStr s)))
    | ["hesc", s] => do pure (encStr (htmlEscape (← decStr s)))
    | "afmt" :: t :: rest => do
      let tm ← decStr t
      let (vs, r) ← pList pVal rest
      let (kw, r) ← pList pKwItem r
      if r ≠ [] then none else pure (encRes encFrags (ansiFormat tb pr tm vs kw))
    | "amod" :: t :: rest => do
      let tm ← decStr t
      let (vs, r) ← pList pVal rest
      if r ≠ [] then none else pure (encRes encFrags (ansiMod tb pr tm vs))
    | ["repr", s] => do pure (encStr (pyRepr pr (← decStr s)))
    | ["ascii", s] => do pure (encStr (asciiEscape (pyRepr pr (← decStr s))))
    | ["html", s] => do pure (encHRes (html (← decStr s)))
    | "hfmt" :: t :: rest => do
      let tm ← decStr t
      let (vs, r) ← pList pVal rest
      let (kw, r) ← pList pKwItem r
      if r ≠ [] then none else pure (encHFmt (htmlFormat pr tm vs kw))
    | "hmod" :: t :: rest => do
      let tm ← decStr t
      let (vs, r) ← pList pVal rest
      if r ≠ [] then none else pure (encHFmt (htmlMod pr tm vs))
    | "split" :: rest => do
      let (fs, r) ← pList pFrag rest
      if r ≠ [] then none else pure (encList encFrags (splitLines fs))
    | "explode" :: rest => do
      let (fs, r) ← pList pFrag rest
      if r ≠ [] then none else pure (encFrags (explode fs))
    | "text" :: rest => do
      let (fs, r) ← pList pFrag rest
      if r ≠ [] then none else pure (encStr (fragText fs))
    | "len" :: rest => do
      let (fs, r) ← pList pFrag rest
      if r ≠ [] then none else pure (toString (fragLen fs))
    | "width" :: rest => do
      let (fs, r) ← pList pFrag rest
      if r ≠ [] then none else pure (toString (fragWidth Gen.C18.cw fs))
    | "tft" :: st :: rest => do
      let style ← decStr st
      let (v, r) ← pAny rest
      if r ≠ [] then none else pure (encFrags (toFormattedText v style))
    | "plain" :: rest => do
      let (v, r) ← pAny rest
      if r ≠ [] then none else pure (encStr (toPlainText v))
    | "templ" :: t :: rest => do
      let tm ← decStr t
      let (vs, r) ← pList pAny rest
      if r ≠ [] then none else
        pure (match templateFormat tm vs with
          | none => "err:AssertionError"
          | some fs => encFrags fs)
    | "el" :: rest => do
      let (fs, r) ← pList pFrag rest
      let (ops, r) ← pList pElOp r
      if r ≠ [] then none else
        let res := elSession fs ops
        pure (encFrags res.1 ++ " " ++ encList encBool res.2)
    | "tfta" :: st :: ac :: rest => do
      let style ← decStr st
      let (v, r) ← pAnyV rest
      if r ≠ [] then none else
        pure (match toFormattedTextAC v style (← decBool ac) with
          | none => "err:ValueError"
          | some fs => encFrags fs)
    | "pyg" :: rest => do
      let (toks, r) ← pList pTok rest
      if r ≠ [] then none else pure (encFrags (pygmentsTokens toks))
    | "merge" :: rest => do
      let (vs, r) ← pList pAny rest
      if r ≠ [] then none else pure (encFrags (mergeFormattedText vs))
    | _ => none
  r.getD "bad-op"

def stepS (s : Sess) (toks : List String) : Sess × String :=
  match handleSess s toks with
  | some r => r
  | none => (s, handle toks)

def main : IO Unit := Ptk.Proto.runS stepS ({} : Sess)
