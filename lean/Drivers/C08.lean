import Ptk.Proto
import Ptk.Gen.PyChars
import Ptk.Model.C08
open Ptk Ptk.Py Ptk.Proto Ptk.C08

/-- ASCII versions of the transform callbacks (the correspondence uses ASCII letters and
    caseless symbols only; the theorems hold for every callback) -/
def rot13c (c : Char) : Char :=
  if c.isLower then Char.ofNat ((c.toNat - 97 + 13) % 26 + 97)
  else if c.isUpper then Char.ofNat ((c.toNat - 65 + 13) % 26 + 65)
  else c

def tfAscii : Transform → Text → Text
  | .rot13 => fun t => t.map rot13c
  | .lower => fun t => t.map fun c => if c.isUpper then c.toLower else c
  | .upper => fun t => t.map fun c => if c.isLower then c.toUpper else c
  | .swap => fun t => t.map fun c =>
      if c.isLower then c.toUpper else if c.isUpper then c.toLower else c

def env : Env := { isSpace := Gen.isSpace, reSpace := Gen.reSpace, tf := tfAscii }

def decOptNat (tok : String) : Option (Option Nat) :=
  if tok == "N" then some none else tok.toNat?.map some

def decOptChar (tok : String) : Option (Option Char) :=
  if tok == "N" then some none else tok.toNat?.map fun n => some (Char.ofNat n)

def decChar (tok : String) : Option Char := tok.toNat?.map Char.ofNat

def decType : String → Option TOType
  | "0" => some .exclusive
  | "1" => some .inclusive
  | "2" => some .linewise
  | _ => none

def decMotion : List String → Option Motion
  | ["h"] => some .h
  | ["l"] => some .l
  | ["0"] => some .zero
  | ["$"] => some .dollar
  | ["^"] => some .caret
  | ["w"] => some (.w false)
  | ["W"] => some (.w true)
  | ["b"] => some (.b false)
  | ["B"] => some (.b true)
  | ["e"] => some (.e false)
  | ["E"] => some (.e true)
  | ["f", c] => do pure (.f (← decChar c))
  | ["F", c] => do pure (.F (← decChar c))
  | ["t", c] => do pure (.t (← decChar c))
  | ["T", c] => do pure (.T (← decChar c))
  | ["iw"] => some (.iw false)
  | ["iW"] => some (.iw true)
  | ["aw"] => some (.aw false)
  | ["aW"] => some (.aw true)
  | ["j"] => some .j
  | ["k"] => some .k
  | ["G"] => some .G
  | ["gg"] => some .gg
  | ["ib", l, r] => do pure (.bracket (← decChar l) (← decChar r) true)
  | ["ab", l, r] => do pure (.bracket (← decChar l) (← decChar r) false)
  | ["iq", q] => do pure (.quote (← decChar q) true)
  | ["aq", q] => do pure (.quote (← decChar q) false)
  | ["rep", rev] => do pure (.repeatFind none (← decBool rev))
  | ["raw", s, e, ty] => do
      pure (.raw { start := (← decInt s), stop := (← decInt e), type := (← decType ty) })
  | _ => none

def decOp (name : String) (reg : Option Char) : Option Op :=
  match name with
  | "d" => some (.delete reg)
  | "c" => some (.change reg)
  | "y" => some (.yank reg)
  | "g?" => some (.transform .rot13)
  | "gu" => some (.transform .lower)
  | "gU" => some (.transform .upper)
  | "g~" => some (.transform .swap)
  | ">" => some .indent
  | "<" => some .unindent
  | _ => none

def encClip (c : Clip) : String := s!"{encStr c.text} {encBool c.lines}"

/-- insertion sort of the registers by name, for a canonical reply -/
def sortRegs (rs : List (Char × Clip)) : List (Char × Clip) :=
  rs.foldl (fun acc p =>
    (acc.takeWhile fun q => q.1.toNat < p.1.toNat) ++ p ::
      (acc.dropWhile fun q => q.1.toNat < p.1.toNat)) []

def encSt (s : St) : String :=
  let regs := sortRegs s.regs
  s!"{encStr s.text} {s.cur} {encClip s.clip} " ++
    encList (fun p => s!"{p.1.toNat} {encClip p.2}") regs ++ s!" {encBool s.insert}"

def handle (toks : List String) : String :=
  match toks with
  | "e2e" :: t :: c :: ct :: cl :: oa :: opn :: reg :: ma :: mot =>
    match decStr t, decNat c, decStr ct, decBool cl, decOptNat oa, decOptChar reg, decOptNat ma,
          decMotion mot with
    | some t, some c, some ct, some cl, some oa, some reg, some ma, some m =>
      match decOp opn reg with
      | some op =>
        let s : St := { text := t, cur := c, clip := { text := ct, lines := cl }, regs := [],
                        insert := false }
        match runKeys env s oa op ma m with
        | some s' => encSt s'
        | none => "err"
      | none => "bad-op"
    | _, _, _, _, _, _, _, _ => "bad-op"
  | ["e2ep", t, c, ct, cl, fa, fk, fc, oa, opn, reg, ma, rev] =>
    match decStr t, decNat c, decStr ct, decBool cl, decOptNat fa, decMotion [fk, fc], decOptNat oa,
          decOptChar reg, decOptNat ma, decBool rev with
    | some t, some c, some ct, some cl, some fa, some fm, some oa, some reg, some ma, some rev =>
      match decOp opn reg with
      | some op =>
        let s : St := { text := t, cur := c, clip := { text := ct, lines := cl }, regs := [],
                        insert := false }
        match runKeysAfterFind env s fa fm oa op ma rev with
        | some s' => encSt s'
        | none => "err"
      | none => "bad-op"
    | _, _, _, _, _, _, _, _, _, _ => "bad-op"
  | ["mvp", t, c, fa, fk, fc, ma, rev] =>
    match decStr t, decNat c, decOptNat fa, decMotion [fk, fc], decOptNat ma, decBool rev with
    | some t, some c, some fa, some fm, some ma, some rev =>
      let s : St := { text := t, cur := c, clip := { text := [], lines := false }, regs := [],
                      insert := false }
      toString (moveAloneKeysAfterFind env s fa fm ma rev)
    | _, _, _, _, _, _ => "bad-op"
  | "mv" :: t :: c :: ma :: mot =>
    match decStr t, decNat c, decOptNat ma, decMotion mot with
    | some t, some c, some ma, some m =>
      let s : St := { text := t, cur := c, clip := { text := [], lines := false }, regs := [],
                      insert := false }
      toString (moveAloneKeys env s ma m)
    | _, _, _, _ => "bad-op"
  | ["raw", t, c, s, e, ty] =>
    match decStr t, decNat c, decInt s, decInt e, decType ty with
    | some t, some c, some s, some e, some ty =>
      let d : Doc := { text := t, cur := c }
      let o : TextObject := { start := s, stop := e, type := ty }
      let r := operatorRange d o
      let ln := getLineNumbers d o
      let cutS := match cut d o with
        | some (d', cl) => s!"{encStr d'.text} {d'.cur} {encClip cl}"
        | none => "err"
      s!"{r.1} {r.2} {ln.1} {ln.2} {encBool (spansNothing d o)} {cutS}"
    | _, _, _, _, _ => "bad-op"
  | _ => "bad-op"

def main : IO Unit := Ptk.Proto.run handle
