import Ptk.Proto
import Ptk.Gen.PyChars
import Ptk.Model.C08
import Ptk.Model.C08Session
import Ptk.Model.C08Visual
open Ptk Ptk.Py Ptk.Proto Ptk.C08

/-- ASCII versions of the transform callbacks (the correspondence uses ASCII letters and
    caseless symbols only; the theorems hold for every callback) -/
def rot13c (c : Char) : Char :=
  if c.isLower then Char.ofNat ((c.toNat - 97 + 13) % 26 + 97)
  else if c.isUpper then Char.ofNat ((c.toNat - 65 + 13) % 26 + 65)
  else c

/-- the four length-changing case mappings of CPython that the correspondence uses
    (`'ß'.upper() == 'SS'`, `'ﬁ'.upper() == 'FI'`, `'ǰ'.upper() == 'J' + U+030C`,
    `'İ'.lower() == 'i' + U+0307`); `str.swapcase` applies the same special casing -/
def upperSpecial (c : Char) : Option Text :=
  if c.toNat = 0xDF then some ['S', 'S']
  else if c.toNat = 0xFB01 then some ['F', 'I']
  else if c.toNat = 0x1F0 then some ['J', Char.ofNat 0x30C]
  else none

def lowerSpecial (c : Char) : Option Text :=
  if c.toNat = 0x130 then some ['i', Char.ofNat 0x307] else none

def tfAscii : Transform → Text → Text
  | .rot13 => fun t => t.map rot13c
  | .lower => fun t => t.flatMap fun c =>
      match lowerSpecial c with
      | some r => r
      | none => [if c.isUpper then c.toLower else c]
  | .upper => fun t => t.flatMap fun c =>
      match upperSpecial c with
      | some r => r
      | none => [if c.isLower then c.toUpper else c]
  | .swap => fun t => t.flatMap fun c =>
      match upperSpecial c, lowerSpecial c with
      | some r, _ => r
      | none, some r => r
      | none, none => [if c.isLower then c.toUpper else if c.isUpper then c.toLower else c]

def env : Env := { isSpace := Gen.isSpace, reSpace := Gen.reSpace, tf := tfAscii }

def decOptNat (tok : String) : Option (Option Nat) :=
  if tok == "N" then some none else tok.toNat?.map some

def decOptChar (tok : String) : Option (Option Char) :=
  if tok == "N" then some none else tok.toNat?.map fun n => some (Char.ofNat n)

def decChar (tok : String) : Option Char := tok.toNat?.map Char.ofNat

def decType : String → Option TOType
  | "0" => some .exclusive
  | "1" => some .inclusive
  | "2" => some .linewise
  | _ => none

def decMotion : List String → Option Motion
  | ["h"] => some .h
  | ["l"] => some .l
  | ["0"] => some .zero
  | ["$"] => some .dollar
  | ["^"] => some .caret
  | ["w"] => some (.w false)
  | ["W"] => some (.w true)
  | ["b"] => some (.b false)
  | ["B"] => some (.b true)
  | ["e"] => some (.e false)
  | ["E"] => some (.e true)
  | ["f", c] => do pure (.f (← decChar c))
  | ["F", c] => do pure (.F (← decChar c))
  | ["t", c] => do pure (.t (← decChar c))
  | ["T", c] => do pure (.T (← decChar c))
  | ["iw"] => some (.iw false)
  | ["iW"] => some (.iw true)
  | ["aw"] => some (.aw false)
  | ["aW"] => some (.aw true)
  | ["j"] => some .j
  | ["k"] => some .k
  | ["G"] => some .G
  | ["gg"] => some .gg
  | ["ib", l, r] => do pure (.bracket (← decChar l) (← decChar r) true)
  | ["ab", l, r] => do pure (.bracket (← decChar l) (← decChar r) false)
  | ["iq", q] => do pure (.quote (← decChar q) true)
  | ["aq", q] => do pure (.quote (← decChar q) false)
  | ["rep", rev] => do pure (.repeatFind none (← decBool rev))
  | ["ge"] => some (.ge false)
  | ["gE"] => some (.ge true)
  | ["g_"] => some .gUnder
  | ["|"] => some .bar
  | ["%"] => some (.percent false)
  | ["{"] => some .braceUp
  | ["}"] => some .braceDown
  | ["ap"] => some .ap
  | ["H", r] => do pure (.screen .top (← decOptNat r))
  | ["M", r] => do pure (.screen .middle (← decOptNat r))
  | ["L", r] => do pure (.screen .bottom (← decOptNat r))
  | ["gm", w] => do pure (.gm (← decOptNat w))
  | ["raw", s, e, ty] => do
      pure (.raw { start := (← decInt s), stop := (← decInt e), type := (← decType ty) })
  | _ => none

def decOp (name : String) (reg : Option Char) : Option Op :=
  match name with
  | "d" => some (.delete reg)
  | "c" => some (.change reg)
  | "y" => some (.yank reg)
  | "g?" => some (.transform .rot13)
  | "gu" => some (.transform .lower)
  | "gU" => some (.transform .upper)
  | "g~" => some (.transform .swap)
  | "~" => some tildeOp
  | ">" => some .indent
  | "<" => some .unindent
  | _ => none

def encClip (c : Clip) : String := s!"{encStr c.text} {encBool c.lines}"

/-- insertion sort of the registers by name, for a canonical reply -/
def sortRegs (rs : List (Char × Clip)) : List (Char × Clip) :=
  rs.foldl (fun acc p =>
    (acc.takeWhile fun q => q.1.toNat < p.1.toNat) ++ p ::
      (acc.dropWhile fun q => q.1.toNat < p.1.toNat)) []

def encSt (s : St) : String :=
  let regs := sortRegs s.regs
  s!"{encStr s.text} {s.cur} {encClip s.clip} " ++
    encList (fun p => s!"{p.1.toNat} {encClip p.2}") regs ++ s!" {encBool s.insert}"


/-! ### sessions -/

def decKey : List String → Option Key
  | ["D", d] => do
      let n ← decNat d
      if h : n < 10 then pure (.digit ⟨n, h⟩) else none
  | ["O", name, reg] => do pure (.op (← decOp name (← decOptChar reg)))
  | "M" :: mot => do pure (.motion (← decMotion mot))
  | ["E"] => some .escape
  | ["C"] => some .ctrlO
  | ["U"] => some .unbound
  | ["T", t] => do pure (.typed (← decStr t))
  | ["B", ">>"] => some (.double .indent)
  | ["B", "<<"] => some (.double .unindent)
  | ["B", "guu"] => some (.double .lower)
  | ["B", "gUU"] => some (.double .upper)
  | ["B", "g~~"] => some (.double .swap)
  | _ => none

/-- split a token list at the separator token -/
def splitToks (sep : String) : List String → List (List String)
  | [] => [[]]
  | t :: ts =>
    match splitToks sep ts with
    | [] => [[t]]
    | g :: gs => if t == sep then [] :: g :: gs else (t :: g) :: gs

def encOptNat : Option Nat → String
  | none => "N"
  | some n => toString n

def encSess (full : Bool) (ss : Sess) : String :=
  if full then
    encSt ss.st ++ s!" P{encBool ss.pending.isSome} {encOptNat ss.opArg} {encOptNat ss.arg} " ++
      s!"{encBool ss.tempNav} " ++
      (match ss.lastFind with | none => "N" | some (c, bw) => s!"{c.toNat}:{encBool bw}")
  else encSt ss.st

/-- run the pieces; `.` emits the state (`full` for all emissions or only for the last one) -/
def runPieces (full : Bool) : Option Sess → List (List String) → List String → List String
  | _, [], acc => acc.reverse
  | cur, p :: ps, acc =>
    if p == ["."] then
      let isLast := ps.all (· != ["."])
      let out := match cur with
        | some ss => encSess (full || isLast) ss
        | none => "unmodelled"
      runPieces full cur ps (out :: acc)
    else
      match cur, decKey p with
      | some ss, some k => runPieces full (step env ss k) ps acc
      | none, some _ => runPieces full none ps acc
      | _, none => runPieces full none ps ("bad-key" :: acc)

def handleSess (toks : List String) : String :=
  match toks with
  | full :: t :: c :: ct :: cl :: lfc :: lfb :: ins :: tn :: "/" :: rest =>
    match decBool full, decStr t, decNat c, decStr ct, decBool cl, decOptChar lfc, decBool ins,
          decBool tn with
    | some full, some t, some c, some ct, some cl, some lfc, some ins, some tn =>
      let lf := match lfc with
        | some ch => some (ch, lfb == "1")
        | none => none
      let ss : Sess := { st := { text := t, cur := c, clip := { text := ct, lines := cl }, regs := [],
                                 insert := ins }, lastFind := lf, tempNav := tn }
      " | ".intercalate (runPieces full (some ss) (splitToks "/" rest) [])
    | _, _, _, _, _, _, _, _ => "bad-op"
  | _ => "bad-op"

/-! ### visual mode -/

def encSelType : SelType → String
  | .chars => "0"
  | .lines => "1"
  | .block => "2"

def encVClip (c : VClip) : String := s!"{encStr c.text} {encSelType c.ty}"

def sortVRegs (rs : List (Char × VClip)) : List (Char × VClip) :=
  rs.foldl (fun acc p =>
    (acc.takeWhile fun q => q.1.toNat < p.1.toNat) ++ p ::
      (acc.dropWhile fun q => q.1.toNat < p.1.toNat)) []

def encVSt (s : VSt) : String :=
  s!"{encStr s.text} {s.cur} {encVClip s.clip} " ++
    encList (fun p => s!"{p.1.toNat} {encVClip p.2}") (sortVRegs s.regs) ++ s!" {encBool s.insert}"

def decVKey : List String → Option VKey
  | ["D", d] => do
      let n ← decNat d
      if h : n < 10 then pure (.digit ⟨n, h⟩) else none
  | "M" :: mot => do pure (.motion (← decMotion mot))
  | ["J"] => some (.line true)
  | ["K"] => some (.line false)
  | _ => none

def handleVis (toks : List String) : String :=
  match toks with
  | t :: c :: ct :: cl :: lfc :: lfb :: ty :: "/" :: rest =>
    match decStr t, decNat c, decStr ct, decBool cl, decOptChar lfc with
    | some t, some c, some ct, some cl, some lfc =>
      let lf := match lfc with
        | some ch => some (ch, lfb == "1")
        | none => none
      let ty := if ty == "2" then SelType.block else if ty == "1" then SelType.lines else SelType.chars
      let s : St := { text := t, cur := c, clip := { text := ct, lines := cl }, regs := [], insert := false }
      let pieces := splitToks "/" rest
      match pieces.getLast?, pieces.dropLast.mapM decVKey with
      | some ["E"], some ks =>
        match visualEscape env s lf ty ks with
        | some s' => encVSt s'.toV ++ " S0"
        | none => "unmodelled"
      | some ["O", name, reg], some ks =>
        match decOptChar reg with
        | some reg =>
          match decOp name reg with
          | some op =>
            match visualKeys env s lf ty ks op with
            | some s' => encVSt s' ++ " S0"
            | none => "err"
          | none => "bad-op"
        | none => "bad-op"
      | _, _ => "bad-op"
    | _, _, _, _, _ => "bad-op"
  | _ => "bad-op"

def handle (toks : List String) : String :=
  match toks with
  | "vis" :: rest => handleVis rest
  | "sess" :: rest => handleSess rest
  | "e2e" :: t :: c :: ct :: cl :: oa :: opn :: reg :: ma :: mot =>
    match decStr t, decNat c, decStr ct, decBool cl, decOptNat oa, decOptChar reg, decOptNat ma,
          decMotion mot with
    | some t, some c, some ct, some cl, some oa, some reg, some ma, some m =>
      let s : St := { text := t, cur := c, clip := { text := ct, lines := cl }, regs := [],
                      insert := false }
      if opn == "gq" then
        match runReshapeKeys env 80 s oa ma (resolve none (oa.isSome || ma.isSome) m) with
        | some s' => encSt s'
        | none => "err"
      else
      match decOp opn reg with
      | some op =>
        match runKeys env s oa op ma (resolve none (oa.isSome || ma.isSome) m) with
        | some s' => encSt s'
        | none => "err"
      | none => "bad-op"
    | _, _, _, _, _, _, _, _ => "bad-op"
  | ["e2ep", t, c, ct, cl, fa, fk, fc, oa, opn, reg, ma, rev] =>
    match decStr t, decNat c, decStr ct, decBool cl, decOptNat fa, decMotion [fk, fc], decOptNat oa,
          decOptChar reg, decOptNat ma, decBool rev with
    | some t, some c, some ct, some cl, some fa, some fm, some oa, some reg, some ma, some rev =>
      match decOp opn reg with
      | some op =>
        let s : St := { text := t, cur := c, clip := { text := ct, lines := cl }, regs := [],
                        insert := false }
        match runKeysAfterFind env s fa fm oa op ma rev with
        | some s' => encSt s'
        | none => "err"
      | none => "bad-op"
    | _, _, _, _, _, _, _, _, _, _ => "bad-op"
  | ["mvp", t, c, fa, fk, fc, ma, rev] =>
    match decStr t, decNat c, decOptNat fa, decMotion [fk, fc], decOptNat ma, decBool rev with
    | some t, some c, some fa, some fm, some ma, some rev =>
      let s : St := { text := t, cur := c, clip := { text := [], lines := false }, regs := [],
                      insert := false }
      toString (moveAloneKeysAfterFind env s fa fm ma rev)
    | _, _, _, _, _, _ => "bad-op"
  | "mv" :: t :: c :: ma :: mot =>
    match decStr t, decNat c, decOptNat ma, decMotion mot with
    | some t, some c, some ma, some m =>
      let s : St := { text := t, cur := c, clip := { text := [], lines := false }, regs := [],
                      insert := false }
      toString (moveAloneKeys env s ma (resolve none ma.isSome m))
    | _, _, _, _ => "bad-op"
  | ["raw", t, c, s, e, ty] =>
    match decStr t, decNat c, decInt s, decInt e, decType ty with
    | some t, some c, some s, some e, some ty =>
      let d : Doc := { text := t, cur := c }
      let o : TextObject := { start := s, stop := e, type := ty }
      let r := operatorRange d o
      let ln := getLineNumbers d o
      let cutS := match cut d o with
        | some (d', cl) => s!"{encStr d'.text} {d'.cur} {encClip cl}"
        | none => "err"
      s!"{r.1} {r.2} {ln.1} {ln.2} {encBool (spansNothing d o)} {cutS}"
    | _, _, _, _, _ => "bad-op"
  | _ => "bad-op"

def main : IO Unit := Ptk.Proto.run handle
