import Ptk.Proto
import Ptk.Model.C12
import Ptk.Model.C12Orig
import Ptk.Model.C12Tree
import Ptk.Model.C12Session
open Ptk Ptk.Proto Ptk.C12

/-- `N` or a natural number -/
def decOptNat (tok : String) : Option (Option Nat) :=
  if tok == "N" then some none else tok.toNat?.map some

/-- four tokens `mn mx w pr` -/
def decSpec : List String → Option ((Option Nat × Option Nat × Option Nat × Option Nat) × List String)
  | a :: b :: c :: d :: rest => do
    pure ((← decOptNat a, ← decOptNat b, ← decOptNat c, ← decOptNat d), rest)
  | _ => none

def decSpecs : Nat → List String →
    Option (List (Option Nat × Option Nat × Option Nat × Option Nat) × List String)
  | 0, rest => some ([], rest)
  | n + 1, toks => do
    let (s, rest) ← decSpec toks
    let (ss, rest') ← decSpecs n rest
    pure (s :: ss, rest')

def decCountedSpecs : List String →
    Option (List (Option Nat × Option Nat × Option Nat × Option Nat) × List String)
  | n :: rest => do decSpecs (← decNat n) rest
  | [] => none

def decNats : List String → Option (List Nat)
  | toks => toks.mapM decNat

def encDim (d : Option Dim) : String :=
  match d with
  | none => "err:ValueError"
  | some d => s!"{d.min} {d.pref} {d.max} {d.weight}"

def decAlign (tok : String) : Option Align :=
  match tok with
  | "0" => some .start
  | "1" => some .center
  | "2" => some .stop
  | "3" => some .justify
  | _ => none

/-- the first fuel tried: above the number of loop iterations / generator micro-steps
    normally needed (each iteration that does not grow a child is followed by a growing one
    within `n * (maxW + 1)` yields); `untilAnswer` doubles it if it was not enough -/
def fuelFor (dims : List Dim) (avail : Nat) : Nat :=
  let n := dims.length
  let mw := maxOf (dims.map (·.weight))
  4 * (avail + 2) * (n + 2) * (mw + 2) + 64

def encOutcome : Outcome → String
  | .tooSmall => "small"
  | .hang => "err:Hang"
  | .error => "err:ValueError"
  | .ok sizes => "ok " ++ encList toString sizes

def encRegion (x y w h : Nat) : String :=
  if w = 0 ∨ h = 0 then "-" else s!"{x},{y},{w},{h}"

/-- the dimension of every filler window `Window(width=Dimension(preferred=0))`, as seen by the
    split (for HSplit its *height* is unspecified, for VSplit its width has preferred=0 — both
    report min 0, preferred 0, default max, default weight) -/
def fillerDim (horizontal : Bool) : Option Dim :=
  if horizontal then windowDim none none none none else windowDim none none none (some 0)

structure Req where
  horizontal : Bool      -- true = HSplit
  al : Align
  filler : Dim
  pad : Dim
  children : List Dim

def decReq (dir al : String) (rest : List String) : Option (Option Req × List String) := do
  let horizontal ← (if dir == "h" then some true else if dir == "v" then some false else none)
  let al ← decAlign al
  let (pad, rest) ← decSpec rest
  let (specs, rest) ← decCountedSpecs rest
  let mk := fun (s : Option Nat × Option Nat × Option Nat × Option Nat) =>
    windowDim s.1 s.2.1 s.2.2.1 s.2.2.2
  match fillerDim horizontal, mk pad, specs.mapM mk with
  | some f, some p, some cs =>
    pure (some { horizontal := horizontal, al := al, filler := f, pad := p, children := cs }, rest)
  | _, _, _ => pure (none, rest)

instance : Inhabited Outcome := ⟨.hang⟩

/-- Run the model with growing fuel until it answers.  `Ptk.Props.C12.divide_terminates`
    guarantees that this search stops for valid dimensions and `divide_fuel_independent` that the
    answer found is the answer for every larger fuel; the cap only protects the driver. -/
partial def untilAnswer (f : Nat → Outcome) (fuel : Nat) : Outcome :=
  match f fuel with
  | .hang => if fuel > 2 ^ 26 then .hang else untilAnswer f (2 * fuel)
  | r => r

def runDivide (r : Req) (avail : Nat) (done : Bool) : Outcome :=
  let all := allChildren r.al r.filler r.pad r.children
  untilAnswer (fun fuel =>
    if r.horizontal then divideH fuel r.al r.filler r.pad r.children avail done
    else divideV fuel r.al r.filler r.pad r.children avail) (fuelFor all avail)

/-- the pre-fix algorithm (`Ptk.Model.C12Orig`) on the same request; only meaningful — and only
    asked for by the harness — when every weight is positive, where
    `Ptk.Props.C12Orig.fix_preserves_positive` says it must agree with the fixed code -/
def runDivideOrig (r : Req) (avail : Nat) (done : Bool) : String :=
  let all := allChildren r.al r.filler r.pad r.children
  if all.any (·.weight == 0) then "n/a"
  else if r.horizontal then
    if r.children.isEmpty then encOutcome (.ok [])
    else encOutcome (untilAnswer (fun fuel => divideOrig fuel all avail (!done)) (fuelFor all avail))
  else if all.isEmpty then encOutcome (.ok [])
  else encOutcome (untilAnswer (fun fuel => divideOrig fuel all avail true) (fuelFor all avail))

/-- the pre-fix algorithm with ONE bounded run (no fuel doubling), for any weights:
    `err:Hang` when `8 * fuelFor` is not enough, `err:ValueError` when no weight is positive.
    Used to replay the defect F4 against a tree that does not have the fix. -/
def runDivideOrigBounded (r : Req) (avail : Nat) (done : Bool) : String :=
  let all := allChildren r.al r.filler r.pad r.children
  let fuel := 8 * fuelFor all avail
  if r.horizontal then
    if r.children.isEmpty then encOutcome (.ok [])
    else encOutcome (divideOrig fuel all avail (!done))
  else if all.isEmpty then encOutcome (.ok [])
  else encOutcome (divideOrig fuel all avail true)

def runLayout (r : Req) (x y w h : Nat) (done : Bool) : String :=
  if !r.horizontal && r.children.isEmpty then "nothing"
  else
    let avail := if r.horizontal then h else w
    match runDivide r avail done with
    | .tooSmall => "small " ++ encRegion x y w h
    | .hang => "err:Hang"
    | .error => "err:ValueError"
    | .ok sizes =>
      let start := if r.horizontal then y else x
      let (regs, rem) := layout start avail sizes
      let enc := fun (p : Nat × Nat) =>
        if r.horizontal then encRegion x p.1 w p.2 else encRegion p.1 y p.2 h
      "ok " ++ encList enc regs ++ " rem:" ++ (match rem with | none => "-" | some p => enc p)

/-! nested containers: prefix notation
    `W id <spec w> <spec h>` | `H al <spec pad> n node*` | `V al <spec pad> n node*` -/

def specDim (s : Option Nat × Option Nat × Option Nat × Option Nat) : Option Dim :=
  windowDim s.1 s.2.1 s.2.2.1 s.2.2.2

mutual
partial def parseNode : List String → Option (Node × List String)
  | "W" :: id :: rest => do
    let id ← decNat id
    let (sw, rest) ← decSpec rest
    let (sh, rest) ← decSpec rest
    pure (.win id (← specDim sw) (← specDim sh), rest)
  | "H" :: al :: rest => do
    let al ← decAlign al
    let (sp, rest) ← decSpec rest
    match rest with
    | n :: rest =>
      let (cs, rest) ← parseNodes (← decNat n) rest
      pure (.hsplit al (← specDim sp) cs, rest)
    | [] => none
  | "V" :: al :: rest => do
    let al ← decAlign al
    let (sp, rest) ← decSpec rest
    match rest with
    | n :: rest =>
      let (cs, rest) ← parseNodes (← decNat n) rest
      pure (.vsplit al (← specDim sp) cs, rest)
    | [] => none
  | _ => none
partial def parseNodes : Nat → List String → Option (List Node × List String)
  | 0, rest => some ([], rest)
  | n + 1, toks => do
    let (c, rest) ← parseNode toks
    let (cs, rest) ← parseNodes n rest
    pure (c :: cs, rest)
end

def encTag : Tag → String
  | .user id => s!"u{id}"
  | .pad => "p"
  | .filler => "f"
  | .remaining => "r"
  | .tooSmall => "s"

/-- grow the fuel until every inner division answers (cf. `untilAnswer`) -/
partial def untilSome {α : Type} (f : Nat → Option α) (fuel : Nat) : Option α :=
  match f fuel with
  | some a => some a
  | none => if fuel > 2 ^ 24 then none else untilSome f (2 * fuel)

def rootTag : Node → Tag
  | .win id _ _ => .user id
  | _ => .user 0

/-! one split object, several calls: `sess h|v k (al done avail <spec pad> n (id <spec>)*)^k` -/

def decIdSpecs : Nat → List String → Option (List (Nat × Dim) × List String)
  | 0, rest => some ([], rest)
  | n + 1, id :: rest => do
    let id ← decNat id
    let (sp, rest) ← decSpec rest
    let d ← specDim sp
    let (more, rest) ← decIdSpecs n rest
    pure ((id, d) :: more, rest)
  | _, _ => none

def decCalls : Nat → List String → Option (List Call × List String)
  | 0, rest => some ([], rest)
  | k + 1, al :: done :: avail :: rest => do
    let al ← decAlign al
    let done ← decBool done
    let avail ← decNat avail
    let (sp, rest) ← decSpec rest
    let pad ← specDim sp
    match rest with
    | n :: rest =>
      let (cs, rest) ← decIdSpecs (← decNat n) rest
      let (more, rest) ← decCalls k rest
      pure ({ ids := cs.map (·.1), al := al, pad := pad, dims := cs.map (·.2), avail := avail,
              done := done } :: more, rest)
    | [] => none
  | _, _ => none

instance : BEq Outcome := ⟨fun a b => decide (a = b)⟩

partial def sessionUntilAnswer (f : Nat → List Outcome) (fuel : Nat) : List Outcome :=
  let r := f fuel
  if r.any (· == .hang) && fuel ≤ 2 ^ 26 then sessionUntilAnswer f (2 * fuel) else r

def handle : List String → String
  | ["dim", a, b, c, d] =>
    match decSpec [a, b, c, d] with
    | some ((mn, mx, w, pr), _) => encDim (mkDim mn mx w pr)
    | none => "bad-op"
  | ["win", a, b, c, d] =>
    match decSpec [a, b, c, d] with
    | some ((mn, mx, w, pr), _) => encDim (windowDim mn mx w pr)
    | none => "bad-op"
  | "sum" :: rest =>
    match decCountedSpecs rest with
    | some (specs, []) =>
      match specs.mapM fun s => mkDim s.1 s.2.1 s.2.2.1 s.2.2.2 with
      | some ds => encDim (sumDims ds)
      | none => "err:ValueError"
    | _ => "bad-op"
  | "max" :: rest =>
    match decCountedSpecs rest with
    | some (specs, []) =>
      match specs.mapM fun s => mkDim s.1 s.2.1 s.2.2.1 s.2.2.2 with
      | some ds => encDim (maxDims ds)
      | none => "err:ValueError"
    | _ => "bad-op"
  | "take" :: k :: ws =>
    match decNat k, decNats ws with
    | some k, some ws =>
      let g := Gen.init (List.range ws.length) ws
      if g.ws.isEmpty then "err:ValueError"
      else
        match Gen.takeN (4 * (ws.length + 2) * (g.maxW + 2)) k g with
        | some xs => "ok " ++ encList toString xs
        | none => "err:Hang"
    | _, _ => "bad-op"
  | "div" :: dir :: al :: done :: avail :: rest =>
    match decBool done, decNat avail, decReq dir al rest with
    | some done, some avail, some (some r, []) => encOutcome (runDivide r avail done)
    | some _, some _, some (none, []) => "err:ValueError"
    | _, _, _ => "bad-op"
  | "odiv" :: dir :: al :: done :: avail :: rest =>
    match decBool done, decNat avail, decReq dir al rest with
    | some done, some avail, some (some r, []) => runDivideOrig r avail done
    | some _, some _, some (none, []) => "err:ValueError"
    | _, _, _ => "bad-op"
  | "odivz" :: dir :: al :: done :: avail :: rest =>
    match decBool done, decNat avail, decReq dir al rest with
    | some done, some avail, some (some r, []) => runDivideOrigBounded r avail done
    | some _, some _, some (none, []) => "err:ValueError"
    | _, _, _ => "bad-op"
  | "sess" :: dir :: k :: rest =>
    match decNat k with
    | some k =>
      match decCalls k rest, fillerDim (dir == "h") with
      | some (calls, []), some filler =>
        let start := calls.foldl (fun m c => Nat.max m
          (fuelFor (allChildren c.al filler c.pad c.dims) c.avail)) 64
        " ; ".intercalate ((sessionUntilAnswer
          (fun fuel => runSession fuel (dir == "h") filler none calls) start).map encOutcome)
      | _, _ => "bad-op"
    | none => "bad-op"
  | "tree" :: x :: y :: w :: h :: rest =>
    match decNats [x, y, w, h], parseNode rest with
    | some [x, y, w, h], some (n, []) =>
      match untilSome (fun fuel => render fuel (n.depth + 1) (rootTag n) n ⟨x, y, w, h⟩)
          (64 * (w + h + 4)) with
      | some rs => "ok " ++ encList (fun (p : Tag × Rect) =>
          s!"{encTag p.1}:{p.2.x},{p.2.y},{p.2.w},{p.2.h}") rs
      | none => "err:Hang"
    | _, _ => "bad-op"
  | "tpw" :: avail :: rest =>
    match decNat avail, parseNode rest with
    | some avail, some (n, []) =>
      encDim (untilSome (fun fuel => prefW fuel (n.depth + 1) n avail) (64 * (avail + 4)))
    | _, _ => "bad-op"
  | "tph" :: width :: availH :: rest =>
    match decNat width, decNat availH, parseNode rest with
    | some width, some availH, some (n, []) =>
      encDim (untilSome (fun fuel => prefH fuel (n.depth + 1) n width availH)
        (64 * (width + availH + 4)))
    | _, _, _ => "bad-op"
  | "lay" :: dir :: al :: done :: x :: y :: w :: h :: rest =>
    match decBool done, decNats [x, y, w, h], decReq dir al rest with
    | some done, some [x, y, w, h], some (some r, []) => runLayout r x y w h done
    | some _, some _, some (none, []) => "err:ValueError"
    | _, _, _ => "bad-op"
  | _ => "bad-op"

def main : IO Unit := Ptk.Proto.run handle
