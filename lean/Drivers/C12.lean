import Ptk.Proto
import Ptk.Model.C12
import Ptk.Model.C12Orig
import Ptk.Model.C12Tree
import Ptk.Model.C12Session
import Ptk.Model.C12Steps
open Ptk Ptk.Proto Ptk.C12

/-- `N` or a natural number -/
def decOptNat (tok : String) : Option (Option Nat) :=
  if tok == "N" then some none else tok.toNat?.map some

/-- four tokens `mn mx w pr` -/
def decSpec : List String → Option ((Option Nat × Option Nat × Option Nat × Option Nat) × List String)
  | a :: b :: c :: d :: rest => do
    pure ((← decOptNat a, ← decOptNat b, ← decOptNat c, ← decOptNat d), rest)
  | _ => none

def decSpecs : Nat → List String →
    Option (List (Option Nat × Option Nat × Option Nat × Option Nat) × List String)
  | 0, rest => some ([], rest)
  | n + 1, toks => do
    let (s, rest) ← decSpec toks
    let (ss, rest') ← decSpecs n rest
    pure (s :: ss, rest')

def decCountedSpecs : List String →
    Option (List (Option Nat × Option Nat × Option Nat × Option Nat) × List String)
  | n :: rest => do decSpecs (← decNat n) rest
  | [] => none

def decNats : List String → Option (List Nat)
  | toks => toks.mapM decNat

def encDim (d : Option Dim) : String :=
  match d with
  | none => "err:ValueError"
  | some d => s!"{d.min} {d.pref} {d.max} {d.weight}"

def decAlign (tok : String) : Option Align :=
  match tok with
  | "0" => some .start
  | "1" => some .center
  | "2" => some .stop
  | "3" => some .justify
  | _ => none

def encOutcome : Outcome → String
  | .tooSmall => "small"
  | .hang => "err:Hang"
  | .error => "err:ValueError"
  | .ok sizes => "ok " ++ encList toString sizes

def encRegion (x y w h : Nat) : String :=
  if w = 0 ∨ h = 0 then "-" else s!"{x},{y},{w},{h}"

/-- the dimension of every filler window `Window(width=Dimension(preferred=0))`, as seen by the
    split (for HSplit its *height* is unspecified, for VSplit its width has preferred=0 — both
    report min 0, preferred 0, default max, default weight) -/
def fillerDim (horizontal : Bool) : Option Dim :=
  if horizontal then windowDim none none none none else windowDim none none none (some 0)

structure Req where
  horizontal : Bool      -- true = HSplit
  al : Align
  filler : Dim
  pad : Dim
  children : List Dim

def decReq (dir al : String) (rest : List String) : Option (Option Req × List String) := do
  let horizontal ← (if dir == "h" then some true else if dir == "v" then some false else none)
  let al ← decAlign al
  let (pad, rest) ← decSpec rest
  let (specs, rest) ← decCountedSpecs rest
  let mk := fun (s : Option Nat × Option Nat × Option Nat × Option Nat) =>
    windowDim s.1 s.2.1 s.2.2.1 s.2.2.2
  match fillerDim horizontal, mk pad, specs.mapM mk with
  | some f, some p, some cs =>
    pure (some { horizontal := horizontal, al := al, filler := f, pad := p, children := cs }, rest)
  | _, _, _ => pure (none, rest)

instance : Inhabited Outcome := ⟨.hang⟩

/-- ONE run of the counted model with the proved fuel `fuelBound`
    (`Ptk.Props.C12Fuel.divide_terminates_bound`: never `.hang` for valid dimensions;
    `divideC_fst`: the first component is `divide`).  Second component: the number of loop
    iterations, i.e. of `next(generator)` calls in `_grow_sizes`. -/
def runDivideC (r : Req) (avail : Nat) (done : Bool) : Outcome × Nat :=
  let all := allChildren r.al r.filler r.pad r.children
  let fuel := fuelBound all avail
  if r.horizontal then divideHC fuel r.al r.filler r.pad r.children avail done
  else divideVC fuel r.al r.filler r.pad r.children avail

def runDivide (r : Req) (avail : Nat) (done : Bool) : Outcome := (runDivideC r avail done).1

/-- the pre-fix algorithm (`Ptk.Model.C12Orig`) on the same request; only meaningful — and only
    asked for by the harness — when every weight is positive, where
    `Ptk.Props.C12Orig.fix_preserves_positive` says it must agree with the fixed code and
    `Ptk.Props.C12OrigFuel.divideOrig_terminates_bound` that ONE run with `fuelBound` answers -/
def runDivideOrig (r : Req) (avail : Nat) (done : Bool) : String :=
  let all := allChildren r.al r.filler r.pad r.children
  if all.any (·.weight == 0) then "n/a"
  else if r.horizontal then
    if r.children.isEmpty then encOutcome (.ok [])
    else encOutcome (divideOrig (fuelBound all avail) all avail (!done))
  else if all.isEmpty then encOutcome (.ok [])
  else encOutcome (divideOrig (fuelBound all avail) all avail true)

/-- the pre-fix algorithm with ONE bounded run (no fuel doubling), for any weights:
    `err:Hang` when `8 * fuelBound` is not enough, `err:ValueError` when no weight is positive.
    Used to replay the defect F4 against a tree that does not have the fix. -/
def runDivideOrigBounded (r : Req) (avail : Nat) (done : Bool) : String :=
  let all := allChildren r.al r.filler r.pad r.children
  let fuel := 8 * fuelBound all avail
  if r.horizontal then
    if r.children.isEmpty then encOutcome (.ok [])
    else encOutcome (divideOrig fuel all avail (!done))
  else if all.isEmpty then encOutcome (.ok [])
  else encOutcome (divideOrig fuel all avail true)

def runLayout (r : Req) (x y w h : Nat) (done : Bool) : String :=
  if !r.horizontal && r.children.isEmpty then "nothing"
  else
    let avail := if r.horizontal then h else w
    match runDivide r avail done with
    | .tooSmall => "small " ++ encRegion x y w h
    | .hang => "err:Hang"
    | .error => "err:ValueError"
    | .ok sizes =>
      let start := if r.horizontal then y else x
      let (regs, rem) := layout start avail sizes
      let enc := fun (p : Nat × Nat) =>
        if r.horizontal then encRegion x p.1 w p.2 else encRegion p.1 y p.2 h
      "ok " ++ encList enc regs ++ " rem:" ++ (match rem with | none => "-" | some p => enc p)

/-! nested containers: prefix notation
    `W id <spec w> <spec h>` | `H al <spec pad> n node*` | `V al <spec pad> n node*` -/

def specDim (s : Option Nat × Option Nat × Option Nat × Option Nat) : Option Dim :=
  windowDim s.1 s.2.1 s.2.2.1 s.2.2.2

mutual
partial def parseNode : List String → Option (Node × List String)
  | "W" :: id :: rest => do
    let id ← decNat id
    let (sw, rest) ← decSpec rest
    let (sh, rest) ← decSpec rest
    pure (.win id (← specDim sw) (← specDim sh), rest)
  | "H" :: al :: rest => do
    let al ← decAlign al
    let (sp, rest) ← decSpec rest
    match rest with
    | n :: rest =>
      let (cs, rest) ← parseNodes (← decNat n) rest
      pure (.hsplit al (← specDim sp) cs, rest)
    | [] => none
  | "V" :: al :: rest => do
    let al ← decAlign al
    let (sp, rest) ← decSpec rest
    match rest with
    | n :: rest =>
      let (cs, rest) ← parseNodes (← decNat n) rest
      pure (.vsplit al (← specDim sp) cs, rest)
    | [] => none
  | "X" :: id :: rest => do
    -- `X id <spec w> <spec h> cw ch dew deh`: a window with content and `dont_extend_*`
    let id ← decNat id
    let (sw, rest) ← decSpec rest
    let (sh, rest) ← decSpec rest
    match rest with
    | cw :: ch :: dew :: deh :: rest =>
      pure (.winx id ⟨sw.1, sw.2.1, sw.2.2.1, sw.2.2.2⟩ ⟨sh.1, sh.2.1, sh.2.2.1, sh.2.2.2⟩
        (← decOptNat cw) (← decOptNat ch) (← decBool dew) (← decBool deh), rest)
    | _ => none
  | "C" :: on :: rest => do
    let on ← decBool on
    let (c, rest) ← parseNode rest
    pure (.cond on c, rest)
  | "Y" :: rest => do
    -- `DynamicContainer(lambda: node)`: pure delegation = a container without explicit sizes
    let (c, rest) ← parseNode rest
    pure (.sized none none c, rest)
  | "S" :: fw :: rest => do
    -- `S fw <spec w> fh <spec h> node`: explicit `width=` / `height=` on the split `node`
    let fw ← decBool fw
    let (sw, rest) ← decSpec rest
    match rest with
    | fh :: rest =>
      let fh ← decBool fh
      let (sh, rest) ← decSpec rest
      let (c, rest) ← parseNode rest
      let w ← (if fw then (mkDim sw.1 sw.2.1 sw.2.2.1 sw.2.2.2).map some else some none)
      let h ← (if fh then (mkDim sh.1 sh.2.1 sh.2.2.1 sh.2.2.2).map some else some none)
      pure (.sized w h c, rest)
    | [] => none
  | _ => none
partial def parseNodes : Nat → List String → Option (List Node × List String)
  | 0, rest => some ([], rest)
  | n + 1, toks => do
    let (c, rest) ← parseNode toks
    let (cs, rest) ← parseNodes n rest
    pure (c :: cs, rest)
end

def encTag : Tag → String
  | .user id => s!"u{id}"
  | .pad => "p"
  | .filler => "f"
  | .remaining => "r"
  | .tooSmall => "s"

def rootTag : Node → Tag := tagOf

/-! one split object, several calls: `sess h|v k (al done avail <spec pad> n (id <spec>)*)^k` -/

def decIdSpecs : Nat → List String → Option (List (Nat × Dim) × List String)
  | 0, rest => some ([], rest)
  | n + 1, id :: rest => do
    let id ← decNat id
    let (sp, rest) ← decSpec rest
    let d ← specDim sp
    let (more, rest) ← decIdSpecs n rest
    pure ((id, d) :: more, rest)
  | _, _ => none

def decCalls : Nat → List String → Option (List Call × List String)
  | 0, rest => some ([], rest)
  | k + 1, al :: done :: pc :: avail :: rest => do
    let al ← decAlign al
    let done ← decBool done
    let pc ← decBool pc
    let avail ← decNat avail
    let (sp, rest) ← decSpec rest
    let pad ← specDim sp
    match rest with
    | n :: rest =>
      let (cs, rest) ← decIdSpecs (← decNat n) rest
      let (more, rest) ← decCalls k rest
      pure ({ ids := cs.map (·.1), al := al, pad := pad, dims := cs.map (·.2), avail := avail,
              done := done, padCall := pc } :: more, rest)
    | [] => none
  | _, _ => none

/-- `N` | `I n` | `D <spec>` | `F <anydim>` (a callable returning ...) -/
partial def parseAnyDim : List String → Option (AnyDim × List String)
  | "N" :: rest => some (.none, rest)
  | "I" :: n :: rest => do pure (.int (← decNat n), rest)
  | "D" :: rest => do
    let (s, rest) ← decSpec rest
    pure (.dim ⟨s.1, s.2.1, s.2.2.1, s.2.2.2⟩, rest)
  | "F" :: rest => do
    let (f, rest) ← parseAnyDim rest
    pure (.call f, rest)
  | _ => none

def handle : List String → String
  | ["dim", a, b, c, d] =>
    match decSpec [a, b, c, d] with
    | some ((mn, mx, w, pr), _) => encDim (mkDim mn mx w pr)
    | none => "bad-op"
  | ["win", a, b, c, d] =>
    match decSpec [a, b, c, d] with
    | some ((mn, mx, w, pr), _) => encDim (windowDim mn mx w pr)
    | none => "bad-op"
  | ["mrg", a, b, c, d, content, de] =>
    -- `Window._merge_dimensions(Dimension(a, b, c, d), lambda: content, de)`
    match decSpec [a, b, c, d], decOptNat content, decBool de with
    | some ((mn, mx, w, pr), _), some content, some de => encDim (mergeDims ⟨mn, mx, w, pr⟩ content de)
    | _, _, _ => "bad-op"
  | "todim" :: rest =>
    match parseAnyDim rest with
    | some (a, []) =>
      match toDimension a with
      | some d => encDim (some d) ++ (if d.isZero then " zero" else " nonzero")
      | none => "err:ValueError"
    | _ => "bad-op"
  | "sum" :: rest =>
    match decCountedSpecs rest with
    | some (specs, []) =>
      match specs.mapM fun s => mkDim s.1 s.2.1 s.2.2.1 s.2.2.2 with
      | some ds => encDim (sumDims ds)
      | none => "err:ValueError"
    | _ => "bad-op"
  | "max" :: rest =>
    match decCountedSpecs rest with
    | some (specs, []) =>
      match specs.mapM fun s => mkDim s.1 s.2.1 s.2.2.1 s.2.2.2 with
      | some ds => encDim (maxDims ds)
      | none => "err:ValueError"
    | _ => "bad-op"
  | "take" :: k :: ws =>
    match decNat k, decNats ws with
    | some k, some ws =>
      let g := Gen.init (List.range ws.length) ws
      if g.ws.isEmpty then "err:ValueError"
      else
        match Gen.takeN (4 * (ws.length + 2) * (g.maxW + 2)) k g with
        | some xs => "ok " ++ encList toString xs
        | none => "err:Hang"
    | _, _ => "bad-op"
  | "div" :: dir :: al :: done :: avail :: rest =>
    match decBool done, decNat avail, decReq dir al rest with
    | some done, some avail, some (some r, []) =>
      -- sizes, the number of loop iterations performed, and the proved bound for this input
      let (o, it) := runDivideC r avail done
      let all := if r.horizontal && r.children.isEmpty then [] else allChildren r.al r.filler r.pad r.children
      match o with
      | .ok _ => encOutcome o ++ s!" it={it} bound={stepBound all avail}"
      | _ => encOutcome o
    | some _, some _, some (none, []) => "err:ValueError"
    | _, _, _ => "bad-op"
  | "bnd" :: dir :: al :: _done :: avail :: rest =>
    -- the proved bounds only (the model is NOT run): used for inputs with huge weights, where
    -- `Ptk.Props.C12Slow.slow_hangs` shows that the loops really need that many iterations
    match decNat avail, decReq dir al rest with
    | some avail, some (some r, []) =>
      let all := if r.horizontal && r.children.isEmpty then [] else allChildren r.al r.filler r.pad r.children
      s!"bound={stepBound all avail} fuel={fuelBound all avail}"
    | some _, some (none, []) => "err:ValueError"
    | _, _ => "bad-op"
  | "odiv" :: dir :: al :: done :: avail :: rest =>
    match decBool done, decNat avail, decReq dir al rest with
    | some done, some avail, some (some r, []) => runDivideOrig r avail done
    | some _, some _, some (none, []) => "err:ValueError"
    | _, _, _ => "bad-op"
  | "odivz" :: dir :: al :: done :: avail :: rest =>
    match decBool done, decNat avail, decReq dir al rest with
    | some done, some avail, some (some r, []) => runDivideOrigBounded r avail done
    | some _, some _, some (none, []) => "err:ValueError"
    | _, _, _ => "bad-op"
  | "sess" :: dir :: k :: rest =>
    match decNat k with
    | some k =>
      match decCalls k rest, fillerDim (dir == "h") with
      | some (calls, []), some filler =>
        " ; ".intercalate ((runSessionB (dir == "h") filler none calls).map encOutcome)
      | _, _ => "bad-op"
    | none => "bad-op"
  | "tree" :: x :: y :: w :: h :: rest =>
    match decNats [x, y, w, h], parseNode rest with
    | some [x, y, w, h], some (n, []) =>
      -- ONE run with the proved fuel (`Ptk.Props.C12TreeFuel.render_treeFuel`)
      match render (treeFuel n w h) (n.depth + 1) (rootTag n) n ⟨x, y, w, h⟩ with
      | some rs => "ok " ++ encList (fun (p : Tag × Rect) =>
          s!"{encTag p.1}:{p.2.x},{p.2.y},{p.2.w},{p.2.h}") rs
      | none => "err:Hang"
    | _, _ => "bad-op"
  | "tpw" :: avail :: rest =>
    match decNat avail, parseNode rest with
    | some avail, some (n, []) =>
      encDim (prefW 0 (n.depth + 1) n avail)   -- `prefW_total`: no division, no fuel needed
    | _, _ => "bad-op"
  | "tph" :: width :: availH :: rest =>
    match decNat width, decNat availH, parseNode rest with
    | some width, some availH, some (n, []) =>
      encDim (prefH (treeFuel n width availH) (n.depth + 1) n width availH)   -- `prefH_treeFuel`
    | _, _, _ => "bad-op"
  | "lay" :: dir :: al :: done :: x :: y :: w :: h :: rest =>
    match decBool done, decNats [x, y, w, h], decReq dir al rest with
    | some done, some [x, y, w, h], some (some r, []) => runLayout r x y w h done
    | some _, some _, some (none, []) => "err:ValueError"
    | _, _, _ => "bad-op"
  | _ => "bad-op"

def main : IO Unit := Ptk.Proto.run handle
