import Ptk.Proto
import Ptk.Model.C17
import Ptk.Model.C17Buf
import Ptk.Model.C17Flush
open Ptk Ptk.Py Ptk.Proto Ptk.C17

/-! Line protocol of the C17 driver.

  key press = integer: -1 accept (Enter), -2 abort (c-c), -3 CPR response, -4 c-j,
  n ≥ 0 = `other n` (n < 0x110000: the character, else an editing key, see `Ed`).

  stateful commands (reply = the observable state):
    init k r | W n k1..kn | S | R n | F | E   (r = output answers CPR requests; S is ignored once
                                                k prompts have finished; E = the CPR wait ends)
  one-shot:
    E2E k r <events…>   events: w n k1..kn | s | r n | f | e
      reply: results and the unconsumed keys
-/

def decKey (t : String) : Option Key := do
  let i ← decInt t
  if i = -1 then pure .accept
  else if i = -2 then pure .abort
  else if i = -3 then pure .cpr
  else if i = -4 then pure .cj
  else if i ≥ 0 then pure (.other i.toNat)
  else none

def encKey : Key → String
  | .accept => "-1"
  | .abort => "-2"
  | .cpr => "-3"
  | .cj => "-4"
  | .other n => toString n

def encKeys (l : List Key) : String := encList encKey l

/-- take `n` keys from the token list -/
def takeKeys : Nat → List String → Option (List Key × List String)
  | 0, ts => some ([], ts)
  | _ + 1, [] => none
  | n + 1, t :: ts => do
    let k ← decKey t
    let (ks, rest) ← takeKeys n ts
    pure (k :: ks, rest)

def encRes (r : Res) : String :=
  let e := Ed.render r.1
  s!"{encKey r.2}:{encStr e.text}"

def showSt (s : St) : String :=
  let e := Ed.render s.kp.applied
  let d := match s.kp.done with | none => "N" | some k => encKey k
  let cur : String := if s.running then s!"{encStr e.text} {e.cur}" else "- -"
  s!"run={encBool s.running} ex={encBool s.exiting} w={s.kp.waiting} done={d} buf={cur} q={encKeys s.kp.queue} ta={encKeys s.typeahead} res={encList encRes s.results}"

/-- `start`, and when the typeahead already contained an accepting key the `await f`
    does not yield: the exit path runs before anything else can happen. -/
def startEv (s : St) : St :=
  if s.running || s.exiting then s else
  let s1 := step s .start
  if s1.kp.done.isSome then step s1 .finish else s1

/-- the harness lets the loop run until the finished application has left: everything that is
    readable is read first (only while CPR answers are outstanding), then the wait ends -/
def endWaitEv (s : St) : St :=
  if !s.exiting then s else
  let s1 := if 0 < s.kp.waiting && !s.pipe.isEmpty then step s (.read 1000000) else s
  step s1 .endWait

/-! second layer (`Ptk.C17.Buf` with the concrete emacs registry): commands
     Binit k | BW n k1..kn | BS | BR n | BT | BF      and     BE2E k <events…> (w/s/r/t/f) -/
namespace B
open Ptk.C17.Buf

abbrev BSt := Buf.St Emacs.S
def T := Emacs.tbl
def flushCode : Nat := 0x110000 + 998

def encQK : QK → String
  | some k => encKey k
  | none => toString flushCode

/-- how the application ended: the abort handler (c-c) was called, or an accepting one -/
def kindOf (tr : List Disp) : String :=
  if tr.any (fun d => match d with
      | .call ks _ => ks.getLast? == some Key.abort
      | .drop _ => false) then "-2" else "-1"

def encResB (r : List Disp × Emacs.S) : String := s!"{kindOf r.1}:{encStr r.2.e.text}"

def showB (s : BSt) : String :=
  let d := if s.kp.done then (if s.kp.crashed then "X" else kindOf s.kp.trace) else "N"
  let cur : String := if s.running then s!"{encStr s.kp.ed.e.text} {s.kp.ed.e.cur}" else "- -"
  let arg : String := if !s.running then "-" else match s.kp.arg with | none => "N" | some a => toString a
  s!"run={encBool s.running} done={d} buf={cur} arg={arg} kb={encKeys s.kp.buffer} q={encList encQK s.kp.queue} ta={encList encQK s.typeahead} res={encList encResB s.results}"

def startEvB (s : BSt) : BSt :=
  if s.running then s else
  let s1 := Buf.step T s .start
  if s1.kp.done then Buf.step T s1 .finish else s1

/-- the flush timer fires; when the flushed key ends the application, `await f` returns -/
def timeoutEvB (s : BSt) : BSt :=
  let s1 := Buf.step T s .timeout
  if s1.kp.done && !s.kp.done then Buf.step T s1 .finish else s1

def initB : BSt := Buf.St.init ⟨⟨[], 0⟩, false⟩

def goB (k : Nat) : Nat → BSt → List String → Option BSt
  | 0, _, _ => none
  | fuel + 1, st, ts =>
    match ts with
    | [] => some st
    | "s" :: ts => goB k fuel (if st.results.length < k then startEvB st else st) ts
    | "f" :: ts => goB k fuel (Buf.step T st .finish) ts
    | "t" :: ts => goB k fuel (timeoutEvB st) ts
    | "r" :: n :: ts =>
      match decNat n with
      | some n => goB k fuel (Buf.step T st (.read n)) ts
      | none => none
    | "w" :: n :: ts =>
      match decNat n with
      | some n =>
        match takeKeys n ts with
        | some (ks, rest) => goB k fuel (Buf.step T st (.write ks)) rest
        | none => none
      | none => none
    | _ => none

end B

/-! third layer (`Ptk.C17.Flush`):  FL T <events…>   events: r t n p1..pn | m t
     pieces: k<key code> | h<k> | t<k>;  reply = what the input object delivered -/
namespace FL
open Ptk.C17.Flush

def decPiece (t : String) : Option Piece :=
  if t.startsWith "k" then (decKey (t.drop 1).toString).map Piece.key
  else if t.startsWith "h" then (decNat (t.drop 1).toString).map Piece.head
  else if t.startsWith "t" then (decNat (t.drop 1).toString).map Piece.tail
  else none

def takePieces : Nat → List String → Option (List Piece × List String)
  | 0, ts => some ([], ts)
  | _ + 1, [] => none
  | n + 1, t :: ts => do
    let p ← decPiece t
    let (ps, rest) ← takePieces n ts
    pure (p :: ps, rest)

def encOut : Out → String
  | .key k => encKey k
  | .esc => toString (0x110000 + 12)
  | .junk k => s!"J{k}"

def go : Nat → P → List String → Option P
  | 0, _, _ => none
  | fuel + 1, p, ts =>
    match ts with
    | [] => some p
    | "m" :: t :: ts => (decNat t).bind fun t => go fuel (Flush.step p (.timer t)) ts
    | "r" :: t :: n :: ts =>
      match decNat t, decNat n with
      | some t, some n =>
        match takePieces n ts with
        | some (ps, rest) => go fuel (Flush.step p (.read t ps)) rest
        | none => none
      | _, _ => none
    | _ => none

def handle (toks : List String) : String :=
  match toks with
  | T :: evs =>
    match decNat T with
    | some T =>
      match go (evs.length + 1) (P.init T) evs with
      | some p => s!"out={encList encOut p.out}"
      | none => "bad-op"
    | none => "bad-op"
  | _ => "bad-op"

end FL

/-- driver state: the model state and the number of prompts the harness will start -/
abbrev DS := (St × Nat) × B.BSt

def stepLineB (bs : B.BSt) (kmax : Nat) (toks : List String) : Option B.BSt :=
  match toks with
  | "BW" :: n :: rest =>
    match decNat n with
    | some n =>
      match takeKeys n rest with
      | some (ks, []) => some (Buf.step B.T bs (.write ks))
      | _ => none
    | none => none
  | ["BS"] => some (if bs.results.length < kmax then B.startEvB bs else bs)
  | ["BR", n] => (decNat n).map fun n => Buf.step B.T bs (.read n)
  | ["BT"] => some (B.timeoutEvB bs)
  | ["BF"] => some (Buf.step B.T bs .finish)
  | _ => none

def stepLine (ds : DS) (toks : List String) : DS × String :=
  let s := ds.1.1
  let kmax := ds.1.2
  let ret (s' : St) : DS × String := (((s', kmax), ds.2), showSt s')
  let bad : DS × String := (ds, "bad-op")
  match toks with
  | ["init", k, r] =>
    match decNat k, decBool r with
    | some k, some r => (((St.init r, k), ds.2), showSt (St.init r))
    | _, _ => bad
  | ["Binit", k] =>
    match decNat k with
    | some k => (((s, k), B.initB), B.showB B.initB)
    | none => bad
  | "BE2E" :: k :: evs =>
    match decNat k with
    | none => bad
    | some k =>
      match B.goB k (evs.length + 1) B.initB evs with
      | some st =>
        let left := st.kp.buffer.map some ++ st.typeahead ++ Buf.dropCprQ st.kp.queue ++ (dropCpr st.pipe).map some
        let left := left.filter (fun q => q.isSome)
        (ds, s!"run={encBool st.running} res={encList B.encResB st.results} left={encList B.encQK left}")
      | none => bad
  | "W" :: n :: rest =>
    match decNat n with
    | some n =>
      match takeKeys n rest with
      | some (ks, []) => ret (step s (.write ks))
      | _ => bad
    | none => bad
  | ["S"] => ret (if s.results.length < kmax then startEv s else s)
  | ["R", n] =>
    match decNat n with
    | some n => ret (step s (.read n))
    | none => bad
  | ["F"] => ret (step s .finish)
  | ["E"] => ret (endWaitEv s)
  | ["A"] => ret s                       -- virtual time passes: nothing in the first layer
  | "FL" :: rest => (ds, FL.handle rest)
  | "E2E" :: k :: r :: evs =>
    match decNat k, decBool r with
    | none, _ => bad
    | _, none => bad
    | some k, some r =>
      let rec go (fuel : Nat) (st : St) (ts : List String) : Option St :=
        match fuel with
        | 0 => none
        | fuel + 1 =>
          match ts with
          | [] => some st
          | "s" :: ts => go fuel (if st.results.length < k then startEv st else st) ts
          | "f" :: ts => go fuel (step st .finish) ts
          | "e" :: ts => go fuel (endWaitEv st) ts
          | "r" :: n :: ts =>
            match decNat n with
            | some n => go fuel (step st (.read n)) ts
            | none => none
          | "w" :: n :: ts =>
            match decNat n with
            | some n =>
              match takeKeys n ts with
              | some (ks, rest) => go fuel (step st (.write ks)) rest
              | none => none
            | none => none
          | _ => none
      match go (evs.length + 1) (St.init r) evs with
      | some st =>
        let left := st.typeahead ++ dropCpr st.kp.queue ++ dropCpr st.pipe
        (ds, s!"run={encBool st.running} res={encList encRes st.results} left={encKeys left}")
      | none => bad
  | _ =>
    match stepLineB ds.2 kmax toks with
    | some bs => ((ds.1, bs), B.showB bs)
    | none => bad

def main : IO Unit := runS stepLine ((St.init false, 0), B.initB)
