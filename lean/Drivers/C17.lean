import Ptk.Proto
import Ptk.Model.C17
import Ptk.Model.C17Buf
import Ptk.Model.C17Flush
import Ptk.Model.C17Paste
import Ptk.Model.C17Store
import Ptk.Model.C17Attach
open Ptk Ptk.Py Ptk.Proto Ptk.C17

/-! Line protocol of the C17 driver.

  key press = integer: -1 accept (Enter), -2 abort (c-c), -3 CPR response, -4 c-j,
  n ≥ 0 = `other n` (n < 0x110000: the character, else an editing key, see `Ed`).

  stateful commands (reply = the observable state):
    init k r | W n k1..kn | S | R n | F | E   (r = output answers CPR requests; S is ignored once
                                                k prompts have finished; E = the CPR wait ends)
  one-shot:
    E2E k r <events…>   events: w n k1..kn | s | r n | f | e
      reply: results and the unconsumed keys
-/

def decKey (t : String) : Option Key := do
  let i ← decInt t
  if i = -1 then pure .accept
  else if i = -2 then pure .abort
  else if i = -3 then pure .cpr
  else if i = -4 then pure .cj
  else if i ≥ 0 then pure (.other i.toNat)
  else none

def encKey : Key → String
  | .accept => "-1"
  | .abort => "-2"
  | .cpr => "-3"
  | .cj => "-4"
  | .other n => toString n

def encKeys (l : List Key) : String := encList encKey l

/-- take `n` keys from the token list -/
def takeKeys : Nat → List String → Option (List Key × List String)
  | 0, ts => some ([], ts)
  | _ + 1, [] => none
  | n + 1, t :: ts => do
    let k ← decKey t
    let (ks, rest) ← takeKeys n ts
    pure (k :: ks, rest)

def encRes (r : Res) : String :=
  let e := Ed.render r.1
  s!"{encKey r.2}:{encStr e.text}"

def showSt (s : St) : String :=
  let e := Ed.render s.kp.applied
  let d := match s.kp.done with | none => "N" | some k => encKey k
  let cur : String := if s.running then s!"{encStr e.text} {e.cur}" else "- -"
  s!"run={encBool s.running} ex={encBool s.exiting} w={s.kp.waiting} done={d} buf={cur} q={encKeys s.kp.queue} ta={encKeys s.typeahead} res={encList encRes s.results}"

/-- `start`, and when the typeahead already contained an accepting key the `await f`
    does not yield: the exit path runs before anything else can happen. -/
def startEv (s : St) : St :=
  if s.running || s.exiting then s else
  let s1 := step s .start
  if s1.kp.done.isSome then step s1 .finish else s1

/-- the harness lets the loop run until the finished application has left: everything that is
    readable is read first (only while CPR answers are outstanding), then the wait ends -/
def endWaitEv (s : St) : St :=
  if !s.exiting then s else
  let s1 := if 0 < s.kp.waiting && !s.pipe.isEmpty then step s (.read 1000000) else s
  step s1 .endWait

/-! second layer (`Ptk.C17.Buf` with the concrete emacs registry): commands
     Binit k | BW n k1..kn | BS | BR n | BT | BF      and     BE2E k <events…> (w/s/r/t/f) -/
namespace B
open Ptk.C17.Buf

abbrev BSt := Buf.St Emacs.S
def T (v : Nat) := Emacs.tblV v
def flushCode : Nat := 0x110000 + 998

def encQK : QK → String
  | some k => encKey k
  | none => toString flushCode

/-- how the application ended: by the abort handler (c-c → KeyboardInterrupt: -2), by c-d on an
    empty buffer (EOFError: -5), or by an accepting handler (-1) -/
def kindOf (tr : List Disp) : String :=
  if tr.any (fun d => match d with
      | .call ks ex => ex && ks.getLast? == some (Key.other Ed.kCtrlD)
      | .drop _ => false) then "-5"
  else if tr.any (fun d => match d with
      | .call ks _ => ks.getLast? == some Key.abort
      | .drop _ => false) then "-2" else "-1"

def encResB (r : List Disp × Emacs.S) : String := s!"{kindOf r.1}:{encStr r.2.e.text}"

def showB (s : BSt) : String :=
  let d := if s.kp.done then (if s.kp.crashed then "X" else kindOf s.kp.trace) else "N"
  let cur : String := if s.running then s!"{encStr s.kp.ed.e.text} {s.kp.ed.e.cur}" else "- -"
  let arg : String := if !s.running then "-" else match s.kp.arg with | none => "N" | some a => toString a
  s!"run={encBool s.running} done={d} buf={cur} arg={arg} kb={encKeys s.kp.buffer} q={encList encQK s.kp.queue} ta={encList encQK s.typeahead} res={encList encResB s.results}"

def startEvB (v : Nat) (s : BSt) : BSt :=
  if s.running then s else
  let s1 := Buf.step (T v) s .start
  if s1.kp.done then Buf.step (T v) s1 .finish else s1

/-- the flush timer fires; when the flushed key ends the application, `await f` returns -/
def timeoutEvB (v : Nat) (s : BSt) : BSt :=
  let s1 := Buf.step (T v) s .timeout
  if s1.kp.done && !s.kp.done then Buf.step (T v) s1 .finish else s1

def initB : BSt := Buf.St.init ⟨⟨[], 0⟩, false, false⟩

def goB (v k : Nat) : Nat → BSt → List String → Option BSt
  | 0, _, _ => none
  | fuel + 1, st, ts =>
    match ts with
    | [] => some st
    | "s" :: ts => goB v k fuel (if st.results.length < k then startEvB v st else st) ts
    | "f" :: ts => goB v k fuel (Buf.step (T v) st .finish) ts
    | "t" :: ts => goB v k fuel (timeoutEvB v st) ts
    | "r" :: n :: ts =>
      match decNat n with
      | some n => goB v k fuel (Buf.step (T v) st (.read n)) ts
      | none => none
    | "w" :: n :: ts =>
      match decNat n with
      | some n =>
        match takeKeys n ts with
        | some (ks, rest) => goB v k fuel (Buf.step (T v) st (.write ks)) rest
        | none => none
      | none => none
    | _ => none

end B

/-! third layer (`Ptk.C17.Flush`):  FL T <events…>   events: r t n p1..pn | m t
     pieces: k<key code> | h<k> | t<k>;  reply = what the input object delivered -/
namespace FL
open Ptk.C17.Flush

def decPiece (t : String) : Option Piece :=
  if t.startsWith "k" then (decKey (t.drop 1).toString).map Piece.key
  else if t.startsWith "h" then (decNat (t.drop 1).toString).map Piece.head
  else if t.startsWith "t" then (decNat (t.drop 1).toString).map Piece.tail
  else none

def takePieces : Nat → List String → Option (List Piece × List String)
  | 0, ts => some ([], ts)
  | _ + 1, [] => none
  | n + 1, t :: ts => do
    let p ← decPiece t
    let (ps, rest) ← takePieces n ts
    pure (p :: ps, rest)

def encOut : Out → String
  | .key k => encKey k
  | .esc => toString (0x110000 + 12)
  | .junk k => s!"J{k}"

def go : Nat → P → List String → Option P
  | 0, _, _ => none
  | fuel + 1, p, ts =>
    match ts with
    | [] => some p
    | "m" :: t :: ts => (decNat t).bind fun t => go fuel (Flush.step p (.timer t)) ts
    | "r" :: t :: n :: ts =>
      match decNat t, decNat n with
      | some t, some n =>
        match takePieces n ts with
        | some (ps, rest) => go fuel (Flush.step p (.read t ps)) rest
        | none => none
      | _, _ => none
    | _ => none

def handle (toks : List String) : String :=
  match toks with
  | T :: evs =>
    match decNat T with
    | some T =>
      match go (evs.length + 1) (P.init T) evs with
      | some p => s!"out={encList encOut p.out}"
      | none => "bad-op"
    | none => "bad-op"
  | _ => "bad-op"

end FL

/-! fourth layer (`Ptk.C17.Paste` with the concrete generator over the regenerated sequence table):
     Pinit k | PW s:<text> | PS | PR n | PF     and     PE2E k <events…> (w s:<text> | s | r n | f) -/
namespace P
open Ptk.C17.Paste

abbrev PSt := Paste.St Text
def N : Norm Text := Conc.norm Conc.genCfg
def initP : PSt := Paste.St.init [] false

def showP (s : PSt) : String :=
  let pb : String := if s.ps.inPaste then encStr s.ps.pbuf else "-"
  s!"{showSt s.l1} pm={encBool s.ps.inPaste} pb={pb} pre={encStr s.ps.nst}"

/-- `start`; when the type-ahead already contained an accepting key the exit path runs at once -/
def startEvP (s : PSt) : PSt :=
  if s.l1.running || s.l1.exiting then s else
  let s1 := Paste.step N s .start
  if s1.l1.kp.done.isSome then Paste.step N s1 .finish else s1

def goP (k : Nat) : Nat → PSt → List String → Option PSt
  | 0, _, _ => none
  | fuel + 1, st, ts =>
    match ts with
    | [] => some st
    | "s" :: ts => goP k fuel (if st.l1.results.length < k then startEvP st else st) ts
    | "f" :: ts => goP k fuel (Paste.step N st .finish) ts
    | "r" :: n :: ts =>
      match decNat n with
      | some n => goP k fuel (Paste.step N st (.read n)) ts
      | none => none
    | "w" :: t :: ts =>
      match decStr t with
      | some t => goP k fuel (Paste.step N st (.write t)) ts
      | none => none
    | _ => none

def stepLineP (ps : PSt) (kmax : Nat) (toks : List String) : Option PSt :=
  match toks with
  | ["PW", t] => (decStr t).map fun t => Paste.step N ps (.write t)
  | ["PS"] => some (if ps.l1.results.length < kmax then startEvP ps else ps)
  | ["PR", n] => (decNat n).map fun n => Paste.step N ps (.read n)
  | ["PF"] => some (Paste.step N ps .finish)
  | _ => none

/-- results and everything unconsumed (type-ahead, queue, what pipe + parser still deliver) -/
def finalP (st : PSt) : String :=
  let left := st.l1.typeahead ++ dropCpr st.l1.kp.queue ++ dropCpr (Paste.parse N st.ps st.bytes).2
  s!"run={encBool st.l1.running} res={encList encRes st.l1.results} left={encKeys left}"

end P

/-! fifth layer (`Ptk.C17.Store`: several inputs, one type-ahead store keyed by hash):
     Minit kA kB | MW h n k1..kn | MS h | MR h n | MF h      (h = 0 | 1)
     reply: the state of both inputs;   MEND: results and unconsumed keys of both inputs -/
namespace M
open Ptk.C17.Store

structure MSt where
  sys : Sys
  k0 : Nat
  k1 : Nat

def initM (k0 k1 : Nat) : MSt := ⟨Sys.init, k0, k1⟩

def showM (m : MSt) : String := s!"A[{showSt (m.sys.proj 0)}] B[{showSt (m.sys.proj 1)}]"

def startEvM (y : Sys) (h : Hash) : Sys :=
  let s := y.proj h
  if s.running || s.exiting then y else
  let y1 := y.step h .start
  if (y1.proj h).kp.done.isSome then y1.step h .finish else y1

/-- the harness awaits at `S` and `F` events: the event loop then runs every application whose
    result is set to its end, on whichever input it is -/
def settle (y : Sys) : Sys := (y.step 0 .finish).step 1 .finish

def finalOf (s : St) : String :=
  let left := s.typeahead ++ dropCpr s.kp.queue ++ dropCpr s.pipe
  s!"res={encList encRes s.results} left={encKeys left}"

def stepLineM (m : MSt) (toks : List String) : Option (MSt × String) :=
  let kOf (h : Nat) : Nat := if h = 0 then m.k0 else m.k1
  let ret (y : Sys) : Option (MSt × String) := some ({ m with sys := y }, showM { m with sys := y })
  match toks with
  | ["Minit", a, b] =>
    match decNat a, decNat b with
    | some a, some b => some (initM a b, showM (initM a b))
    | _, _ => none
  | "MW" :: h :: n :: rest =>
    match decNat h, decNat n with
    | some h, some n =>
      match takeKeys n rest with
      | some (ks, []) => ret (m.sys.step h (.write ks))
      | _ => none
    | _, _ => none
  | ["MS", h] =>
    (decNat h).bind fun h =>
      -- (the harness lets finished applications leave BEFORE it starts the new prompt: while a
      --  started prompt has unread bytes in its pipe the harness must not await)
      let y := settle m.sys
      ret (if (y.proj h).results.length < kOf h then startEvM y h else y)
  | ["MR", h, n] =>
    match decNat h, decNat n with
    | some h, some n => ret (m.sys.step h (.read n))
    | _, _ => none
  | ["MF", h] => (decNat h).bind fun h => ret (settle (m.sys.step h .finish))
  | ["MEND"] => some (m, s!"A[{finalOf (m.sys.proj 0)}] B[{finalOf (m.sys.proj 1)}]")
  | _ => none

end M

/-! sixth layer (`Ptk.C17.Attach`: the reader's life cycle on the loop, the renderer's CPR memory):
     Linit k r | LW n k1..kn | LS | LR n | LT | LF | LE | LEND
     LR n = the harness calls the callback of the running application; LT = the event loop turns:
     it calls the reader IT has registered (if any), and an application whose result is set leaves -/
namespace L
open Ptk.C17.Attach

structure LSt where
  st : Attach.St
  k : Nat

def showL (a : Attach.St) : String :=
  let s := a.l1
  let e := Ed.render s.kp.applied
  let d := match s.kp.done with | none => "N" | some k => encKey k
  let cur : String := if s.running then s!"{encStr e.text} {e.cur}" else "- -"
  let w := if s.running || s.exiting then s.kp.waiting else a.rw
  s!"run={encBool s.running} ex={encBool s.exiting} w={w} done={d} buf={cur} q={encKeys s.kp.queue} ta={encKeys s.typeahead} res={encList encRes s.results} rd={encBool a.reader.isSome} cs={encBool (a.seen || decide (0 < s.kp.cprs))} lost={encKeys a.lost}"

def startEvL (a : Attach.St) : Attach.St :=
  if a.l1.running || a.l1.exiting then a else
  let a1 := Attach.step a .start
  if a1.l1.kp.done.isSome then Attach.step a1 .finish else a1

def turnEvL (a : Attach.St) : Attach.St :=
  -- an application whose result is already set is woken up before the loop polls the fd: it leaves
  -- (and removes its reader) first
  let a0 := if a.l1.running && a.l1.kp.done.isSome then Attach.step a .finish else a
  let a1 := Attach.step a0 (.turn 1000000)
  if a1.l1.running && a1.l1.kp.done.isSome then Attach.step a1 .finish else a1

def stepLineL (m : LSt) (toks : List String) : Option (LSt × String) :=
  let ret (a : Attach.St) : Option (LSt × String) := some ({ m with st := a }, showL a)
  match toks with
  | ["Linit", k, r] =>
    match decNat k, decBool r with
    | some k, some r => some (⟨Attach.St.init r, k⟩, showL (Attach.St.init r))
    | _, _ => none
  | "LW" :: n :: rest =>
    match decNat n with
    | some n =>
      match takeKeys n rest with
      | some (ks, []) => ret (Attach.step m.st (.write ks))
      | _ => none
    | none => none
  | ["LS"] => ret (if m.st.l1.results.length < m.k then startEvL m.st else m.st)
  | ["LR", n] => (decNat n).bind fun n => ret (Attach.step m.st (.turn n))
  | ["LT"] => ret (turnEvL m.st)
  | ["LF"] => ret (Attach.step m.st .finish)
  | ["LE"] => ret (Attach.step m.st .endWait)
  | ["LEND"] =>
    let s := m.st.l1
    let left := s.typeahead ++ dropCpr s.kp.queue ++ dropCpr s.pipe
    some (m, s!"run={encBool s.running} res={encList encRes s.results} left={encKeys left} lost={encKeys m.st.lost}")
  | _ => none

end L

/-- driver state: the model state and the number of prompts the harness will start -/
abbrev DS := ((((St × Nat) × (B.BSt × Nat)) × P.PSt) × M.MSt) × L.LSt

def stepLineB (v : Nat) (bs : B.BSt) (kmax : Nat) (toks : List String) : Option B.BSt :=
  match toks with
  | "BW" :: n :: rest =>
    match decNat n with
    | some n =>
      match takeKeys n rest with
      | some (ks, []) => some (Buf.step (B.T v) bs (.write ks))
      | _ => none
    | none => none
  | ["BS"] => some (if bs.results.length < kmax then B.startEvB v bs else bs)
  | ["BR", n] => (decNat n).map fun n => Buf.step (B.T v) bs (.read n)
  | ["BT"] => some (B.timeoutEvB v bs)
  | ["BF"] => some (Buf.step (B.T v) bs .finish)
  | _ => none

abbrev DS3 := ((St × Nat) × (B.BSt × Nat)) × P.PSt

def stepLine3 (ds0 : DS3) (toks : List String) : DS3 × String :=
  let ds := ds0.1
  let pst := ds0.2
  let s := ds.1.1
  let kmax := ds.1.2
  let ret (s' : St) : DS3 × String := ((((s', kmax), ds.2), pst), showSt s')
  let bad : DS3 × String := (ds0, "bad-op")
  match toks with
  | ["init", k, r] =>
    match decNat k, decBool r with
    | some k, some r => ((((St.init r, k), ds.2), pst), showSt (St.init r))
    | _, _ => bad
  | ["Binit", k] =>
    match decNat k with
    | some k => ((((s, k), (B.initB, 0)), pst), B.showB B.initB)
    | none => bad
  | ["BinitV", k, v] =>                  -- a session with validator number v
    match decNat k, decNat v with
    | some k, some v => ((((s, k), (B.initB, v)), pst), B.showB B.initB)
    | _, _ => bad
  | ["Pinit", k] =>
    match decNat k with
    | some k => ((((s, k), ds.2), P.initP), P.showP P.initP)
    | none => bad
  | "PE2E" :: k :: evs =>
    match decNat k with
    | none => bad
    | some k =>
      match P.goP k (evs.length + 1) P.initP evs with
      | some st => (ds0, P.finalP st)
      | none => bad
  | "BE2EV" :: k :: v :: evs =>
    match decNat k, decNat v with
    | some k, some v =>
      match B.goB v k (evs.length + 1) B.initB evs with
      | some st =>
        let left := st.kp.buffer.map some ++ st.typeahead ++ Buf.dropCprQ st.kp.queue ++ (dropCpr st.pipe).map some
        let left := left.filter (fun q => q.isSome)
        (ds0, s!"run={encBool st.running} res={encList B.encResB st.results} left={encList B.encQK left}")
      | none => bad
    | _, _ => bad
  | "BE2E" :: k :: evs =>
    match decNat k with
    | none => bad
    | some k =>
      match B.goB 0 k (evs.length + 1) B.initB evs with
      | some st =>
        let left := st.kp.buffer.map some ++ st.typeahead ++ Buf.dropCprQ st.kp.queue ++ (dropCpr st.pipe).map some
        let left := left.filter (fun q => q.isSome)
        (ds0, s!"run={encBool st.running} res={encList B.encResB st.results} left={encList B.encQK left}")
      | none => bad
  | "W" :: n :: rest =>
    match decNat n with
    | some n =>
      match takeKeys n rest with
      | some (ks, []) => ret (step s (.write ks))
      | _ => bad
    | none => bad
  | ["S"] => ret (if s.results.length < kmax then startEv s else s)
  | ["R", n] =>
    match decNat n with
    | some n => ret (step s (.read n))
    | none => bad
  | ["F"] => ret (step s .finish)
  | ["E"] => ret (endWaitEv s)
  | ["A"] => ret s                       -- virtual time passes: nothing in the first layer
  | "FL" :: rest => (ds0, FL.handle rest)
  | "E2E" :: k :: r :: evs =>
    match decNat k, decBool r with
    | none, _ => bad
    | _, none => bad
    | some k, some r =>
      let rec go (fuel : Nat) (st : St) (ts : List String) : Option St :=
        match fuel with
        | 0 => none
        | fuel + 1 =>
          match ts with
          | [] => some st
          | "s" :: ts => go fuel (if st.results.length < k then startEv st else st) ts
          | "f" :: ts => go fuel (step st .finish) ts
          | "e" :: ts => go fuel (endWaitEv st) ts
          | "r" :: n :: ts =>
            match decNat n with
            | some n => go fuel (step st (.read n)) ts
            | none => none
          | "w" :: n :: ts =>
            match decNat n with
            | some n =>
              match takeKeys n ts with
              | some (ks, rest) => go fuel (step st (.write ks)) rest
              | none => none
            | none => none
          | _ => none
      match go (evs.length + 1) (St.init r) evs with
      | some st =>
        let left := st.typeahead ++ dropCpr st.kp.queue ++ dropCpr st.pipe
        (ds0, s!"run={encBool st.running} res={encList encRes st.results} left={encKeys left}")
      | none => bad
  | _ =>
    match P.stepLineP pst kmax toks with
    | some ps => ((ds, ps), P.showP ps)
    | none =>
      match stepLineB ds.2.2 ds.2.1 kmax toks with
      | some bs => (((ds.1, (bs, ds.2.2)), pst), B.showB bs)
      | none => bad

def stepLine (dsL : DS) (toks : List String) : DS × String :=
  match L.stepLineL dsL.2 toks with
  | some (l, r) => ((dsL.1, l), r)
  | none =>
  let dsM := dsL.1
  match M.stepLineM dsM.2 toks with
  | some (m, r) => (((dsM.1, m), dsL.2), r)
  | none =>
  let (r1, out) := stepLine3 dsM.1 toks
  (((r1, dsM.2), dsL.2), out)

def main : IO Unit := runS stepLine (((((St.init false, 0), (B.initB, 0)), P.initP), M.initM 0 0), ⟨Attach.St.init false, 0⟩)
