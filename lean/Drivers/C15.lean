import Ptk.Proto
import Ptk.Model.C15
import Ptk.Gen.PyChars
import Std.Data.HashSet
open Ptk Ptk.Py Ptk.Proto Ptk.C15

/-
  Line protocol driver for the C15 model.

  init <cwt> <hasV> <vwt> <hasS> <maxN> <fixD1> <va> <vp> <vr> <sa> <sp> <sr> <slit>
       <text> <cur> <ncomp> (<back> <echo> <lit>)*
  ins s: | delb n | del n | cur v | text s: | next c dw | prev c dw | cancel | startc m | tab
  apply s: start | vsync | reset s: c | hist
  kill c|v|s     -- cancel the task waiting in the completer / validator / suggester
  killp k        -- cancel the k-th pending task before its first step
  start k        -- first step of the k-th pending task (creation order)
  rel c|v|s      -- resume the (first) task waiting in the completer / validator / suggester
  drain          -- start pending tasks in creation order until none is pending
  nrel c|v|s     -- what a real asyncio loop does on a wake-up: drain, resume, drain

  enum <depth> <maxstates> <op>*   -- breadth-first exploration of the model from the
       current state over the given action alphabet (`_` for blanks inside an op); prints
       one line "paths <n> | a;b;c | ..." (input generation for the harness).
-/

structure DState where
  cfg : Config
  env : Env
  s : St

def encOptText : Option Text → String
  | none => "N"
  | some t => encStr t

def encMode : Mode → String
  | .plain => "0" | .first => "1" | .last => "2" | .common => "3"

def decMode (t : String) : Option Mode :=
  match t with
  | "0" => some .plain | "1" => some .first | "2" => some .last | "3" => some .common
  | _ => none

def encCs : Option CState → String
  | none => "N"
  | some st =>
    let idx := match st.index with | none => "N" | some i => toString i
    "C " ++ encStr st.orig.text ++ " " ++ toString st.orig.cur ++ " " ++ idx ++ " " ++
      encList (fun c => encStr c.text ++ " " ++ toString c.start) st.comps

def encVs : VState → String
  | .unknown => "U" | .valid => "V" | .invalid => "I"

def isPending : Task → Bool
  | .cPend _ | .vPend | .sPend => true
  | _ => false

def kindOf : Task → Char
  | .cPend _ | .cLoad .. => 'c'
  | .vPend | .vWait _ => 'v'
  | .sPend | .sWait _ => 's'

def encPending (ts : List Task) : String :=
  let l := ts.filterMap fun
    | .cPend m => some ("c" ++ encMode m)
    | .vPend => some "v"
    | .sPend => some "s"
    | _ => none
  if l.isEmpty then "-" else ",".intercalate l

def encWaiting (ts : List Task) : String :=
  let c := ts.filterMap fun
    | .cLoad _ d i _ => some s!"c:{encStr d.text}:{d.cur}:{i}"
    | _ => none
  let v := ts.filterMap fun
    | .vWait d => some s!"v:{encStr d.text}:{d.cur}"
    | _ => none
  let s := ts.filterMap fun
    | .sWait d => some s!"s:{encStr d.text}:{d.cur}"
    | _ => none
  let l := c ++ v ++ s
  if l.isEmpty then "-" else ",".intercalate l

def encState (e : Bool) (s : St) : String :=
  (if e then "err" else "ok") ++ " " ++ encStr s.text ++ " " ++ toString s.cur ++ " " ++
  encCs s.cs ++ " " ++ encVs s.vs ++ " " ++ encOptText s.verr ++ " " ++ encOptText s.sugg ++ " " ++
  encBool s.runC ++ encBool s.runV ++ encBool s.runS ++ " " ++
  encPending s.tasks ++ " " ++ encWaiting s.tasks

/-- index in the task list of the k-th pending task -/
def nthPending (ts : List Task) (k : Nat) : Option Nat :=
  let idxs := (List.range ts.length).filter fun i =>
    match ts[i]? with | some t => isPending t | none => false
  idxs[k]?

def firstWaiting (ts : List Task) (kind : Char) : Option Nat :=
  (List.range ts.length).find? fun i =>
    match ts[i]? with | some t => !isPending t && kindOf t == kind | none => false

def drain (s : St) : Nat → St
  | 0 => s
  | fuel + 1 =>
    match nthPending s.tasks 0 with
    | some i => drain (startTask s i) fuel
    | none => s

def release (cfg : Config) (env : Env) (s : St) (kind : Char) : St :=
  match firstWaiting s.tasks kind with
  | some i => resumeTask cfg env s i
  | none => s

def parseComps : Nat → List String → Option (List CompSpec)
  | 0, [] => some []
  | n + 1, b :: e :: l :: rest => do
    let b ← decNat b
    let e ← decBool e
    let l ← decStr l
    let r ← parseComps n rest
    pure (⟨b, e, l⟩ :: r)
  | _, _ => none

def parseInit : List String → Option DState
  | cwt :: hasV :: vwt :: hasS :: maxN :: fix :: va :: vp :: vr :: sa :: sp :: sr :: slit ::
    text :: cur :: nc :: rest => do
    let cfg : Config := ⟨← decBool cwt, ← decBool hasV, ← decBool vwt, ← decBool hasS,
                         ← decNat maxN, ← decBool fix⟩
    let va ← decNat va
    let vp ← decNat vp
    let vr ← decNat vr
    let sa ← decNat sa
    let sp ← decNat sp
    let sr ← decNat sr
    let slit ← decStr slit
    let text ← decStr text
    let cur ← decNat cur
    let nc ← decNat nc
    let spec ← parseComps nc rest
    let env : Env := ⟨mkComp spec, mkValid va vp vr, mkSugg sa sp sr slit, Gen.isSpace⟩
    pure ⟨cfg, env, init ⟨text, min cur text.length⟩⟩
  | _ => none

/-- a user/scheduler operation of the protocol -/
def applyOp (d : DState) : List String → Option (St × Bool)
  | ["ins", t] => do pure (step d.cfg d.env d.s (.insert (← decStr t)))
  | ["delb", n] => do pure (step d.cfg d.env d.s (.deleteBefore (← decNat n)))
  | ["del", n] => do pure (step d.cfg d.env d.s (.delete (← decNat n)))
  | ["cur", v] => do pure (step d.cfg d.env d.s (.setCursor (← decInt v)))
  | ["text", t] => do pure (step d.cfg d.env d.s (.setText (← decStr t)))
  | ["next", c, dw] => do pure (step d.cfg d.env d.s (.next (← decNat c) (← decBool dw)))
  | ["prev", c, dw] => do pure (step d.cfg d.env d.s (.prev (← decNat c) (← decBool dw)))
  | ["cancel"] => some (step d.cfg d.env d.s .cancel)
  | ["startc", m] => do pure (step d.cfg d.env d.s (.startCompletion (← decMode m)))
  | ["tab"] => some (step d.cfg d.env d.s .tab)
  | ["apply", t, st] => do pure (step d.cfg d.env d.s (.apply ⟨← decStr t, ← decInt st⟩))
  | ["vsync"] => some (step d.cfg d.env d.s .validateSync)
  | ["reset", t, c] => do pure (step d.cfg d.env d.s (.reset (← decStr t) (← decNat c)))
  | ["start", k] => do
    let k ← decNat k
    match nthPending d.s.tasks k with
    | some i => pure (step d.cfg d.env d.s (.start i))
    | none => pure (d.s, false)
  | ["rel", k] =>
    match k.toList with
    | [c] =>
      match firstWaiting d.s.tasks c with
      | some i => some (step d.cfg d.env d.s (.resume i))
      | none => some (d.s, false)
    | _ => none
  | ["hist"] => some (step d.cfg d.env d.s .histComplete)
  | ["kill", k] =>
    match k.toList with
    | [c] =>
      match firstWaiting d.s.tasks c with
      | some i => some (step d.cfg d.env d.s (.kill i))
      | none => some (d.s, false)
    | _ => none
  | ["killp", k] => do
    let k ← decNat k
    match nthPending d.s.tasks k with
    | some i => pure (step d.cfg d.env d.s (.kill i))
    | none => pure (d.s, false)
  | ["drain"] => some (drain d.s (d.s.tasks.length + 8), false)
  | ["nrel", k] =>
    match k.toList with
    | [c] =>
      -- the wake-up is only delivered when somebody is waiting at the time of the release
      let had := (firstWaiting d.s.tasks c).isSome
      let s1 := drain d.s (d.s.tasks.length + 8)
      if had then
        let s2 := release d.cfg d.env s1 c
        some (drain s2 (s2.tasks.length + 8), false)
      else some (s1, false)
    | _ => none
  | _ => none

/-! ### breadth-first enumeration of schedules (input generation for the harness) -/

/-- `cur -1` / `cur +1` are relative moves in the enumeration alphabet; `_` stands for a
    blank inside one alphabet entry -/
def enumOpText (d : DState) (op : String) : String :=
  if op == "cur_-1" then "cur " ++ toString ((d.s.cur : Int) - 1)
  else if op == "cur_+1" then "cur " ++ toString ((d.s.cur : Int) + 1)
  else op.replace "_" " "

def enumOp (d : DState) (op : String) : Option (St × Bool) :=
  applyOp d ((enumOpText d op).splitOn " ")

def stateKey (e : Bool) (s : St) : String :=
  let linked := s.tasks.filterMap fun
    | .cLoad _ _ _ tok => some (match s.cs with | some st => encBool (st.token == tok) | none => "n")
    | _ => none
  encState e s ++ " " ++ "".intercalate linked

/-- Breadth-first exploration to `depth` over `alphabet`, merging equal states.  Emits the
    action path of every edge that is not a proper prefix of another emitted path: all edges
    into already known states, and the tree edges into the last level.  Every transition
    between explored states is therefore exercised by at least one emitted path. -/
partial def bfs (d0 : DState) (depth maxStates : Nat) (alphabet : List String) : List String := Id.run do
  let mut seen : Std.HashSet String := {}
  seen := seen.insert (stateKey false d0.s)
  let mut frontier : Array (St × List String) := #[(d0.s, [])]
  let mut out : Array String := #[]
  let mut n := 1
  for lvl in [0:depth] do
    let mut next : Array (St × List String) := #[]
    for (s, path) in frontier do
      let d : DState := { d0 with s := s }
      for op in alphabet do
        match enumOp d op with
        | some (s', e) =>
          let key := stateKey e s'
          let p := enumOpText d op :: path
          if seen.contains key || n ≥ maxStates then
            out := out.push (";".intercalate p.reverse)
          else
            seen := seen.insert key
            n := n + 1
            next := next.push (s', p)
            if lvl + 1 == depth then out := out.push (";".intercalate p.reverse)
        | none => pure ()
    frontier := next
  return out.toList

def stepLine (d : DState) (toks : List String) : DState × String :=
  match toks with
  | "init" :: rest =>
    match parseInit rest with
    | some d' => (d', encState false d'.s)
    | none => (d, "bad-op")
  | "enum" :: depth :: maxStates :: alphabet =>
    match decNat depth, decNat maxStates with
    | some k, some m =>
      let paths := bfs d k m alphabet
      (d, "paths " ++ toString paths.length ++ " | " ++ " | ".intercalate paths)
    | _, _ => (d, "bad-op")
  | _ =>
    match applyOp d toks with
    | some (s', e) => ({ d with s := s' }, encState e s')
    | none => (d, "bad-op")

def main : IO Unit :=
  runS stepLine
    { cfg := ⟨false, false, false, false, 10000, true⟩,
      env := ⟨fun _ => [], fun _ => none, fun _ => none, Gen.isSpace⟩,
      s := init ⟨[], 0⟩ }
