import Ptk.Proto
import Ptk.Model.C15
import Ptk.Model.C15Suggest
import Ptk.Gen.PyChars
import Ptk.Gen.C15
import Std.Data.HashSet
open Ptk Ptk.Py Ptk.Proto Ptk.C15

/-
  Line protocol driver for the C15 model.

  init <cwt> <hasV> <vwt> <hasS> <maxN> <fixD1> <threaded> <qcap> <va> <vp> <vr> <sa> <sp> <sr> <slit>
       <text> <cur> <ncomp> (<back> <echo> <lit>)*        (qcap 0 = the regenerated Gen.C15.bufferSize)
  ins s: | delb n | del n | cur v | text s: | next c dw | prev c dw | cancel | startc m | tab
  apply s: start | vsync | reset s: c | hist | ssel | xsel   (start_selection / exit_selection)
  kill c|v|s     -- cancel the task waiting in the completer / validator / suggester
  killp k        -- cancel the k-th pending task before its first step
  start k        -- first step of the k-th pending task (creation order)
  rel c|v|s      -- resume the (first) task waiting in the completer / validator / suggester
  drain          -- start pending tasks in creation order until none is pending
  nrel c|v|s     -- what a real asyncio loop does on a wake-up: drain, resume, drain
  prun           -- ThreadedCompleter: the producer thread runs until it blocks again (next
                    `next()` of the user's generator, a full queue, or its end)
  (with a threaded completer `rel c` = the `q.get` job returns and its result is delivered,
   or `runner_f` is delivered; after every op the consumer runs on until it awaits)

  hand-off alone (`generator_to_async_generator(iterable of n items, buffer_size=cap)` read by
  a consumer that leaves the loop after `limit` items):
  hinit n cap limit | hstart | hp | htake | hrel | hkill | hfin

  hsugg <n> <history string>*n <text>   -- AutoSuggestFromHistory.get_suggestion (stateless)

  enum <depth> <maxstates> <op>*   -- breadth-first exploration of the model from the
       current state over the given action alphabet (`_` for blanks inside an op); prints
       one line "paths <n> | a;b;c | ..." (input generation for the harness).
-/

/-- consumer of the stand-alone hand-off family -/
inductive HCons | idle | reading | closing | closingCancelled | finished | cancelled
deriving DecidableEq, Repr

structure HSim where
  h : HS
  limit : Nat
  cons : HCons
  /-- items handed to the client -/
  received : Nat
deriving DecidableEq, Repr

structure DState where
  cfg : Config
  env : Env
  s : St
  hand : Option HSim := none

def encOptText : Option Text → String
  | none => "N"
  | some t => encStr t

def encMode : Mode → String
  | .plain => "0" | .first => "1" | .last => "2" | .common => "3"

def decMode (t : String) : Option Mode :=
  match t with
  | "0" => some .plain | "1" => some .first | "2" => some .last | "3" => some .common
  | _ => none

def encCs : Option CState → String
  | none => "N"
  | some st =>
    let idx := match st.index with | none => "N" | some i => toString i
    "C " ++ encStr st.orig.text ++ " " ++ toString st.orig.cur ++ " " ++ idx ++ " " ++
      encList (fun c => encStr c.text ++ " " ++ toString c.start) st.comps

def encVs : VState → String
  | .unknown => "U" | .valid => "V" | .invalid => "I"

def isPending : Task → Bool
  | .cPend _ | .vPend | .sPend => true
  | _ => false

def kindOf : Task → Char
  | .cPend _ | .cLoad .. | .cLoadT .. | .cCloseT .. => 'c'
  | .vPend | .vWait _ _ => 'v'
  | .sPend | .sWait _ _ => 's'

def encPending (ts : List Task) : String :=
  let l := ts.filterMap fun
    | .cPend m => some ("c" ++ encMode m)
    | .vPend => some "v"
    | .sPend => some "s"
    | _ => none
  if l.isEmpty then "-" else ",".intercalate l

def encQ (q : List QItem) : String :=
  if q.isEmpty then "e" else ".".intercalate (q.map fun | .item j => toString j | .done => "D")

def encPc : PPc → String
  | .new => "w"
  | .next k => s!"n{k}"
  | .got k => s!"g{k}"
  | .put k => s!"p{k}"
  | .full k => s!"p{k}"
  | .fin _ => "f"
  | .finFull _ => "f"
  | .exit _ _ => "x"

def encStage (h : HS) : String :=
  if h.inbox.isSome then "i" else if h.getter then "g" else "r"

def encWaiting (ts : List Task) : String :=
  let c := ts.filterMap fun
    | .cLoad _ d i _ => some s!"c:{encStr d.text}:{d.cur}:{i}"
    | .cLoadT _ d _ h => some s!"ct:{encStr d.text}:{d.cur}:{encStage h}:{encPc h.pc}:{encQ h.q}:{encBool h.quitting}"
    | .cCloseT _ d _ h false => some s!"ct:{encStr d.text}:{d.cur}:z:{encPc h.pc}:{encQ h.q}:{encBool h.quitting}"
    | .cCloseT _ d _ h true => some s!"ct:{encStr d.text}:{d.cur}:zk:{encPc h.pc}:-:{encBool h.quitting}"
    | _ => none
  let v := ts.filterMap fun
    | .vWait d _ => some s!"v:{encStr d.text}:{d.cur}"
    | _ => none
  let s := ts.filterMap fun
    | .sWait d _ => some s!"s:{encStr d.text}:{d.cur}"
    | _ => none
  let l := c ++ v ++ s
  if l.isEmpty then "-" else ",".intercalate l

def encState (e : Bool) (s : St) : String :=
  (if e then "err" else "ok") ++ " " ++ encStr s.text ++ " " ++ toString s.cur ++ " " ++
  encCs s.cs ++ " " ++ encVs s.vs ++ " " ++ encOptText s.verr ++ " " ++ encOptText s.sugg ++ " " ++
  encStr (shownSuggestion s) ++ " " ++
  encBool s.runC ++ encBool s.runV ++ encBool s.runS ++ encBool s.sel.isSome ++ " " ++
  encPending s.tasks ++ " " ++ encWaiting s.tasks

/-- index in the task list of the k-th pending task -/
def nthPending (ts : List Task) (k : Nat) : Option Nat :=
  let idxs := (List.range ts.length).filter fun i =>
    match ts[i]? with | some t => isPending t | none => false
  idxs[k]?

def firstWaiting (ts : List Task) (kind : Char) : Option Nat :=
  (List.range ts.length).find? fun i =>
    match ts[i]? with | some t => !isPending t && kindOf t == kind | none => false

/-! ### threaded completer: macro steps matching what the real threads do between two gates -/

def taskHS : Task → Option HS
  | .cLoadT _ _ _ h => some h
  | .cCloseT _ _ _ h _ => some h
  | _ => none

/-- the producer thread cannot go on by itself: it waits in user code, has returned, or waits
    for room in the queue -/
def prodBlocked (h : HS) : Bool :=
  match h.pc with
  | .new | .next _ | .exit _ _ => true
  | .put _ | .fin _ => decide (h.cap ≤ h.q.length) && !h.quitting
  | _ => false

def prodSettle (h : HS) : Nat → HS
  | 0 => h
  | f + 1 => if prodBlocked h then h else prodSettle (prodStep h) f

/-- the schedule releases the producer's gate (thread start / next item of the generator) -/
def prodMacro (h : HS) : HS :=
  match h.pc with
  | .new | .next _ => prodSettle (prodStep h) 16
  | _ => prodSettle h 16

/-- a threaded consumer in the middle of its `get_nowait` loop -/
def isRunningT : Task → Bool
  | .cLoadT _ _ _ h => !h.getter && h.inbox.isNone
  | _ => false

def findTask (ts : List Task) (p : Task → Bool) : Option Nat :=
  (List.range ts.length).find? fun i => match ts[i]? with | some t => p t | none => false

/-- the event loop runs every threaded consumer on until it awaits -/
def settleC (cfg : Config) (env : Env) (s : St) : Nat → St
  | 0 => s
  | f + 1 =>
    match findTask s.tasks isRunningT with
    | some i => settleC cfg env (resumeTask cfg env s i) f
    | none => s

def settle (d : DState) (s : St) : St := settleC d.cfg d.env s 4096

def setHS (s : St) (i : Nat) (h : HS) : St :=
  match s.tasks[i]? with
  | some (.cLoadT m doc tok _) => { s with tasks := s.tasks.set i (.cLoadT m doc tok h) }
  | some (.cCloseT m doc tok _ c) => { s with tasks := s.tasks.set i (.cCloseT m doc tok h c) }
  | _ => s

def drain (cfg : Config) (env : Env) (s : St) : Nat → St
  | 0 => s
  | fuel + 1 =>
    match nthPending s.tasks 0 with
    | some i => drain cfg env (settleC cfg env (startTask cfg env s i) 4096) fuel
    | none => s

def release (cfg : Config) (env : Env) (s : St) (kind : Char) : St :=
  match firstWaiting s.tasks kind with
  | some i =>
    match s.tasks[i]? with
    | some (.cLoadT _ _ _ h) =>
      -- the `q.get` job returns (if there is something to get) and its result is delivered
      if h.inbox.isSome then settleC cfg env (resumeTask cfg env s i) 4096
      else if h.getter && !h.q.isEmpty then settleC cfg env (resumeTask cfg env (takeTask s i) i) 4096
      else s
    | some (.cCloseT _ _ _ h _) =>
      if h.pc.isExit then settleC cfg env (resumeTask cfg env s i) 4096 else s
    | _ => settleC cfg env (resumeTask cfg env s i) 4096
  | none => s

def parseComps : Nat → List String → Option (List CompSpec)
  | 0, [] => some []
  | n + 1, b :: e :: l :: rest => do
    let b ← decNat b
    let e ← decBool e
    let l ← decStr l
    let r ← parseComps n rest
    pure (⟨b, e, l⟩ :: r)
  | _, _ => none

def parseInit : List String → Option DState
  | cwt :: hasV :: vwt :: hasS :: maxN :: fix :: thr :: qcap :: va :: vp :: vr :: sa :: sp :: sr :: slit ::
    text :: cur :: nc :: rest => do
    let cfg : Config := ⟨← decBool cwt, ← decBool hasV, ← decBool vwt, ← decBool hasS,
                         ← decNat maxN, ← decBool fix, ← decBool thr,
                         (fun q => if q = 0 then Gen.C15.bufferSize else q) (← decNat qcap)⟩
    let va ← decNat va
    let vp ← decNat vp
    let vr ← decNat vr
    let sa ← decNat sa
    let sp ← decNat sp
    let sr ← decNat sr
    let slit ← decStr slit
    let text ← decStr text
    let cur ← decNat cur
    let nc ← decNat nc
    let spec ← parseComps nc rest
    let env : Env := ⟨mkComp spec, mkValid va vp vr, mkSugg sa sp sr slit, Gen.isSpace⟩
    pure ⟨cfg, env, init ⟨text, min cur text.length⟩, none⟩
  | _ => none

/-! ### the hand-off alone -/

def hSettleP (x : HSim) : HSim := { x with h := prodSettle x.h 32 }

/-- the consumer's `get_nowait` loop until it awaits -/
def hConsume (x : HSim) : Nat → HSim
  | 0 => x
  | f + 1 =>
    match popNow x.h with
    | none => { x with h := submitGet x.h }
    | some (.done, h') => { x with h := quit h', cons := .closing }
    | some (.item _, h') =>
      if x.received + 1 ≥ x.limit then { x with h := quit h', received := x.received + 1, cons := .closing }
      else hConsume { x with h := h', received := x.received + 1 } f

def encHCons : HCons → String
  | .idle => "idle" | .reading => "reading" | .closing => "closing"
  | .closingCancelled => "closingK" | .finished => "finished" | .cancelled => "cancelled"

def encHSim (x : HSim) : String :=
  "H " ++ encHCons x.cons ++ " " ++ encPc x.h.pc ++ " " ++ encQ x.h.q ++ " " ++ encBool x.h.quitting ++ " " ++
  encStage x.h ++ " " ++ toString x.received

def hOp (x : HSim) : List String → Option HSim
  | ["hstart"] =>
    if x.cons == .idle then some (hSettleP (hConsume { x with cons := .reading } 4096)) else some x
  | ["hp"] => if x.cons == .idle then some x else some { x with h := prodMacro x.h }
  | ["htake"] =>
    if x.cons == .reading || x.cons == .closingCancelled then some (hSettleP { x with h := take x.h }) else some x
  | ["hrel"] =>
    if x.cons == .reading then
      match deliver x.h with
      | some (.done, h') => some (hSettleP { x with h := quit h', cons := .closing })
      | some (.item _, h') =>
        if x.received + 1 ≥ x.limit then
          some (hSettleP { x with h := quit h', received := x.received + 1, cons := .closing })
        else some (hSettleP (hConsume { x with h := h', received := x.received + 1 } 4096))
      | none => some x
    else some x
  | ["hkill"] =>
    match x.cons with
    | .reading => some (hSettleP { x with h := quit x.h, cons := .closingCancelled })
    | .closing | .closingCancelled => some { x with cons := .cancelled }
    | _ => some x
  | ["hfin"] =>
    if x.h.pc.isExit then
      match x.cons with
      | .closing => some { x with cons := .finished }
      | .closingCancelled => some { x with cons := .cancelled }
      | _ => some x
    else some x
  | _ => none

/-- a user/scheduler operation of the protocol -/
def applyOp (d : DState) : List String → Option (St × Bool)
  | ["ins", t] => do pure (step d.cfg d.env d.s (.insert (← decStr t)))
  | ["delb", n] => do pure (step d.cfg d.env d.s (.deleteBefore (← decNat n)))
  | ["del", n] => do pure (step d.cfg d.env d.s (.delete (← decNat n)))
  | ["cur", v] => do pure (step d.cfg d.env d.s (.setCursor (← decInt v)))
  | ["text", t] => do pure (step d.cfg d.env d.s (.setText (← decStr t)))
  | ["next", c, dw] => do pure (step d.cfg d.env d.s (.next (← decNat c) (← decBool dw)))
  | ["prev", c, dw] => do pure (step d.cfg d.env d.s (.prev (← decNat c) (← decBool dw)))
  | ["cancel"] => some (step d.cfg d.env d.s .cancel)
  | ["startc", m] => do pure (step d.cfg d.env d.s (.startCompletion (← decMode m)))
  | ["tab"] => some (step d.cfg d.env d.s .tab)
  | ["apply", t, st] => do pure (step d.cfg d.env d.s (.apply ⟨← decStr t, ← decInt st⟩))
  | ["vsync"] => some (step d.cfg d.env d.s .validateSync)
  | ["reset", t, c] => do pure (step d.cfg d.env d.s (.reset (← decStr t) (← decNat c)))
  | ["start", k] => do
    let k ← decNat k
    match nthPending d.s.tasks k with
    | some i => pure (settle d (step d.cfg d.env d.s (.start i)).1, false)
    | none => pure (d.s, false)
  | ["rel", k] =>
    match k.toList with
    | [c] => some (release d.cfg d.env d.s c, false)
    | _ => none
  | ["prun"] =>
    match findTask d.s.tasks (fun t => (taskHS t).isSome) with
    | some i =>
      match d.s.tasks[i]? >>= taskHS with
      | some h => some (setHS d.s i (prodMacro h), false)
      | none => some (d.s, false)
    | none => some (d.s, false)
  | ["hist"] => some (step d.cfg d.env d.s .histComplete)
  | ["ssel"] => some (step d.cfg d.env d.s .startSel)
  | ["xsel"] => some (step d.cfg d.env d.s .exitSel)
  | ["kill", k] =>
    match k.toList with
    | [c] =>
      match firstWaiting d.s.tasks c with
      | some i => some (step d.cfg d.env d.s (.kill i))
      | none => some (d.s, false)
    | _ => none
  | ["killp", k] => do
    let k ← decNat k
    match nthPending d.s.tasks k with
    | some i => pure (step d.cfg d.env d.s (.kill i))
    | none => pure (d.s, false)
  | ["drain"] => some (drain d.cfg d.env d.s (d.s.tasks.length + 8), false)
  | ["nrel", k] =>
    match k.toList with
    | [c] =>
      -- the wake-up is only delivered when somebody is waiting at the time of the release
      let had := (firstWaiting d.s.tasks c).isSome
      let s1 := drain d.cfg d.env d.s (d.s.tasks.length + 8)
      if had then
        let s2 := release d.cfg d.env s1 c
        some (drain d.cfg d.env s2 (s2.tasks.length + 8), false)
      else some (s1, false)
    | _ => none
  | _ => none

/-! ### breadth-first enumeration of schedules (input generation for the harness) -/

/-- `cur -1` / `cur +1` are relative moves in the enumeration alphabet; `_` stands for a
    blank inside one alphabet entry -/
def enumOpText (d : DState) (op : String) : String :=
  if op == "cur_-1" then "cur " ++ toString ((d.s.cur : Int) - 1)
  else if op == "cur_+1" then "cur " ++ toString ((d.s.cur : Int) + 1)
  else op.replace "_" " "

/-- an op of either family on the whole driver state -/
def applyAny (d : DState) (toks : List String) : Option (DState × Bool) :=
  match toks with
  | "hinit" :: n :: cap :: limit :: [] => do
    let n ← decNat n
    let cap ← decNat cap
    let limit ← decNat limit
    pure ({ d with hand := some ⟨HS.init n cap, limit, .idle, 0⟩ }, false)
  | _ =>
    match d.hand with
    | some x =>
      match hOp x toks with
      | some x' => some ({ d with hand := some x' }, false)
      | none => none
    | none =>
      match applyOp d toks with
      | some (s', e) => some ({ d with s := s' }, e)
      | none => none

def encAny (e : Bool) (d : DState) : String :=
  match d.hand with
  | some x => encHSim x
  | none => encState e d.s

def enumOp (d : DState) (op : String) : Option (DState × Bool) :=
  applyAny d ((enumOpText d op).splitOn " ")

def stateKey (e : Bool) (d : DState) : String :=
  match d.hand with
  | some x => encHSim x ++ " " ++ encPc x.h.pc ++ (match x.h.pc with | .exit k b => s!"{k}{b}" | _ => "")
  | none =>
    let s := d.s
    let lk := fun (tok : Nat) => match s.cs with | some st => encBool (st.token == tok) | none => "n"
    let linked := s.tasks.filterMap fun
      | .cLoad _ _ _ tok => some (lk tok)
      | .cLoadT _ _ tok h => some (lk tok ++ toString h.got.length)
      | .cCloseT _ _ tok _ _ => some (lk tok)
      | _ => none
    encState e s ++ " " ++ "".intercalate linked

/-- Breadth-first exploration to `depth` over `alphabet`, merging equal states.  Emits the
    action path of every edge that is not a proper prefix of another emitted path: all edges
    into already known states, and the tree edges into the last level.  Every transition
    between explored states is therefore exercised by at least one emitted path. -/
partial def bfs (d0 : DState) (depth maxStates : Nat) (alphabet : List String) : List String := Id.run do
  let mut seen : Std.HashSet String := {}
  seen := seen.insert (stateKey false d0)
  -- the flag marks paths on which the producer of the stand-alone hand-off returns without
  -- having put `_Done` (it went through real one-second `Full` timeouts: expensive to replay)
  let slowOf := fun (d : DState) => match d.hand with
    | some x => (match x.h.pc with | .exit _ false => true | _ => false)
    | none => false
  let mut frontier : Array (DState × List String × Bool) := #[(d0, [], false)]
  let mut out : Array String := #[]
  let mut n := 1
  for lvl in [0:depth] do
    let mut next : Array (DState × List String × Bool) := #[]
    for (d, path, slow) in frontier do
      for op in alphabet do
        match enumOp d op with
        | some (d', e) =>
          let key := stateKey e d'
          let p := enumOpText d op :: path
          let slow' := slow || slowOf d'
          let emit := ";".intercalate (if slow' then ("#slow" :: p).reverse else p.reverse)
          if seen.contains key || n ≥ maxStates then
            out := out.push emit
          else
            seen := seen.insert key
            n := n + 1
            next := next.push (d', p, slow')
            if lvl + 1 == depth then out := out.push emit
        | none => pure ()
    frontier := next
  return out.toList

def stepLine (d : DState) (toks : List String) : DState × String :=
  match toks with
  | "init" :: rest =>
    match parseInit rest with
    | some d' => (d', encState false d'.s)
    | none => (d, "bad-op")
  | "enum" :: depth :: maxStates :: alphabet =>
    match decNat depth, decNat maxStates with
    | some k, some m =>
      let paths := bfs d k m alphabet
      (d, "paths " ++ toString paths.length ++ " | " ++ " | ".intercalate paths)
    | _, _ => (d, "bad-op")
  | "hsugg" :: n :: rest =>
    -- AutoSuggestFromHistory: hsugg <n> <history string>*n <document text>
    match decNat n with
    | some k =>
      match (rest.take k).mapM decStr, rest.drop k with
      | some hist, [t] =>
        match decStr t with
        | some text => (d, encOptText (histSuggest Gen.isSpace splitlinesNl hist text))
        | none => (d, "bad-op")
      | _, _ => (d, "bad-op")
    | none => (d, "bad-op")
  | ["slowq"] =>
    (d, match d.hand with
        | some x => (match x.h.pc with | .exit _ false => "slow 1" | _ => "slow 0")
        | none => "slow 0")
  | _ =>
    match applyAny d toks with
    | some (d', e) => (d', encAny e d')
    | none => (d, "bad-op")

def main : IO Unit :=
  runS stepLine
    { cfg := ⟨false, false, false, false, 10000, true, false, 1000⟩,
      env := ⟨fun _ => [], fun _ => none, fun _ => none, Gen.isSpace⟩,
      s := init ⟨[], 0⟩ }
