import Ptk.Proto
import Ptk.Model.C04
open Ptk Ptk.Py Ptk.Proto Ptk.C04

/-! line-protocol driver for the C04 model (see harness/c04.py for the request grammar) -/

structure DS where
  ps : PS World := { w := {} }
  fl : Array F := #[]             -- filter handles, in creation order
  tmpl : Array Binding := #[]     -- `key_binding(...)(handler)` objects
deriving Inhabited

abbrev P := StateT (List String) Option

def tok : P String := do
  match (← get) with
  | t :: ts => set ts; pure t
  | [] => failure

def pNat : P Nat := do
  match (← tok).toNat? with
  | some n => pure n
  | none => failure

def pBool : P Bool := do
  match (← tok) with
  | "1" => pure true
  | "0" => pure false
  | _ => failure

def pOptNat : P (Option Nat) := do
  let t ← tok
  if t == "N" then pure none else
  match t.toNat? with
  | some n => pure (some n)
  | none => failure

def pList {α : Type} (p : P α) : P (List α) := do
  let n ← pNat
  let mut out : Array α := #[]
  for _ in [0:n] do
    out := out.push (← p)
  pure out.toList

/-- `T`, `X` (the bool False) or `f<handle>` -/
def pRaw (fl : Array F) : P Raw := do
  let t ← tok
  if t == "T" then pure (.b true)
  else if t == "X" then pure (.b false)
  else if t.startsWith "f" then
    match (t.drop 1).toString.toNat? with
    | some i => match fl[i]? with
      | some f => pure (.f f)
      | none => failure
    | none => failure
  else failure

/-- `F` or `<key>:<tag>` -/
def pKP : P KP := do
  let t ← tok
  if t == "F" then pure .flush else
  match t.splitOn ":" with
  | [a, b] => match a.toNat?, b.toNat? with
    | some k, some g => pure (.key k g)
    | _, _ => failure
  | _ => failure

def pROp (d : DS) : P ROp := do
  match (← tok) with
  | "add" =>
    let r ← pNat; let hid ← pNat
    let f ← pRaw d.fl; let e ← pRaw d.fl; let g ← pRaw d.fl; let m ← pRaw d.fl
    let keys ← pList pNat
    pure (.add r keys hid f e g m)
  | "addb" =>
    let r ← pNat; let t ← pNat
    let f ← pRaw d.fl; let e ← pRaw d.fl; let g ← pRaw d.fl
    let keys ← pList pNat
    match d.tmpl[t]? with
    | some b => pure (.addB r keys b f e g)
    | none => failure
  | "rmh" => let r ← pNat; let hid ← pNat; pure (.removeH r hid)
  | "rmk" => let r ← pNat; let keys ← pList pNat; pure (.removeK r keys)
  | "target" => let r ← pNat; let t ← pOptNat; pure (.target r t)
  | _ => failure

def pOutcome : P Outcome := do
  match (← tok) with
  | "ok" => pure .ok
  | "ro" => pure .readonly
  | "raise" => pure .raise
  | _ => failure

def pMacroOp : P MacroOp := do
  match (← tok) with
  | "S" => pure .start
  | "E" => pure .stop
  | "C" => pure .call
  | "VS" => pure .viStart
  | "VE" => pure .viStop
  | _ => failure

/-- `N` or the code point of the character passed to `append_to_arg_count` -/
def pOptChar : P (Option Char) := do
  let t ← tok
  if t == "N" then pure none else
  match t.toNat? with
  | some n => pure (some (Char.ofNat n))
  | none => failure

def pEff (d : DS) : P Eff := do
  let flips ← pList pNat
  let ops ← pList (pROp d)
  let feeds ← pList (do let first ← pBool; let kps ← pList pKP; pure (kps, first))
  let macros ← pList pMacroOp
  let exit ← pBool
  let argKey ← pOptChar
  let outcome ← pOutcome
  pure { flips, ops, feeds, macros, exit, argKey, outcome }

/-- `E<str>` (a `Keys` member, by value) or `S<str>` (a plain string) -/
def pRawKey : P RawKey := do
  let t ← tok
  match decStr (t.drop 1).toString with
  | some x => if t.startsWith "E" then pure (.enum x) else if t.startsWith "S" then pure (.str x) else failure
  | none => failure

/-! ### printing -/

partial def reprF : F → String
  | .always => "A"
  | .never => "N"
  | .cond _ v => s!"c{v}"
  | .andL _ fs => "&(" ++ ",".intercalate (fs.map reprF) ++ ")"
  | .orL _ fs => "|(" ++ ",".intercalate (fs.map reprF) ++ ")"
  | .inv _ f => "~" ++ reprF f

def reprKeys (ks : List Key) : String := ".".intercalate (ks.map toString)

def reprBinding (b : Binding) : String :=
  s!"h{b.hid}/{reprKeys b.keys}/{reprF b.filter}/{reprF b.eager}/{reprF b.isGlobal}/{reprF b.rim}"

def reprBindings (bs : List Binding) : String := encList reprBinding bs

partial def reprVer : Ver → String
  | .num n => toString n
  | .tup l => "(" ++ ",".intercalate (l.map reprVer) ++ ")"
  | .dyn t v => s!"<{t};{reprVer v}>"

def reprKP : KP → String
  | .flush => "F"
  | .key k g => s!"{k}:{g}"

def reprKPs (l : List KP) : String := "[" ++ ",".intercalate (l.map reprKP) ++ "]"

def showArg : Arg → String
  | none => "~"
  | some s => String.ofList s

def showArgVal (a : Arg) : String :=
  match argValue Gen.C04.argCap a with
  | some v => toString v
  | none => "!"

def reprObs : Obs → List String
  | .pop k => [s!"P{reprKP k}"]
  | .before => ["B"]
  | .after => ["A"]
  | .call h s p => [s!"C{h}{reprKPs s}{reprKPs p}"]
  | .bell => ["L"]
  | .drop k => [s!"D{reprKP k}"]
  | .requeue ks => [s!"Q{reprKPs ks}"]
  | .cpr (some h) k p => [s!"K{h}[{reprKP k}]{reprKPs p}"]
  | .cpr none k _ => [s!"KN[{reprKP k}]"]
  | .cprRaise h k p => [s!"K{h}[{reprKP k}]{reprKPs p}", "R"]
  | .raise h s p => [s!"C{h}{reprKPs s}{reprKPs p}", "R"]
  | .ev a r => [s!"E{showArg a}/{encBool r}/{showArgVal a}"]
  | .recE s => [s!"ME{reprKPs s}"]
  | .recV s => [s!"MV{reprKPs s}"]

/-- the numbering of keys shared with harness/c04.py (`knum`): a few fixed small numbers, else
    1000 + position in `Keys` / 2000 + code point -/
def legacySpecial : List (String × Nat) :=
  [("<any>", 0), ("<cursor-position-response>", 1), ("c-x", 4), ("escape", 6), ("c-c", 7), ("<sigint>", 9)]
def legacyChar : List (Char × Nat) := [('a', 2), ('b', 3), ('c', 5), ('d', 8), ('?', 63)]

def keyNum : PKey → Nat
  | .special v =>
    match legacySpecial.lookup (String.ofList v) with
    | some n => n
    | none => 1000 + (Gen.C04.keyValues.findIdx? (· == v)).getD 999
  | .char c =>
    match legacyChar.lookup c with
    | some n => n
    | none => 2000 + c.toNat

def reprPKey : PKey → String
  | .special v => "K" ++ encStr v
  | .char c => s!"C{c.toNat}"

def reprRopErr : RopErr → String
  | .valueError => "err:ValueError"
  | .unboundLocal => "err:UnboundLocalError"
  | .assertion => "err:AssertionError"

def sameIdx (fl : Array F) (r : F) : Int :=
  match r with
  | .always => -1
  | .never => -1
  | _ => match fl.toList.findIdx? (fun f => f.same r) with
    | some i => i
    | none => -1

def pushF (d : DS) (h : Heap) (r : F) : DS × String :=
  let same := sameIdx d.fl r
  let x := d.ps.w
  ({ d with ps := { d.ps with w := { x with t := { x.t with heap := h } } }, fl := d.fl.push r },
   s!"{reprF r} {same}")

def setT (d : DS) (t : W) : DS := { d with ps := { d.ps with w := { d.ps.w with t := t } } }

def procReply (d : DS) (obs : List Obs) : String :=
  encList id (obs.flatMap reprObs) ++
    s!" # {reprKPs d.ps.buffer} # {reprKPs d.ps.queue} # {reprKPs d.ps.prev} # {showArg d.ps.arg}"

def reprOptKPs : Option (List KP) → String
  | none => "~"
  | some l => reprKPs l

def processFuel : Nat := 100000

def stepLine (d : DS) (toks : List String) : DS × String :=
  let x := d.ps.w
  let bad := (d, "bad-op")
  let run {α : Type} (p : P α) (rest : List String) : Option α :=
    match p.run rest with
    | some (a, []) => some a
    | _ => none
  match toks with
  | ["new"] => ({}, "ok")
  | ["cond", v] =>
    match v.toNat? with
    | some v => let r := mkCond x.t.heap v; pushF d r.1 r.2
    | none => bad
  | ["and", i, j] =>
    match i.toNat?.bind (d.fl[·]?), j.toNat?.bind (d.fl[·]?) with
    | some a, some b => let r := fAnd x.t.heap a b; pushF d r.1 r.2
    | _, _ => bad
  | ["or", i, j] =>
    match i.toNat?.bind (d.fl[·]?), j.toNat?.bind (d.fl[·]?) with
    | some a, some b => let r := fOr x.t.heap a b; pushF d r.1 r.2
    | _, _ => bad
  | ["inv", i] =>
    match i.toNat?.bind (d.fl[·]?) with
    | some a => let r := fInv x.t.heap a; pushF d r.1 r.2
    | none => bad
  | ["tof", b] =>
    match decBool b with
    | some b => pushF d x.t.heap (toFilter b)
    | none => bad
  | ["ev", i] =>
    match i.toNat?.bind (d.fl[·]?) with
    | some a => (d, encBool (a.eval (envFn x.t.env)))
    | none => bad
  | ["flip", v] =>
    match v.toNat? with
    | some v => (setT d { x.t with env := flipEnv x.t.env v }, "ok")
    | none => bad
  | ["setdone", b] =>
    match decBool b with
    | some b => ({ d with ps := { d.ps with w := { x with done := b } } }, "ok")
    | none => bad
  | "mk" :: rest =>
    let mk : Option Mk := match rest with
      | ["kb"] => some .kb
      | ["cond", c, f] => do
        let c ← c.toNat?
        let f ← run (pRaw d.fl) [f]
        pure (.cond c f)
      | "merged" :: cs => (run (pList pNat) cs).map .merged
      | ["dyn", t] => (run pOptNat [t]).map .dyn
      | ["glob", c] => c.toNat?.map .glob
      | _ => none
    match mk.bind (mkReg x.t) with
    | some t => (setT d t, "ok")
    | none => bad
  | "tmpl" :: rest =>
    match run (do let hid ← pNat; let f ← pRaw d.fl; let e ← pRaw d.fl; let g ← pRaw d.fl
                  let m ← pRaw d.fl
                  pure ({ keys := [], hid := hid, filter := f.toF, eager := e.toF,
                          isGlobal := g.toF, rim := m.toF } : Binding)) rest with
    | some b => ({ d with tmpl := d.tmpl.push b }, "ok")
    | none => bad
  | "op" :: rest =>
    match run (pROp d) rest with
    | some op =>
      let r := applyROp x.t op
      (setT d r.1, if r.2 then "ok" else match ropErr x.t op with
        | some e => reprRopErr e
        | none => "fail")
    | none => bad
  -- `kb.add(*raw_keys)(handler)`: the keys go through `_parse_key`
  | "addr" :: r :: hid :: rest =>
    match r.toNat?, hid.toNat?, run (pList pRawKey) rest with
    | some r, some hid, some raws =>
      match x.t.regs[r]? with
      | some (.kb _) =>
        if raws.isEmpty then (d, "err:AssertionError") else
        match parseKeys Gen.C04.keyAliases Gen.C04.keyValues raws with
        | some ks =>
          let q := applyROp x.t (.add r (ks.map keyNum) hid (.b true) (.b false) (.b false) (.b true))
          (setT d q.1, if q.2 then "ok" else "fail")
        | none => (d, "err:ValueError")
      | _ => (d, "fail")
    | _, _, _ => bad
  | ["parse", raw] =>
    match run pRawKey [raw] with
    | some rk =>
      match parseKey Gen.C04.keyAliases Gen.C04.keyValues rk with
      | some k => (d, s!"{reprPKey k} {keyNum k}")
      | none => (d, "err:ValueError")
    | none => bad
  -- KeyPressEvent(arg=<str>).arg after appending the given characters one by one
  | "argv" :: rest =>
    match run (pList pNat) rest with
    | some cps =>
      let step := fun (acc : Option Arg) (n : Nat) => match acc with
        | some a => (appendArg a (Char.ofNat n)).map some
        | none => none
      match cps.foldl step (some none) with
      | some a => (d, s!"{showArg a} {showArgVal a}")
      | none => (d, "err:AssertionError")
    | none => bad
  -- the re-feeding handler: `fuel` iterations of the process_keys loop
  | ["refeed", n] =>
    match n.toNat? with
    | some n =>
      let r := processKeys loopI n loopPS
      let calls := (r.2.1.filter fun o => match o with | .call _ _ _ => true | _ => false).length
      (d, s!"calls={calls} queued={r.1.queue.length} raised={encBool r.2.2}")
    | none => bad
  | ["mstate"] =>
    let datas := String.join (x.vrec.map fun
      | .key _ t => toString t
      | .flush => "_Flush")
    (d, s!"{reprOptKPs x.erec} {reprOptKPs x.lastMacro} {encBool x.vreg} [{datas}]")
  | "for" :: r :: rest =>
    match r.toNat?, run (pList pNat) rest with
    | some r, some keys => let q := x.t.fns.getFor x.t r keys; (setT d q.1, reprBindings q.2)
    | _, _ => bad
  | "start" :: r :: rest =>
    match r.toNat?, run (pList pNat) rest with
    | some r, some keys => let q := x.t.fns.getStart x.t r keys; (setT d q.1, reprBindings q.2)
    | _, _ => bad
  | ["bindings", r] =>
    match r.toNat? with
    | some r => let q := x.t.fns.bindings x.t r; (setT d q.1, reprBindings q.2)
    | none => bad
  | ["version", r] =>
    match r.toNat? with
    | some r => let q := x.t.fns.version x.t r; (setT d q.1, reprVer q.2)
    | none => bad
  | "handler" :: hid :: rest =>
    match hid.toNat?, run (pList (pEff d)) rest with
    | some hid, some effs =>
      let sc := if hid < x.scripts.length then x.scripts.set hid effs
                else x.scripts ++ List.replicate (hid - x.scripts.length) [] ++ [effs]
      -- (re)defining a script re-arms the handler: its invocation counter starts again at 0
      let hc := if hid < x.hcount.length then x.hcount.set hid 0 else x.hcount
      ({ d with ps := { d.ps with w := { x with scripts := sc, hcount := hc } } }, "ok")
    | _, _ => bad
  | ["proc", r] =>
    match r.toNat? with
    | some r => ({ d with ps := { w := { x with root := r } } }, "ok")
    | none => bad
  | "feed" :: first :: rest =>
    match decBool first, run (pList pKP) rest with
    | some first, some kps =>
      ({ d with ps := { d.ps with queue := feedMultiple d.ps.queue kps first } }, "ok")
    | _, _ => bad
  | ["process"] =>
    let r := processKeys worldIface processFuel d.ps
    let d' := { d with ps := r.1 }
    (d', procReply d' r.2.1)
  | ["reset"] => ({ d with ps := resetPS d.ps }, "ok")
  | ["emptyq"] =>
    let r := emptyQueue d.ps
    ({ d with ps := r.1 }, reprKPs r.2)
  | _ => bad

def main : IO Unit := runS stepLine {}
