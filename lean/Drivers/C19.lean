import Ptk.Proto
import Ptk.Gen.PyChars
import Ptk.Gen.C19
import Ptk.Model.C19
import Ptk.Model.C19Color
import Ptk.Model.C19Ansi
import Ptk.Model.C19Merge
open Ptk Ptk.Py Ptk.Proto Ptk.C19

def T : Tables := Gen.C19.tables
def sp : Char → Bool := Gen.isSpace
def rsp : Char → Bool := Gen.reSpace

def decOptStr (tok : String) : Option (Option Text) :=
  if tok == "N" then some none else (decStr tok).map some
def decOptBool (tok : String) : Option (Option Bool) :=
  if tok == "N" then some none else (decBool tok).map some
def encOptStr : Option Text → String
  | none => "N"
  | some t => encStr t
def encOptBool : Option Bool → String
  | none => "N"
  | some b => encBool b

def decAttrs : List String → Option (Attrs × List String)
  | c :: b :: bo :: un :: st :: it :: bl :: re :: hi :: rest => do
    let a : Attrs := { color := ← decOptStr c, bgcolor := ← decOptStr b, bold := ← decOptBool bo,
                       underline := ← decOptBool un, strike := ← decOptBool st, italic := ← decOptBool it,
                       blink := ← decOptBool bl, reverse := ← decOptBool re, hidden := ← decOptBool hi }
    pure (a, rest)
  | _ => none

def encAttrs (a : Attrs) : String :=
  " ".intercalate [encOptStr a.color, encOptStr a.bgcolor, encOptBool a.bold, encOptBool a.underline,
    encOptBool a.strike, encOptBool a.italic, encOptBool a.blink, encOptBool a.reverse, encOptBool a.hidden]

def encErr : Err → String
  | .assertion => "err:AssertionError"
  | .value => "err:ValueError"

/-- `n (s:names s:style)^n` -/
def decRules : Nat → List String → Option (List (Text × Text) × List String)
  | 0, rest => some ([], rest)
  | n + 1, a :: b :: rest => do
    let x ← decStr a
    let y ← decStr b
    let (rs, rest') ← decRules n rest
    pure ((x, y) :: rs, rest')
  | _, _ => none

/-- `k` sheets, each `N` or `n rules...` -/
def decSheets : Nat → List String → Option (List (Option (List (Text × Text))) × List String)
  | 0, rest => some ([], rest)
  | k + 1, tok :: rest =>
    if tok == "N" then do
      let (ss, rest') ← decSheets k rest
      pure (none :: ss, rest')
    else do
      let n ← decNat tok
      let (rs, rest1) ← decRules n rest
      let (ss, rest2) ← decSheets k rest1
      pure (some rs :: ss, rest2)
  | _, _ => none

def decStrs : Nat → List String → Option (List Text × List String)
  | 0, rest => some ([], rest)
  | n + 1, a :: rest => do
    let x ← decStr a
    let (xs, rest') ← decStrs n rest
    pure (x :: xs, rest')
  | _, _ => none

def decDepth (tok : String) : Option Depth :=
  if tok == "1" then some .d1 else if tok == "4" then some .d4
  else if tok == "8" then some .d8 else if tok == "24" then some .d24 else none

def encFrags (l : List (Text × Text)) : String :=
  encList (fun f => encStr f.1 ++ " " ++ encStr f.2) l

def handle (toks : List String) : String :=
  match toks with
  | "q" :: rest =>
    (do
      let (dflt, r1) ← decAttrs rest
      match r1 with
      | k :: r2 =>
        let (sheets, r3) ← decSheets (← decNat k) r2
        match r3 with
        | [s] =>
          let s ← decStr s
          pure (match query T sp rsp sheets s dflt with
                | .ok a => encAttrs a
                | .error e => encErr e)
        | _ => none
      | _ => none).getD "bad-op"
  | ["pc", s] =>
    (do pure (match parseColor T (← decStr s) with
              | some c => encStr c
              | none => "err:ValueError")).getD "bad-op"
  | ["ps", s] =>
    (do pure (match parseStyleStr T sp (← decStr s) with
              | some a => encAttrs a
              | none => "err:ValueError")).getD "bad-op"
  | ["ex", s] => (do pure (encList encStr (expandClassname (← decStr s)))).getD "bad-op"
  | ["c256", r, g, b] =>
    (do pure (toString (closest256 T.pal256 (← decNat r, ← decNat g, ← decNat b)))).getD "bad-op"
  | ["c256row", r, g] =>
    (do
      let r ← decNat r
      let g ← decNat g
      pure (" ".intercalate ((List.range 256).map fun b => toString (closest256 T.pal256 (r, g, b))))
    ).getD "bad-op"
  | "c16" :: r :: g :: b :: n :: rest =>
    (do
      let (ex, rest') ← decStrs (← decNat n) rest
      if !rest'.isEmpty then none
      pure (encStr (closest16 T.ansiRgb (← decNat r, ← decNat g, ← decNat b) ex))).getD "bad-op"
  | "c16code" :: bg :: r :: g :: b :: n :: rest =>
    (do
      let (ex, rest') ← decStrs (← decNat n) rest
      if !rest'.isEmpty then none
      pure (match code16 T (← decBool bg) (← decNat r, ← decNat g, ← decNat b) ex with
            | some (code, name) => s!"{code} {encStr name}"
            | none => "err:KeyError")).getD "bad-op"
  | "esc" :: d :: rest =>
    (do
      let (a, r) ← decAttrs rest
      if !r.isEmpty then none
      pure (encStr (escapeCode T sp (← decDepth d) a))).getD "bad-op"
  | ["hex", s] =>
    (do pure (match colorNameToRgb sp (← decStr s) with
              | some (r, g, b) => s!"{r} {g} {b}"
              | none => "err:ValueError")).getD "bad-op"
  | ["ansi", s] => (do pure (encFrags (ansiFragments T (← decStr s)))).getD "bad-op"
  | "rt" :: d :: rest =>
    -- round trip: escape code -> ANSI(escape + 'x') -> style string -> Style([]).get_attrs_for_style_str
    (do
      let (a, r) ← decAttrs rest
      if !r.isEmpty then none
      let e := escapeCode T sp (← decDepth d) a
      let frags := ansiFragments T (e ++ ['x'])
      match frags with
      | [(style, _)] =>
        pure (match getAttrs T sp [] style T.defaultAttrs with
              | some a' => encStr style ++ " " ++ encAttrs a'
              | none => "err:ValueError")
      | _ => pure ("frags:" ++ encFrags frags)).getD "bad-op"
  | _ => "bad-op"

/-- `k (N|ref)^k` -/
def decParts : Nat → List String → Option (List (Option Nat) × List String)
  | 0, rest => some ([], rest)
  | k + 1, tok :: rest =>
    if tok == "N" then do
      let (ps, rest') ← decParts k rest
      pure (none :: ps, rest')
    else do
      let r ← decNat tok
      let (ps, rest') ← decParts k rest
      pure (some r :: ps, rest')
  | _, _ => none

def encRules (l : List RawRule) : String :=
  encList (fun r => encStr r.1 ++ " " ++ encStr r.2) l

def encRes : Except Err Attrs → String
  | .ok a => encAttrs a
  | .error e => encErr e

/-- session ops over shared style objects (the heap of rule lists is the driver state):
    `new` | `sheet n rules…` | `sq <attrs> S ref str` | `sq <attrs> M k parts… str` |
    `srules S ref` | `srules M k parts…`; every other line is a stateless op -/
def stepLine (h : Heap) (toks : List String) : Heap × String :=
  match toks with
  | ["new"] => ({}, "ok")
  | "sheet" :: n :: rest =>
    match (do let (rs, r) ← decRules (← decNat n) rest; if r.isEmpty then pure rs else none) with
    | some rs => let (h', r) := h.alloc rs; (h', s!"ok {r}")
    | none => (h, "bad-op")
  | "sq" :: rest =>
    match decAttrs rest with
    | some (d, ["S", r, s]) =>
      match decNat r, decStr s with
      | some r, some s => (h, encRes (sheetQuery T sp rsp h r s d))
      | _, _ => (h, "bad-op")
    | some (d, "M" :: k :: r1) =>
      match (do let (ps, r2) ← decParts (← decNat k) r1
                match r2 with
                | [s] => pure (ps, ← decStr s)
                | _ => none) with
      | some (ps, s) => let (h', res) := mergedQuery T sp rsp h ps s d; (h', encRes res)
      | none => (h, "bad-op")
    | _ => (h, "bad-op")
  | ["srules", "S", r] =>
    match decNat r with
    | some r => (h, encRules (h.get r))
    | none => (h, "bad-op")
  | "srules" :: "M" :: k :: r1 =>
    match (do let (ps, r2) ← decParts (← decNat k) r1; if r2.isEmpty then pure ps else none) with
    | some ps => let (h', r) := mergedStyleRules h ps; (h', encRules (h'.get r))
    | none => (h, "bad-op")
  | _ => (h, handle toks)

def main : IO Unit := runS stepLine {}
