import Ptk.Proto
import Ptk.Gen.PyChars
import Ptk.Gen.C19
import Ptk.Model.C19
import Ptk.Model.C19Color
import Ptk.Model.C19Ansi
import Ptk.Model.C19Merge
import Ptk.Model.C19Dict
import Ptk.Model.C19Obj
import Ptk.Model.C19Transform
import Ptk.Gen.C19X
open Ptk Ptk.Py Ptk.Proto Ptk.C19

def T : Tables := Gen.C19.tables
def sp : Char → Bool := Gen.isSpace
def rsp : Char → Bool := Gen.reSpace

def decOptStr (tok : String) : Option (Option Text) :=
  if tok == "N" then some none else (decStr tok).map some
def decOptBool (tok : String) : Option (Option Bool) :=
  if tok == "N" then some none else (decBool tok).map some
def encOptStr : Option Text → String
  | none => "N"
  | some t => encStr t
def encOptBool : Option Bool → String
  | none => "N"
  | some b => encBool b

def decAttrs : List String → Option (Attrs × List String)
  | c :: b :: bo :: un :: st :: it :: bl :: re :: hi :: rest => do
    let a : Attrs := { color := ← decOptStr c, bgcolor := ← decOptStr b, bold := ← decOptBool bo,
                       underline := ← decOptBool un, strike := ← decOptBool st, italic := ← decOptBool it,
                       blink := ← decOptBool bl, reverse := ← decOptBool re, hidden := ← decOptBool hi }
    pure (a, rest)
  | _ => none

def encAttrs (a : Attrs) : String :=
  " ".intercalate [encOptStr a.color, encOptStr a.bgcolor, encOptBool a.bold, encOptBool a.underline,
    encOptBool a.strike, encOptBool a.italic, encOptBool a.blink, encOptBool a.reverse, encOptBool a.hidden]

def encErr : Err → String
  | .assertion => "err:AssertionError"
  | .value => "err:ValueError"

/-- `n (s:names s:style)^n` -/
def decRules : Nat → List String → Option (List (Text × Text) × List String)
  | 0, rest => some ([], rest)
  | n + 1, a :: b :: rest => do
    let x ← decStr a
    let y ← decStr b
    let (rs, rest') ← decRules n rest
    pure ((x, y) :: rs, rest')
  | _, _ => none

/-- `k` sheets, each `N` or `n rules...` -/
def decSheets : Nat → List String → Option (List (Option (List (Text × Text))) × List String)
  | 0, rest => some ([], rest)
  | k + 1, tok :: rest =>
    if tok == "N" then do
      let (ss, rest') ← decSheets k rest
      pure (none :: ss, rest')
    else do
      let n ← decNat tok
      let (rs, rest1) ← decRules n rest
      let (ss, rest2) ← decSheets k rest1
      pure (some rs :: ss, rest2)
  | _, _ => none

def decStrs : Nat → List String → Option (List Text × List String)
  | 0, rest => some ([], rest)
  | n + 1, a :: rest => do
    let x ← decStr a
    let (xs, rest') ← decStrs n rest
    pure (x :: xs, rest')
  | _, _ => none

def decDepth (tok : String) : Option Depth :=
  if tok == "1" then some .d1 else if tok == "4" then some .d4
  else if tok == "8" then some .d8 else if tok == "24" then some .d24 else none

def encFrags (l : List (Text × Text)) : String :=
  encList (fun f => encStr f.1 ++ " " ++ encStr f.2) l

/-! ### style objects: `S id n rules…` | `D` | `N` | `Y obj` | `M k obj^k` -/
mutual
partial def decObj : List String → Option (SObj × List String)
  | "S" :: i :: n :: rest => do
    let (rs, r) ← decRules (← decNat n) rest
    pure (.sheet (← decNat i) rs, r)
  | "D" :: rest => some (.dummy, rest)
  | "N" :: rest => some (.dynNone, rest)
  | "Y" :: rest => do
    let (o, r) ← decObj rest
    pure (.dyn o, r)
  | "M" :: k :: rest => do
    let (os, r) ← decObjs (← decNat k) rest
    pure (.merged os, r)
  | _ => none
partial def decObjs : Nat → List String → Option (List SObj × List String)
  | 0, rest => some ([], rest)
  | k + 1, rest => do
    let (o, r) ← decObj rest
    let (os, r') ← decObjs k r
    pure (o :: os, r')
end

partial def encH : H → String
  | .id n => s!"I{n}"
  | .one => "1"
  | .tup l => "(" ++ ",".intercalate (l.map encH) ++ ")"

def encRawRules (l : List (Text × Text)) : String :=
  encList (fun r => encStr r.1 ++ " " ++ encStr r.2) l

def encExc : Except Err Attrs → String
  | .ok a => encAttrs a
  | .error e => encErr e

/-! ### transformations: `W` | `R` | `SD fg bg` | `AB mn mx` | `D` | `N` | `Y t` | `C b t` | `M k t^k` -/
mutual
partial def decTr : List String → Option (Tr × List String)
  | "W" :: rest => some (.swap, rest)
  | "R" :: rest => some (.reverse, rest)
  | "SD" :: fg :: bg :: rest => do pure (.setDefault (← decStr fg) (← decStr bg), rest)
  | "AB" :: mn :: mx :: rest => do pure (.adjust (← decInt mn) (← decInt mx), rest)
  | "D" :: rest => some (.dummy, rest)
  | "N" :: rest => some (.dynNone, rest)
  | "Y" :: rest => do
    let (t, r) ← decTr rest
    pure (.dyn t, r)
  | "C" :: b :: rest => do
    let (t, r) ← decTr rest
    pure (.cond t (← decBool b), r)
  | "M" :: k :: rest => do
    let (ts, r) ← decTrs (← decNat k) rest
    pure (.merged ts, r)
  | _ => none
partial def decTrs : Nat → List String → Option (List Tr × List String)
  | 0, rest => some ([], rest)
  | k + 1, rest => do
    let (t, r) ← decTr rest
    let (ts, r') ← decTrs k r
    pure (t :: ts, r')
end

partial def encTH : TH → String
  | .inst c => s!"inst{c}"
  | .setDefault fg bg => "sd:" ++ encStr fg ++ ":" ++ encStr bg
  | .adjust mn mx => s!"ab:{mn}:{mx}"
  | .dummy => "dummy"
  | .cond f h => "c" ++ encBool f ++ "[" ++ encTH h ++ "]"
  | .tup l => "(" ++ ",".intercalate (l.map encTH) ++ ")"

/-- measured float results: `SW color result` / `AD mn mx color result` -/
def decFlt : Nat → List String → Option (List (Text × Text) × List (Int × Int × Text × Text) × List String)
  | 0, rest => some ([], [], rest)
  | n + 1, "SW" :: c :: r :: rest => do
    let (sw, ad, rest') ← decFlt n rest
    pure ((← decStr c, ← decStr r) :: sw, ad, rest')
  | n + 1, "AD" :: mn :: mx :: c :: r :: rest => do
    let (sw, ad, rest') ← decFlt n rest
    pure (sw, (← decInt mn, ← decInt mx, ← decStr c, ← decStr r) :: ad, rest')
  | _, _ => none

def mkFlt (sw : List (Text × Text)) (ad : List (Int × Int × Text × Text)) : Flt :=
  { swap := fun c => (lookup c sw).getD [],
    adjust := fun mn mx c =>
      match ad.find? (fun e => e.1 == mn && e.2.1 == mx && e.2.2.1 == c) with
      | some e => e.2.2.2
      | none => [] }

def XT : TrTables := Gen.C19X.trTables

/-- `n (k tok^k style)^n` : items of a pygments style dict -/
def decPyg : Nat → List String → Option (List (List Text × Text) × List String)
  | 0, rest => some ([], rest)
  | n + 1, k :: rest => do
    let (toks, r1) ← decStrs (← decNat k) rest
    match r1 with
    | st :: r2 =>
      let (xs, r3) ← decPyg n r2
      pure ((toks, ← decStr st) :: xs, r3)
    | [] => none
  | _, _ => none

def handle (toks : List String) : String :=
  match toks with
  | "fd" :: mp :: n :: rest =>
    (do
      let (rs, r) ← decRules (← decNat n) rest
      if !r.isEmpty then none
      let out := fromDictRules sp (← decBool mp) rs
      -- (when `Style(...)` rejects a rule the constructor's error is all the caller sees)
      pure (match compile T sp rsp out with
            | .error e => encErr e
            | .ok _ => encRawRules out)).getD "bad-op"
  | "fdq" :: mp :: rest =>
    (do
      let (dflt, r1) ← decAttrs rest
      match r1 with
      | n :: r2 =>
        let (rs, r3) ← decRules (← decNat n) r2
        match r3 with
        | [s] => pure (encExc (cascade T sp rsp (fromDictRules sp (← decBool mp) rs) (← decStr s) dflt))
        | _ => none
      | _ => none).getD "bad-op"
  | "pyg" :: n :: rest =>
    (do
      let (items, r) ← decPyg (← decNat n) rest
      if !r.isEmpty then none
      pure (encRawRules (pygmentsRules items))).getD "bad-op"
  | "orules" :: rest =>
    (do
      let (o, r) ← decObj rest
      if !r.isEmpty then none
      pure (encRawRules (rulesOf o))).getD "bad-op"
  | "ohash" :: rest =>
    (do
      let (o, r) ← decObj rest
      if !r.isEmpty then none
      pure (encH (hashOf o))).getD "bad-op"
  | "oq" :: rest =>
    (do
      let (dflt, r1) ← decAttrs rest
      let (o, r2) ← decObj r1
      match r2 with
      | [s] => pure (encExc (queryObj T sp rsp o (← decStr s) dflt))
      | _ => none).getD "bad-op"
  | "app" :: inc :: rest =>
    (do
      let (dflt, r1) ← decAttrs rest
      match r1 with
      | "U" :: r2 =>
        let (o, r3) ← decObj r2
        match r3 with
        | [s] => pure (encExc (queryObj T sp rsp
                    (appStyle Gen.C19X.uiSheets Gen.C19X.pygRules (← decBool inc) (some o)) (← decStr s) dflt))
        | _ => none
      | ["X", s] => pure (encExc (queryObj T sp rsp
                    (appStyle Gen.C19X.uiSheets Gen.C19X.pygRules (← decBool inc) none) (← decStr s) dflt))
      | _ => none).getD "bad-op"
  | "tr" :: rest =>
    (do
      let (a, r1) ← decAttrs rest
      match r1 with
      | n :: r2 =>
        let (sw, ad, r3) ← decFlt (← decNat n) r2
        let (t, r4) ← decTr r3
        if !r4.isEmpty then none
        pure (encExc (Tr.apply T XT (mkFlt sw ad) sp t a))
      | _ => none).getD "bad-op"
  | "trh" :: rest =>
    (do
      let (t, r) ← decTr rest
      if !r.isEmpty then none
      pure (encTH (Tr.hash t))).getD "bad-op"
  | "stream" :: d :: n :: rest =>
    (do
      let depth ← decDepth d
      let rec go : Nat → Nat → List String → Option (Text × List String)
        | 0, _, r => some ([], r)
        | k + 1, i, r => do
          let (a, r') ← decAttrs r
          let (t, r'') ← go k (i + 1) r'
          pure (escapeCode T sp depth a ++ [Char.ofNat (97 + i % 26)] ++ t, r'')
      let (text, r) ← go (← decNat n) 0 rest
      if !r.isEmpty then none
      pure (encFrags (ansiFragments T text))).getD "bad-op"
  | "q" :: rest =>
    (do
      let (dflt, r1) ← decAttrs rest
      match r1 with
      | k :: r2 =>
        let (sheets, r3) ← decSheets (← decNat k) r2
        match r3 with
        | [s] =>
          let s ← decStr s
          pure (match query T sp rsp sheets s dflt with
                | .ok a => encAttrs a
                | .error e => encErr e)
        | _ => none
      | _ => none).getD "bad-op"
  | ["pc", s] =>
    (do pure (match parseColor T (← decStr s) with
              | some c => encStr c
              | none => "err:ValueError")).getD "bad-op"
  | ["ps", s] =>
    (do pure (match parseStyleStr T sp (← decStr s) with
              | some a => encAttrs a
              | none => "err:ValueError")).getD "bad-op"
  | ["ex", s] => (do pure (encList encStr (expandClassname (← decStr s)))).getD "bad-op"
  | ["c256", r, g, b] =>
    (do pure (toString (closest256 T.pal256 (← decNat r, ← decNat g, ← decNat b)))).getD "bad-op"
  | ["c256row", r, g] =>
    (do
      let r ← decNat r
      let g ← decNat g
      pure (" ".intercalate ((List.range 256).map fun b => toString (closest256 T.pal256 (r, g, b))))
    ).getD "bad-op"
  | "c16" :: r :: g :: b :: n :: rest =>
    (do
      let (ex, rest') ← decStrs (← decNat n) rest
      if !rest'.isEmpty then none
      pure (encStr (closest16 T.ansiRgb (← decNat r, ← decNat g, ← decNat b) ex))).getD "bad-op"
  | "c16code" :: bg :: r :: g :: b :: n :: rest =>
    (do
      let (ex, rest') ← decStrs (← decNat n) rest
      if !rest'.isEmpty then none
      pure (match code16 T (← decBool bg) (← decNat r, ← decNat g, ← decNat b) ex with
            | some (code, name) => s!"{code} {encStr name}"
            | none => "err:KeyError")).getD "bad-op"
  | "esc" :: d :: rest =>
    (do
      let (a, r) ← decAttrs rest
      if !r.isEmpty then none
      pure (encStr (escapeCode T sp (← decDepth d) a))).getD "bad-op"
  | ["hex", s] =>
    (do pure (match colorNameToRgb sp (← decStr s) with
              | some (r, g, b) => s!"{r} {g} {b}"
              | none => "err:ValueError")).getD "bad-op"
  | ["ansi", s] => (do pure (encFrags (ansiFragments T (← decStr s)))).getD "bad-op"
  | "rt" :: d :: rest =>
    -- round trip: escape code -> ANSI(escape + 'x') -> style string -> Style([]).get_attrs_for_style_str
    (do
      let (a, r) ← decAttrs rest
      if !r.isEmpty then none
      let e := escapeCode T sp (← decDepth d) a
      let frags := ansiFragments T (e ++ ['x'])
      match frags with
      | [(style, _)] =>
        pure (match getAttrs T sp [] style T.defaultAttrs with
              | some a' => encStr style ++ " " ++ encAttrs a'
              | none => "err:ValueError")
      | _ => pure ("frags:" ++ encFrags frags)).getD "bad-op"
  | _ => "bad-op"

/-- `k (N|ref)^k` -/
def decParts : Nat → List String → Option (List (Option Nat) × List String)
  | 0, rest => some ([], rest)
  | k + 1, tok :: rest =>
    if tok == "N" then do
      let (ps, rest') ← decParts k rest
      pure (none :: ps, rest')
    else do
      let r ← decNat tok
      let (ps, rest') ← decParts k rest
      pure (some r :: ps, rest')
  | _, _ => none

def encRules (l : List RawRule) : String :=
  encList (fun r => encStr r.1 ++ " " ++ encStr r.2) l

def encRes : Except Err Attrs → String
  | .ok a => encAttrs a
  | .error e => encErr e

/-- session ops over shared style objects (the heap of rule lists is the driver state):
    `new` | `sheet n rules…` | `sq <attrs> S ref str` | `sq <attrs> M k parts… str` |
    `srules S ref` | `srules M k parts…`; every other line is a stateless op -/
def stepLine0 (h : Heap) (toks : List String) : Heap × String :=
  match toks with
  | ["new"] => ({}, "ok")
  | "sheet" :: n :: rest =>
    match (do let (rs, r) ← decRules (← decNat n) rest; if r.isEmpty then pure rs else none) with
    | some rs => let (h', r) := h.alloc rs; (h', s!"ok {r}")
    | none => (h, "bad-op")
  | "sq" :: rest =>
    match decAttrs rest with
    | some (d, ["S", r, s]) =>
      match decNat r, decStr s with
      | some r, some s => (h, encRes (sheetQuery T sp rsp h r s d))
      | _, _ => (h, "bad-op")
    | some (d, "M" :: k :: r1) =>
      match (do let (ps, r2) ← decParts (← decNat k) r1
                match r2 with
                | [s] => pure (ps, ← decStr s)
                | _ => none) with
      | some (ps, s) => let (h', res) := mergedQuery T sp rsp h ps s d; (h', encRes res)
      | none => (h, "bad-op")
    | _ => (h, "bad-op")
  | ["srules", "S", r] =>
    match decNat r with
    | some r => (h, encRules (h.get r))
    | none => (h, "bad-op")
  | "srules" :: "M" :: k :: r1 =>
    match (do let (ps, r2) ← decParts (← decNat k) r1; if r2.isEmpty then pure ps else none) with
    | some ps => let (h', r) := mergedStyleRules h ps; (h', encRules (h'.get r))
    | none => (h, "bad-op")
  | _ => (h, handle toks)

/-- the driver state: the heap of rule lists and the cache of ONE `_MergedStyle` object.
    `mnew` = a fresh merged object; `mq <attrs> k obj^k str` = a query against it, `obj^k` being the
    snapshot of its `styles` at this moment -/
def stepLine (st : Heap × MCache) (toks : List String) : (Heap × MCache) × String :=
  match toks with
  | ["mnew"] => ((st.1, {}), "ok")
  | "mq" :: rest =>
    match (do
      let (dflt, r1) ← decAttrs rest
      match r1 with
      | k :: r2 =>
        let (os, r3) ← decObjs (← decNat k) r2
        match r3 with
        | [s] => pure (dflt, os, ← decStr s)
        | _ => none
      | _ => none) with
    | some (dflt, os, s) =>
      let (c', res) := mergedQueryCached T sp rsp st.2 os s dflt
      ((st.1, c'), encExc res)
    | none => (st, "bad-op")
  | _ => let (h', r) := stepLine0 st.1 toks; ((h', st.2), r)

def main : IO Unit := runS stepLine ({}, {})
