import Ptk.Proto
import Ptk.Gen.PyChars
import Ptk.Gen.C01
import Ptk.Model.C01All
open Ptk Ptk.Py Ptk.Proto Ptk.C01

/-- the transform callback used by the correspondence harness: ASCII swapcase -/
def swapCase (t : Text) : Text := t.map fun c =>
  if c.isLower then c.toUpper else if c.isUpper then c.toLower else c

/-- `str.upper` / `str.lower` / `str.title` on ASCII letters plus U+00DF (sharp s), whose upper /
    title case mapping changes the length ("SS" / "Ss"); every other character is uncased here
    (the correspondence generators use only such characters in the case-transform commands). -/
def sharpS : Char := Char.ofNat 0xDF
def asciiUpper (t : Text) : Text := t.flatMap fun c => if c = sharpS then ['S', 'S'] else [c.toUpper]
def asciiLower (t : Text) : Text := t.map Char.toLower
def asciiTitle (t : Text) : Text :=
  (t.foldl (fun (acc : Text × Bool) c =>
    if c = sharpS then ((if acc.2 then [sharpS] else ['s', 'S']) ++ acc.1, true)
    else if c.isAlpha then ((if acc.2 then c.toLower else c.toUpper) :: acc.1, true)
    else (c :: acc.1, false)) ([], false)).1.reverse

/-- the environment of the model: runtime tables and constants regenerated from /repo -/
def env (f : Text → Text) : Env :=
  { isSpace := Gen.isSpace, reSpace := Gen.reSpace, isBreak := Gen.isLineBreak, f := f,
    hsBefore := Gen.C01.hspaceBefore, hsAfter := Gen.C01.hspaceAfter,
    commentPrefix := Gen.C01.commentPrefix, commentArg := Gen.C01.commentArg,
    killWordNegFixed := Gen.C01.killWordNegFixed,
    reshapeDefaultWidth := Gen.C01.reshapeDefaultWidth }

def parseOp : List String → Option Op
  | ["ins", d, o, m] => do pure (.insert (← decStr d) (← decBool o) (← decBool m))
  | ["del", n] => do pure (.delete (← decInt n))
  | ["delb", n] => do pure (.deleteBefore (← decNat n))
  | ["nl", c] => do pure (.newline (← decBool c))
  | ["above", c] => do pure (.lineAbove (← decBool c))
  | ["below", c] => do pure (.lineBelow (← decBool c))
  | ["join", s] => do pure (.joinNext (← decStr s))
  | ["swap"] => some .swap
  | ["cur", v] => do pure (.setCursor (← decInt v))
  | ["text", t] => do pure (.setText (← decStr t))
  | ["trl"] => some .trLine
  | ["trr", a, b] => do pure (.trRegion (← decNat a) (← decNat b))
  | ["ind", a, b, n] => do pure (.indent (← decInt a) (← decInt b) (← decNat n))
  | ["unind", a, b, n] => do pure (.unindent (← decInt a) (← decInt b) (← decNat n))
  | ["bdc", a] => do pure (.backwardDeleteChar (← decInt a))
  | ["dc", a] => do pure (.deleteChar (← decInt a))
  | ["si", d, a] => do pure (.selfInsert (← decStr d) (← decInt a))
  | ["tc"] => some .transposeChars
  | ["setdoc", t, c] => do pure (.setDoc (← decStr t) (← decInt c))
  | ["jsl", o, sp] => do pure (.joinSelected (← decNat o) (← decStr sp))
  | _ => none

/-- an op line -> the operation and the callback it runs with -/
def parseOp2 (toks : List String) : Option (Op2 × (Text → Text)) :=
  match toks with
  | ["uw", n] => do pure (.base (.trWords (← decInt n).toNat), asciiUpper)
  | ["lw", n] => do pure (.base (.trWords (← decInt n).toNat), asciiLower)
  | ["cw", n] => do pure (.base (.trWords (← decInt n).toNat), asciiTitle)
  | ["kw", a] => do pure (.killWord (← decInt a), swapCase)
  | ["rub", a, w] => do pure (.rubout (← decInt a) (← decBool w), swapCase)
  | ["kl", a] => do pure (.killLine (← decInt a), swapCase)
  | ["uld"] => some (.lineDiscard, swapCase)
  | ["dhs"] => some (.delHSpace, swapCase)
  | ["qi", d] => do pure (.quotedInsert (← decStr d), swapCase)
  | ["ic", a] => do pure (.insertComment (← decInt a), swapCase)
  | ["rotext", t] => do pure (.roText (← decStr t), swapCase)
  | ["rosetdoc", bp, t, c] => do pure (.roSetDoc (← decBool bp) (← decStr t) (← decInt c), swapCase)
  | ["rs", x, y, w] => do pure (.reshape (← decInt x) (← decInt y) (← decNat w), swapCase)
  | _ => (parseOp toks).map fun o => (.base o, swapCase)

/-- readline command name + numeric argument (+ key data) -> the operation of the model -/
def opOfCommand (name : String) (arg : Int) (data : Text) : Option (Op2 × (Text → Text)) :=
  if name == "backward-delete-char" then some (.base (.backwardDeleteChar arg), swapCase)
  else if name == "delete-char" then some (.base (.deleteChar arg), swapCase)
  else if name == "self-insert" then some (.base (.selfInsert data arg), swapCase)
  else if name == "transpose-chars" then some (.base .transposeChars, swapCase)
  else if name == "uppercase-word" then some (.base (.trWords arg.toNat), asciiUpper)
  else if name == "downcase-word" then some (.base (.trWords arg.toNat), asciiLower)
  else if name == "capitalize-word" then some (.base (.trWords arg.toNat), asciiTitle)
  else if name == "kill-word" then some (.killWord arg, swapCase)
  else if name == "unix-word-rubout" then some (.rubout arg true, swapCase)
  else if name == "backward-kill-word" then some (.rubout arg false, swapCase)
  else if name == "kill-line" then some (.killLine arg, swapCase)
  else if name == "unix-line-discard" then some (.lineDiscard, swapCase)
  else if name == "delete-horizontal-space" then some (.delHSpace, swapCase)
  else if name == "insert-comment" then some (.insertComment arg, swapCase)
  else none

/-- the command a key sequence is bound to: the LAST registered binding wins -/
def commandOfKey (key : String) : Option String :=
  ((Gen.C01.namedBindings.filter fun p => p.1 == key).getLast?).map (·.2)

def parseArgKeys (t : Text) : List ArgKey :=
  t.filterMap fun c => if c = '-' then some .dash
    else if c.isDigit then some (.digit (c.toNat - '0'.toNat)) else none

structure DState where
  h : HBuf
  cs : CState
  fc : DCache
  fcSize : Nat

def DState.init : DState :=
  { h := { work := [[]], idx := 0, cur := 0, dcache := [] },
    cs := { heap := [], tmap := [], docs := [] }, fc := [], fcSize := 10 }

def bufLine (h : HBuf) (r : Text) : String := s!"{encStr h.text} {h.cur} {encStr r}"
def histLine (h : HBuf) : String := s!"{h.idx} {h.cur} {encList encStr h.work}"

/-- canonical form of the sharing of `_cache` objects between the live documents: for each
    document the position of the first live document holding the same cell -/
def sharing (s : CState) : List Nat :=
  s.docs.map fun d => (s.docs.findIdx? fun d' => d'.addr == d.addr).getD 0

def decStrs : List String → Option (List Text)
  | [] => some []
  | t :: ts => do pure ((← decStr t) :: (← decStrs ts))

def stepLine (s : DState) (toks : List String) : DState × String :=
  let applyOp (o : Op2) (f : Text → Text) (showRet : Bool) : DState × String :=
    let r := step2 (env f) s.h.buf o
    let h' := s.h.edit r.1
    ({ s with h := h' }, bufLine h' (if showRet then r.2 else []))
  match toks with
  | ["init", t, c] =>
    match decStr t, decNat c with
    | some t, some c =>
      let h : HBuf := { work := [t], idx := 0, cur := c, dcache := [] }
      ({ s with h := h }, bufLine h [])
    | _, _ => (s, "bad-op")
  | "hinit" :: idx :: cur :: lines =>
    match decNat idx, decNat cur, decStrs lines with
    | some idx, some cur, some lines =>
      let h : HBuf := { work := lines, idx := idx, cur := cur, dcache := [] }
      ({ s with h := h }, histLine h)
    | _, _, _ => (s, "bad-op")
  | ["goto", i] =>
    match decNat i with
    | some i => let h := s.h.goToHistory i; ({ s with h := h }, histLine h)
    | none => (s, "bad-op")
  | ["hback", n] =>
    match decInt n with
    | some n => let h := s.h.historyBackward n; ({ s with h := h }, histLine h)
    | none => (s, "bad-op")
  | ["hfwd", n] =>
    match decInt n with
    | some n => let h := s.h.historyForward n; ({ s with h := h }, histLine h)
    | none => (s, "bad-op")
  | ["hreset", t, c] =>
    match decStr t, decNat c with
    | some t, some c => let h := s.h.reset t (min c t.length); ({ s with h := h }, histLine h)
    | _, _ => (s, "bad-op")
  | ["hq"] => (s, histLine s.h)
  | ["doc"] =>
    -- the `document` view: through the modelled FastDictCache
    let r := s.h.document Gen.C01.documentCacheSize
    ({ s with h := r.1 }, s!"{encStr r.2.text} {r.2.cur}")
  | ["e2e", key, argKeys, data] =>
    match decStr argKeys, decStr data with
    | some ak, some data =>
      let arg := argOfKeys Gen.C01.argClamp Gen.C01.argClampTo (parseArgKeys ak)
      match (commandOfKey key).bind fun name => opOfCommand name arg data with
      | some (o, f) => applyOp o f false
      | none => (s, "unbound")
    | _, _ => (s, "bad-op")
  | ["e2eqi", d] =>
    match decStr d with
    | some d => applyOp (.quotedInsert d) swapCase false
    | none => (s, "bad-op")
  | ["argv", argKeys] =>
    match decStr argKeys with
    | some ak => (s, toString (argOfKeys Gen.C01.argClamp Gen.C01.argClampTo (parseArgKeys ak)))
    | none => (s, "bad-op")
  -- standalone FastDictCache
  | ["fcinit", n] =>
    match decNat n with
    | some n => ({ s with fc := [], fcSize := n }, "ok")
    | none => (s, "bad-op")
  | ["fcget", t, c] =>
    match decStr t, decNat c with
    | some t, some c =>
      let hit := (dlookup s.fc (t, c)).isSome
      let r := dget s.fcSize s.fc (t, c)
      ({ s with fc := r.1 },
       s!"{encBool hit} {encStr r.2.text} {r.2.cur} {encList (fun p : DKey × Doc => encStr p.1.1 ++ ":" ++ toString p.1.2) r.1}")
    | _, _ => (s, "bad-op")
  -- shared line tables
  | ["cinit"] => ({ s with cs := { heap := [], tmap := [], docs := [] } }, "ok")
  | ["cnew", t, c] =>
    match decStr t, decNat c with
    | some t, some c => let cs := s.cs.newDoc t c; ({ s with cs := cs }, encList toString (sharing cs))
    | _, _ => (s, "bad-op")
  | ["clines", i] =>
    match decNat i with
    | some i => let r := s.cs.getLines i; ({ s with cs := r.1 }, encList encStr r.2)
    | none => (s, "bad-op")
  | ["cidx", i] =>
    match decNat i with
    | some i => let r := s.cs.getIndexes i; ({ s with cs := r.1 }, encList toString r.2)
    | none => (s, "bad-op")
  | ["cdrop", i] =>
    match decNat i with
    | some i => let cs := s.cs.dropDoc i; ({ s with cs := cs }, encList toString (sharing cs))
    | none => (s, "bad-op")
  | _ =>
    match parseOp2 toks with
    | some (o, f) => applyOp o f true
    | none => (s, "bad-op")

def main : IO Unit := runS stepLine DState.init
