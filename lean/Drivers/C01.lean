import Ptk.Proto
import Ptk.Gen.PyChars
import Ptk.Model.C01
open Ptk Ptk.Py Ptk.Proto Ptk.C01

/-- the transform callback used by the correspondence harness: ASCII swapcase -/
def swapCase (t : Text) : Text := t.map fun c =>
  if c.isLower then c.toUpper else if c.isUpper then c.toLower else c

/-- `str.upper` / `str.lower` / `str.title` on ASCII letters plus U+00DF (sharp s), whose upper /
    title case mapping changes the length ("SS" / "Ss"); every other character is uncased here
    (the correspondence generators use only such characters in the case-transform commands). -/
def sharpS : Char := Char.ofNat 0xDF
def asciiUpper (t : Text) : Text := t.flatMap fun c => if c = sharpS then ['S', 'S'] else [c.toUpper]
def asciiLower (t : Text) : Text := t.map Char.toLower
def asciiTitle (t : Text) : Text :=
  (t.foldl (fun (acc : Text × Bool) c =>
    if c = sharpS then ((if acc.2 then [sharpS] else ['s', 'S']) ++ acc.1, true)
    else if c.isAlpha then ((if acc.2 then c.toLower else c.toUpper) :: acc.1, true)
    else (c :: acc.1, false)) ([], false)).1.reverse

def parseOp : List String → Option Op
  | ["ins", d, o, m] => do pure (.insert (← decStr d) (← decBool o) (← decBool m))
  | ["del", n] => do pure (.delete (← decNat n))
  | ["delb", n] => do pure (.deleteBefore (← decNat n))
  | ["nl", c] => do pure (.newline (← decBool c))
  | ["above", c] => do pure (.lineAbove (← decBool c))
  | ["below", c] => do pure (.lineBelow (← decBool c))
  | ["join", s] => do pure (.joinNext (← decStr s))
  | ["swap"] => some .swap
  | ["cur", v] => do pure (.setCursor (← decInt v))
  | ["text", t] => do pure (.setText (← decStr t))
  | ["trl"] => some .trLine
  | ["trr", a, b] => do pure (.trRegion (← decNat a) (← decNat b))
  | ["ind", a, b, n] => do pure (.indent (← decInt a) (← decInt b) (← decNat n))
  | ["unind", a, b, n] => do pure (.unindent (← decInt a) (← decInt b) (← decNat n))
  | ["bdc", a] => do pure (.backwardDeleteChar (← decInt a))
  | ["dc", a] => do pure (.deleteChar (← decInt a))
  | ["si", d, a] => do pure (.selfInsert (← decStr d) (← decInt a))
  | ["tc"] => some .transposeChars
  | ["setdoc", t, c] => do pure (.setDoc (← decStr t) (← decInt c))
  | _ => none

def stepLine (b : Buf) (toks : List String) : Buf × String :=
  match toks with
  | ["init", t, c] =>
    match decStr t, decNat c with
    | some t, some c => ({ text := t, cur := c }, s!"{encStr t} {c} s:")
    | _, _ => (b, "bad-op")
  | ["jsl", o, sp] =>
    match decNat o, decStr sp with
    | some o, some sp =>
      let b' := joinSelectedLines Gen.isLineBreak b o sp
      (b', s!"{encStr b'.text} {b'.cur} s:")
    | _, _ => (b, "bad-op")
  | [w, n] =>
    let f? : Option (Text → Text) :=
      if w == "uw" then some asciiUpper else if w == "lw" then some asciiLower
      else if w == "cw" then some asciiTitle else none
    match f?, decInt n with
    | some f, some n =>
      let b' := transformWords Gen.reSpace f n.toNat b
      (b', s!"{encStr b'.text} {b'.cur} s:")
    | _, _ =>
      match parseOp toks with
      | some op =>
        let (b', r) := step Gen.isSpace swapCase b op
        -- the readline commands return None; only the Buffer methods return the deleted text
        let r := if w == "bdc" || w == "dc" then [] else r
        (b', s!"{encStr b'.text} {b'.cur} {encStr r}")
      | none => (b, "bad-op")
  | _ =>
    match parseOp toks with
    | some op =>
      let (b', r) := step Gen.isSpace swapCase b op
      (b', s!"{encStr b'.text} {b'.cur} {encStr r}")
    | none => (b, "bad-op")

def main : IO Unit := runS stepLine { text := [], cur := 0 }
