import Ptk.Proto
import Ptk.Gen.PyChars
import Ptk.Model.C01
open Ptk Ptk.Py Ptk.Proto Ptk.C01

/-- the transform callback used by the correspondence harness: ASCII swapcase -/
def swapCase (t : Text) : Text := t.map fun c =>
  if c.isLower then c.toUpper else if c.isUpper then c.toLower else c

def parseOp : List String → Option Op
  | ["ins", d, o, m] => do pure (.insert (← decStr d) (← decBool o) (← decBool m))
  | ["del", n] => do pure (.delete (← decNat n))
  | ["delb", n] => do pure (.deleteBefore (← decNat n))
  | ["nl", c] => do pure (.newline (← decBool c))
  | ["above", c] => do pure (.lineAbove (← decBool c))
  | ["below", c] => do pure (.lineBelow (← decBool c))
  | ["join", s] => do pure (.joinNext (← decStr s))
  | ["swap"] => some .swap
  | ["cur", v] => do pure (.setCursor (← decInt v))
  | ["text", t] => do pure (.setText (← decStr t))
  | ["trl"] => some .trLine
  | ["trr", a, b] => do pure (.trRegion (← decNat a) (← decNat b))
  | ["ind", a, b, n] => do pure (.indent (← decInt a) (← decInt b) (← decNat n))
  | ["unind", a, b, n] => do pure (.unindent (← decInt a) (← decInt b) (← decNat n))
  | _ => none

def stepLine (b : Buf) (toks : List String) : Buf × String :=
  match toks with
  | ["init", t, c] =>
    match decStr t, decNat c with
    | some t, some c => ({ text := t, cur := c }, s!"{encStr t} {c} s:")
    | _, _ => (b, "bad-op")
  | _ =>
    match parseOp toks with
    | some op =>
      let (b', r) := step Gen.isSpace swapCase b op
      (b', s!"{encStr b'.text} {b'.cur} {encStr r}")
    | none => (b, "bad-op")

def main : IO Unit := runS stepLine { text := [], cur := 0 }
