import Ptk.Proto
import Ptk.Gen.PyChars
import Ptk.Model.C09Ext
open Ptk Ptk.Py Ptk.Proto Ptk.C09

/-! Line-protocol driver for the C09 model (kill ring, Emacs kill/yank commands, paste). -/

def encTy : SelType → String
  | .chars => "c" | .lines => "l" | .block => "b"
def decTy (s : String) : Option SelType :=
  if s == "c" then some .chars else if s == "l" then some .lines else if s == "b" then some .block else none
def decMode (s : String) : Option PasteMode :=
  if s == "e" then some .emacs else if s == "B" then some .viBefore else if s == "A" then some .viAfter else none

def encRing (r : Ring) : String :=
  toString r.length ++ r.foldl (fun acc d => acc ++ " " ++ encTy d.ty ++ " " ++ encStr d.text) ""

def encDbp : Option Buf → String
  | none => "N"
  | some b => s!"D {encStr b.text} {b.cur}"

def decArg (s : String) : Option Arg :=
  if s == "N" then some .none else if s == "-" then some .dash else (decInt s).map .num

/-- `n ty text ty text …` -/
def decRing : Nat → List String → Option Ring
  | 0, [] => some []
  | n + 1, ty :: t :: rest => do
    let ty ← decTy ty
    let t ← decStr t
    let r ← decRing n rest
    pure ({ text := t, ty := ty } :: r)
  | _, _ => none

structure DS where
  e : St
  max : Nat
  v : VSt
  py : PyClip := PyClip.init []
  dyn : DynClip := { rings := [], cur := none }

/-- insertion sort of the register list by name (the harness prints the dict sorted) -/
def insReg (p : Char × Clip) : List (Char × Clip) → List (Char × Clip)
  | [] => [p]
  | q :: qs => if p.1.toNat ≤ q.1.toNat then p :: q :: qs else q :: insReg p qs

def encRegs (regs : List (Char × Clip)) : String :=
  let sorted := regs.foldr insReg []
  toString sorted.length ++ sorted.foldl
    (fun acc p => acc ++ " " ++ toString p.1.toNat ++ " " ++ encTy p.2.ty ++ " " ++ encStr p.2.text) ""

def encVSt (s : VSt) : String :=
  s!"{encStr s.buf.text} {s.buf.cur} {encRing s.ring} {encRegs s.regs}"

def decCount (s : String) : Option (Option Nat) :=
  if s == "N" then some none else (decNat s).map some

def decAct (s : String) : Option VisAct :=
  if s == "x" then some .x else if s == "y" then some .y else if s == "d" then some .d else none

def decReg (s : String) : Option (Option Char) :=
  if s == "N" then some none else (decNat s).map fun n => some (Char.ofNat n)

def parseVCmd : List String → Option VCmd
  | ["x"] => some .x
  | ["X"] => some .X
  | ["s"] => some .s
  | ["D"] => some .D
  | ["C"] => some .C
  | ["dd"] => some .dd
  | ["yy"] => some .yy
  | ["p"] => some .p
  | ["P"] => some .P
  | ["rp", c, b] => do pure (.regP (Char.ofNat (← decNat c)) (← decBool b))
  | ["goto", n] => do pure (.goto (← decNat n))
  | ["vis", ty, a, b, act, reg] => do
    pure (.vis (← decTy ty) (← decNat a) (← decNat b) (← decAct act) (← decReg reg))
  | _ => none

def encSt (s : St) : String :=
  s!"{encStr s.buf.text} {s.buf.cur} {encRing s.ring} {encDbp s.dbp}"

def parseCmd : List String → Option Cmd
  | ["kl"] => some .killLine
  | ["ld"] => some .lineDiscard
  | ["kw"] => some .killWord
  | ["wr"] => some .wordRubout
  | ["bk"] => some .backKillWord
  | ["y"] => some .yank
  | ["yp"] => some .yankPop
  | ["f"] => some .fwdChar
  | ["b"] => some .bwdChar
  | ["ins", c] => do pure (.ins (Char.ofNat (← decNat c)))
  | ["goto", n] => do pure (.goto (← decNat n))
  | ["reg", a, b, k] => do pure (.region (← decNat a) (← decNat b) (← decBool k))
  | _ => none

def decShiftAct : List String → Option ShiftAct
  | ["cw"] => some .cw
  | ["mw"] => some .mw
  | ["bs"] => some .bs
  | ["cy"] => some .cy
  | ["ins", c] => do pure (.ins (Char.ofNat (← decNat c)))
  | _ => none

def parseECmd : List String → Option ECmd
  | ["kwc"] => some .killWordC
  | ["dc"] => some .deleteChar
  | ["regt", a, b, k, ty] => do pure (.regionTy (← decNat a) (← decNat b) (← decBool k) (← decTy ty))
  | "shift" :: a :: k :: act => do pure (.shiftSel (← decNat a) (← decInt k) (← decShiftAct act))
  | toks => (parseCmd toks).map .base

def parseVCmdX : List String → Option VCmdX
  | ["cc"] => some .cc
  | toks => (parseVCmd toks).map .base

def encClip (d : Clip) : String := s!"{encTy d.ty} {encStr d.text}"

def encDyn (c : DynClip) : String :=
  s!"{encClip c.getData} {c.rings.length}" ++ c.rings.foldl (fun acc p => acc ++ " " ++ encRing p.2) ""

def decNats : List String → Option (List Nat)
  | [] => some []
  | x :: xs => do pure ((← decNat x) :: (← decNats xs))

def stepLine (ds : DS) (toks : List String) : DS × String :=
  match toks with
  | "einit" :: t :: c :: m :: n :: rest =>
    match decStr t, decNat c, decNat m, decNat n with
    | some t, some c, some m, some n =>
      match decRing n rest with
      | some r =>
        let s : St := { buf := { text := t, cur := c }, ring := r, dbp := none, prev := .other }
        ({ ds with e := s, max := m }, encSt s)
      | none => (ds, "bad-op")
    | _, _, _, _ => (ds, "bad-op")
  | "e" :: a :: rest =>
    match decArg a, parseECmd rest with
    | some a, some cmd =>
      let s := stepX Gen.reSpace ds.max ds.e a cmd
      ({ ds with e := s }, encSt s)
    | _, _ => (ds, "bad-op")
  | "vinit" :: t :: c :: m :: n :: rest =>
    match decStr t, decNat c, decNat m, decNat n with
    | some t, some c, some m, some n =>
      match decRing n rest with
      | some r =>
        let s : VSt := { buf := { text := t, cur := c }, ring := r, regs := [] }
        ({ ds with v := s, max := m }, encVSt s)
      | none => (ds, "bad-op")
    | _, _, _, _ => (ds, "bad-op")
  | "v" :: a :: rest =>
    match decCount a, parseVCmdX rest with
    | some a, some cmd =>
      let s := vstepX Gen.isSpace ds.max ds.v a cmd
      ({ ds with v := s }, encVSt s)
    | _, _ => (ds, "bad-op")
  | ["paste", t, c, ty, d, mode, count] =>
    match decStr t, decNat c, decTy ty, decStr d, decMode mode, decInt count with
    | some t, some c, some ty, some d, some mode, some count =>
      let r := pasteRaw { text := t, cur := c } { text := d, ty := ty } mode count
      (ds, if pasteOk r then s!"{encStr r.1} {r.2}" else "err")
    | _, _, _, _, _, _ => (ds, "bad-op")
  | ["cutp", t, c, o, ty, vi] =>
    match decStr t, decNat c, decNat o, decTy ty, decBool vi with
    | some t, some c, some o, some ty, some vi =>
      let r := cutApi t c o ty vi
      let pr := pasteRaw r.1 r.2 .viBefore 1
      let rs := selectionRangesI t c o ty vi
      (ds, toString rs.length ++ rs.foldl (fun acc p => acc ++ s!" {p.1} {p.2}") "" ++
        s!" | {encStr r.1.text} {r.1.cur} {encClip r.2} | " ++
        (if pasteOk pr then s!"{encStr pr.1} {pr.2}" else "err"))
    | _, _, _, _, _ => (ds, "bad-op")
  | ["pinit", x] =>
    match decStr x with
    | some x => let p := PyClip.init x; ({ ds with py := p }, s!"{encStr p.sys} {encClip p.getData}")
    | none => (ds, "bad-op")
  | ["pset", ty, x] =>
    match decTy ty, decStr x with
    | some ty, some x =>
      let p := ds.py.setData { text := x, ty := ty }
      ({ ds with py := p }, s!"{encStr p.sys} {encClip p.getData}")
    | _, _ => (ds, "bad-op")
  | ["pext", x] =>
    match decStr x with
    | some x => let p := ds.py.external x; ({ ds with py := p }, s!"{encStr p.sys} {encClip p.getData}")
    | none => (ds, "bad-op")
  | ["prot"] => let p := ds.py.rotate; ({ ds with py := p }, s!"{encStr p.sys} {encClip p.getData}")
  | "dinit" :: ms =>
    match decNats ms with
    | some ms => let c : DynClip := { rings := ms.map fun m => (m, []), cur := none }; ({ ds with dyn := c }, encDyn c)
    | none => (ds, "bad-op")
  | ["dsel", i] =>
    match decCount i with
    | some i => let c := { ds.dyn with cur := i }; ({ ds with dyn := c }, encDyn c)
    | none => (ds, "bad-op")
  | ["dset", ty, x] =>
    match decTy ty, decStr x with
    | some ty, some x => let c := ds.dyn.setData { text := x, ty := ty }; ({ ds with dyn := c }, encDyn c)
    | _, _ => (ds, "bad-op")
  | ["drot"] => let c := ds.dyn.rotate; ({ ds with dyn := c }, encDyn c)
  | ["rinit", m] =>
    match decNat m with
    | some m => ({ ds with e := { ds.e with ring := [] }, max := m }, encRing [])
    | none => (ds, "bad-op")
  | ["rset", ty, t] =>
    match decTy ty, decStr t with
    | some ty, some t =>
      let r := setData ds.max ds.e.ring { text := t, ty := ty }
      ({ ds with e := { ds.e with ring := r } }, s!"{encRing r} {encTy (getData r).ty} {encStr (getData r).text}")
    | _, _ => (ds, "bad-op")
  | ["rrot"] =>
    let r := rotate ds.e.ring
    ({ ds with e := { ds.e with ring := r } }, s!"{encRing r} {encTy (getData r).ty} {encStr (getData r).text}")
  | _ => (ds, "bad-op")

def main : IO Unit :=
  runS stepLine { e := { buf := { text := [], cur := 0 }, ring := [], dbp := none, prev := .other }, max := 60,
                  v := { buf := { text := [], cur := 0 }, ring := [], regs := [] } }
