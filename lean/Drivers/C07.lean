import Ptk.Proto
import Ptk.Model.C07
open Ptk Ptk.Py Ptk.Proto Ptk.C07

/-- stack in Python order (bottom first): `<n> (<text> <cur>)*` -/
def encStack (l : List Buf) : String :=
  encList (fun b => s!"{encStr b.text} {b.cur}") l.reverse

def encK (k : KSt) : String :=
  let p := match k.prev with | none => "N" | some h => toString h
  s!"{encStr k.st.buf.text} {k.st.buf.cur} {p} U {encStack k.st.undo} R {encStack k.st.redo}"

/-- handler body atoms: `U` (Buffer.undo()), `R` (Buffer.redo()), `S c` (save_to_undo_stack),
    `F` (_fix_vi_cursor_position in navigation mode),
    `E text cur` (any other body, observed result) -/
def parseAtoms : List String → Option (List Act)
  | [] => some []
  | "U" :: r => (parseAtoms r).map (Act.undo :: ·)
  | "R" :: r => (parseAtoms r).map (Act.redo :: ·)
  | "F" :: r => (parseAtoms r).map (Act.edit viFix :: ·)
  | "S" :: c :: r => do
      let c ← decBool c
      let rest ← parseAtoms r
      pure (Act.save c :: rest)
  | "E" :: t :: c :: r => do
      let t ← decStr t
      let c ← decNat c
      let rest ← parseAtoms r
      pure (Act.edit (fun _ => { text := t, cur := c }) :: rest)
  | _ => none

def apiAct : List String → Option Act
  | ["ins", d] => do pure (.edit (insertText (← decStr d)))
  | ["delb", n] => do pure (.edit (deleteBefore (← decNat n)))
  | ["del", n] => do pure (.edit (delete (← decNat n)))
  | ["cur", v] => do pure (.edit (setCursor (← decInt v)))
  | ["text", t] => do pure (.edit (setText (← decStr t)))
  | ["set", t, c] => do
      let t ← decStr t
      let c ← decNat c
      pure (.edit (fun _ => { text := t, cur := c }))
  | ["save", c] => do pure (.save (← decBool c))
  | ["undo"] => some .undo
  | ["redo"] => some .redo
  | ["reset", t, c] => do pure (.reset { text := (← decStr t), cur := (← decNat c) })
  | _ => none

def parseEKey : List String → Option EKey
  | ["char", c] => do pure (.char (Char.ofNat (← decNat c)))
  | ["c-h"] => some .backspace
  | ["delete"] => some .delete
  | ["left"] => some .left
  | ["right"] => some .right
  | ["home"] => some .home
  | ["end"] => some .eol
  | ["c-k"] => some .killLine
  | ["c-_"] => some .undo
  | ["c-x_c-u"] => some .undoXU
  | ["f12"] => some .redo
  | _ => none

def parseVKey : String → Option VKey
  | "i" => some .i | "a" => some .a | "x" => some .x | "u" => some .u
  | "escape" => some .escape | "f12" => some .redo
  | _ => none

def stepLineK (k : KSt) (toks : List String) : KSt × String :=
  match toks with
  | "ekey" :: rest =>
    match parseEKey rest with
    | some key => let k' := ekey k key; (k', encK k')
    | none => (k, "bad-op")
  | ["init", t, c] =>
    match decStr t, decNat c with
    | some t, some c => let k' := kInit { text := t, cur := c }; (k', encK k')
    | _, _ => (k, "bad-op")
  | ["kpreset"] => let k' := kpReset k; (k', encK k')
  | ["cpr"] => let k' := cprResponse k; (k', encK k')
  | "call" :: h :: r0 :: r1 :: atoms =>
    match decNat h, decBool r0, decBool r1, parseAtoms atoms with
    | some h, some r0, some r1, some body =>
      let k' := callHandler h (fun rep => if rep then r1 else r0) body k
      (k', encK k')
    | _, _, _, _ => (k, "bad-op")
  | _ =>
    match apiAct toks with
    | some a => let k' := { k with st := act k.st a }; (k', encK k')
    | none => (k, "bad-op")

/-- driver state: the key-processor state plus the Vi input mode (used by `vinit` / `vkey` only) -/
def stepLine (v : VSt) (toks : List String) : VSt × String :=
  match toks with
  | ["vinit", t, c] =>
    match decStr t, decNat c with
    | some t, some c => let v' := vInit { text := t, cur := c }; (v', encK v'.k ++ " I")
    | _, _ => (v, "bad-op")
  | ["vkey", name] =>
    match parseVKey name with
    | some key => let v' := vkey v key; (v', encK v'.k ++ (if v'.ins then " I" else " N"))
    | none => (v, "bad-op")
  | ["vcpr"] =>
    let v' : VSt := { k := cprResponse v.k, ins := v.ins }
    (v', encK v'.k ++ (if v'.ins then " I" else " N"))
  | _ => let p := stepLineK v.k toks; ({ k := p.1, ins := v.ins }, p.2)

def main : IO Unit := runS stepLine (vInit { text := [], cur := 0 })
