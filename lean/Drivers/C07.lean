import Ptk.Proto
import Ptk.Model.C07
import Ptk.Model.C07Multi
open Ptk Ptk.Py Ptk.Proto Ptk.C07

/-- stack in Python order (bottom first): `<n> (<text> <cur>)*` -/
def encStack (l : List Buf) : String :=
  encList (fun b => s!"{encStr b.text} {b.cur}") l.reverse

def encPrev (p : Option Nat) : String :=
  match p with | none => "N" | some h => toString h

def encSt (s : St) : String :=
  s!"{encStr s.buf.text} {s.buf.cur} U {encStack s.undo} R {encStack s.redo}"

def encK (k : KSt) : String :=
  s!"{encStr k.st.buf.text} {k.st.buf.cur} {encPrev k.prev} U {encStack k.st.undo} R {encStack k.st.redo}"

/-- handler body atoms: `U` (Buffer.undo()), `R` (Buffer.redo()), `S c` (save_to_undo_stack),
    `F` (_fix_vi_cursor_position in navigation mode),
    `UR` / `RR` (undo() / redo() on a read-only buffer; shipped or fixed behaviour = the regenerated flag),
    `X text cur` (Buffer.reset(Document(text, cur))),
    `E text cur` (any other body, observed result) -/
def parseAtoms : List String → Option (List Act)
  | [] => some []
  | "U" :: r => (parseAtoms r).map (Act.undo :: ·)
  | "R" :: r => (parseAtoms r).map (Act.redo :: ·)
  | "F" :: r => (parseAtoms r).map (Act.edit viFix :: ·)
  | "UR" :: r => (parseAtoms r).map (Act.undoRO Gen.C07.roChecksFirst :: ·)
  | "RR" :: r => (parseAtoms r).map (Act.redoRO Gen.C07.roChecksFirst :: ·)
  | "S" :: c :: r => do
      let c ← decBool c
      let rest ← parseAtoms r
      pure (Act.save c :: rest)
  | "X" :: t :: c :: r => do
      let t ← decStr t
      let c ← decNat c
      let rest ← parseAtoms r
      pure (Act.reset { text := t, cur := c } :: rest)
  | "E" :: t :: c :: r => do
      let t ← decStr t
      let c ← decNat c
      let rest ← parseAtoms r
      pure (Act.edit (fun _ => { text := t, cur := c }) :: rest)
  | _ => none

def parseOutcome : String → Option Outcome
  | "ok" => some .ok
  | "ro" => some .readOnly
  | "raised" => some .raised
  | _ => none

def apiAct : List String → Option Act
  | ["ins", d] => do pure (.edit (insertText (← decStr d)))
  | ["delb", n] => do pure (.edit (deleteBefore (← decNat n)))
  | ["del", n] => do pure (.edit (delete (← decNat n)))
  | ["cur", v] => do pure (.edit (setCursor (← decInt v)))
  | ["text", t] => do pure (.edit (setText (← decStr t)))
  | ["set", t, c] => do
      let t ← decStr t
      let c ← decNat c
      pure (.edit (fun _ => { text := t, cur := c }))
  | ["save", c] => do pure (.save (← decBool c))
  | ["undo"] => some .undo
  | ["redo"] => some .redo
  | ["undoro"] => some (.undoRO Gen.C07.roChecksFirst)
  | ["redoro"] => some (.redoRO Gen.C07.roChecksFirst)
  | ["reset", t, c] => do pure (.reset { text := (← decStr t), cur := (← decNat c) })
  | _ => none

def parseEKey : List String → Option EKey
  | ["char", c] => do pure (.char (Char.ofNat (← decNat c)))
  | ["c-h"] => some .backspace
  | ["delete"] => some .delete
  | ["left"] => some .left
  | ["right"] => some .right
  | ["home"] => some .home
  | ["end"] => some .eol
  | ["c-k"] => some .killLine
  | ["c-_"] => some .undo
  | ["c-x_c-u"] => some .undoXU
  | ["f12"] => some .redo
  | ["c-a"] => some .ctrlA
  | ["c-e"] => some .ctrlE
  | ["c-b"] => some .ctrlB
  | ["c-f"] => some .ctrlF
  | ["c-u"] => some .ctrlU
  | _ => none

def parseVKey : String → Option VKey
  | "i" => some .i | "a" => some .a | "x" => some .x | "u" => some .u
  | "A" => some .bigA | "X" => some .bigX | "2" => some .d2 | "3" => some .d3
  | "escape" => some .escape | "f12" => some .redo
  | _ => none

def rowLine (name keys : String) : String :=
  match Gen.C07.table.filter (fun r => r.name == name && r.keys == keys) with
  | [] => "none"
  | rs => " ".intercalate (rs.map fun r => s!"{encBool r.r0}{encBool r.r1}{r.kind}")

def strOf (t : Text) : String := String.ofList t

def stepLineK (k : KSt) (toks : List String) : KSt × String :=
  match toks with
  | "ekey" :: rest =>
    match parseEKey rest with
    | some key => let k' := ekey k key; (k', encK k')
    | none => (k, "bad-op")
  | ["init", t, c] =>
    match decStr t, decNat c with
    | some t, some c => let k' := kInit { text := t, cur := c }; (k', encK k')
    | _, _ => (k, "bad-op")
  | ["restart", t, c] =>
    match decStr t, decNat c with
    | some t, some c => let k' := restart { text := t, cur := c } k; (k', encK k')
    | _, _ => (k, "bad-op")
  | ["ext", t, c] =>
    match decStr t, decNat c with
    | some t, some c => let k' := extEdit (fun _ => { text := t, cur := c }) k; (k', encK k')
    | _, _ => (k, "bad-op")
  | ["kpreset"] => let k' := kpReset k; (k', encK k')
  | ["cpr"] => let k' := cprResponse k; (k', encK k')
  | ["row", n, ks] =>
    match decStr n, decStr ks with
    | some n, some ks => (k, rowLine (strOf n) (strOf ks))
    | _, _ => (k, "bad-op")
  | ["roflag"] => (k, encBool Gen.C07.roChecksFirst)
  | ["rowhas", n, ks, bits] =>
    match decStr n, decStr ks with
    | some n, some ks =>
      (k, encBool ((Gen.C07.table.filter (fun r => r.name == strOf n && r.keys == strOf ks)).any
        (fun r => s!"{encBool r.r0}{encBool r.r1}{r.kind}" == bits)))
    | _, _ => (k, "bad-op")
  | "call" :: h :: r0 :: r1 :: atoms =>
    match decNat h, decBool r0, decBool r1, parseAtoms atoms with
    | some h, some r0, some r1, some body =>
      let k' := callHandler h (fun rep => if rep then r1 else r0) body k
      (k', encK k')
    | _, _, _, _ => (k, "bad-op")
  | "callo" :: o :: h :: r0 :: r1 :: atoms =>
    match parseOutcome o, decNat h, decBool r0, decBool r1, parseAtoms atoms with
    | some o, some h, some r0, some r1, some body =>
      let k' := callHandlerO o h (fun rep => if rep then r1 else r0) body k
      (k', encK k')
    | _, _, _, _, _ => (k, "bad-op")
  | _ =>
    match apiAct toks with
    | some a => let k' := { k with st := act k.st a }; (k', encK k')
    | none => (k, "bad-op")

/-! ### several buffers -/

def encM (n : Nat) (m : MSt) : String :=
  s!"F {m.focus} P {encPrev m.prev}" ++
    (List.range n).foldl (fun acc i => acc ++ s!" | {encSt (m.bufs i)}") ""

/-- `(<buffer> <number of atom tokens> <atom tokens>)*` -/
partial def parseParts : List String → Option (List (Nat × List Act))
  | [] => some []
  | b :: n :: rest => do
      let b ← decNat b
      let n ← decNat n
      let acts ← parseAtoms (rest.take n)
      let more ← parseParts (rest.drop n)
      pure ((b, acts) :: more)
  | _ => none

def partsOn (ps : List (Nat × List Act)) (i : Nat) : List Act :=
  (ps.filter (fun p => p.1 == i)).flatMap (·.2)

structure DS where
  v : VSt
  n : Nat
  m : MSt

def stepLineM (d : DS) (toks : List String) : Option (DS × String) :=
  match toks with
  | "minit" :: f :: docs => do
      let f ← decNat f
      let rec go : List String → Option (List Buf)
        | [] => some []
        | t :: c :: r => do
            let t ← decStr t
            let c ← decNat c
            let rest ← go r
            pure ({ text := t, cur := c } :: rest)
        | _ => none
      let ds ← go docs
      let m := mInit (fun i => ds.getD i { text := [], cur := 0 }) f
      pure ({ d with n := ds.length, m := m }, encM ds.length m)
  | "mcall" :: o :: h :: r0 :: r1 :: f :: parts => do
      let o ← parseOutcome o
      let h ← decNat h
      let r0 ← decBool r0
      let r1 ← decBool r1
      let f ← if f == "-" then some none else (decNat f).map some
      let ps ← parseParts parts
      let m := callHandlerM o h (fun rep => if rep then r1 else r0) ⟨partsOn ps, f⟩ d.m
      pure ({ d with m := m }, encM d.n m)
  | ["mext", b, t, c] => do
      let b ← decNat b
      let t ← decStr t
      let c ← decNat c
      let m := extEditM b (fun _ => { text := t, cur := c }) d.m
      pure ({ d with m := m }, encM d.n m)
  | ["mfocus", b] => do
      let b ← decNat b
      let m := extFocusM b d.m
      pure ({ d with m := m }, encM d.n m)
  | "mact" :: b :: atoms => do
      let b ← decNat b
      let acts ← parseAtoms atoms
      let m := { d.m with bufs := setBuf d.m.bufs b (acts.foldl act (d.m.bufs b)) }
      pure ({ d with m := m }, encM d.n m)
  | ["mkpreset"] => let m := kpResetM d.m; some ({ d with m := m }, encM d.n m)
  | ["mcpr"] => some (d, encM d.n d.m)
  | _ => none

/-- driver state: the key-processor state plus the Vi input mode and argument (used by `vinit` / `vkey` only),
    and a multi-buffer application (used by the `m…` ops only) -/
def encV (v : VSt) : String :=
  encK v.k ++ (if v.ins then " I" else " N") ++ " " ++ (match v.arg with | none => "-" | some n => toString n)

def stepLine (d : DS) (toks : List String) : DS × String :=
  match toks with
  | ["vinit", t, c] =>
    match decStr t, decNat c with
    | some t, some c => let v' := vInit { text := t, cur := c }; ({ d with v := v' }, encV v')
    | _, _ => (d, "bad-op")
  | ["vkey", name] =>
    match parseVKey name with
    | some key => let v' := vkey d.v key; ({ d with v := v' }, encV v')
    | none => (d, "bad-op")
  | ["vcpr"] =>
    let v' : VSt := { d.v with k := cprResponse d.v.k }
    ({ d with v := v' }, encV v')
  | _ =>
    match stepLineM d toks with
    | some r => r
    | none => let p := stepLineK d.v.k toks; ({ d with v := { d.v with k := p.1 } }, p.2)

def main : IO Unit :=
  runS stepLine { v := vInit { text := [], cur := 0 }, n := 0, m := mInit (fun _ => { text := [], cur := 0 }) 0 }
