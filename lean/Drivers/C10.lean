import Ptk.Proto
import Ptk.Gen.C10Display
import Ptk.Model.C10Gen
import Ptk.Model.C10Tok
import Ptk.Model.C10Bytes
import Ptk.Model.C10Grammar
import Ptk.Model.C10Out
import Ptk.Gen.C10Codecs
open Ptk Ptk.Py Ptk.Proto Ptk.C10

/-- style environment sent by the harness (parameters of the model that belong to C19's domain):
    style string ↦ (attrs id, style_string_has_style), attrs id ↦ escape code -/
structure Env where
  styles : List (Text × Nat × Bool) := []
  sgrs : List (Nat × List Nat) := []

def Env.attrsOf (e : Env) (s : Text) : Nat :=
  match e.styles.find? (·.1 = s) with
  | some (_, a, _) => a
  | none => 999999
def Env.hasStyle (e : Env) (s : Text) : Bool :=
  match e.styles.find? (·.1 = s) with
  | some (_, _, h) => h
  | none => false
def Env.sgr (e : Env) (a : Nat) : List Nat :=
  match e.sgrs.find? (·.1 = a) with
  | some (_, t) => t
  | none => "<?sgr>".toList.map Char.toNat

/-! token stream parser -/
abbrev P := StateT (List String) Option

def tok : P String := fun s => match s with
  | [] => none
  | t :: ts => some (t, ts)
def pNat : P Nat := do let t ← tok; (decNat t : Option Nat)
def pInt : P Int := do let t ← tok; (decInt t : Option Int)
def pBool : P Bool := do let t ← tok; (decBool t : Option Bool)
def pStr : P Text := do let t ← tok; (decStr t : Option Text)

/-- content strings: `s:` + comma separated decimal CODE POINTS, kept as numbers (lone surrogates
    are not Lean `Char`s, `Proto.decStr` would turn them into U+0000) -/
def decCps (tok : String) : Option (List Nat) :=
  if !tok.startsWith "s:" then none else
  let body := (tok.drop 2).toString
  if body.isEmpty then some [] else
  (body.splitOn ",").mapM fun p => p.toNat?
def encCps (t : List Nat) : String := "s:" ++ ",".intercalate (t.map toString)
def pCps : P (List Nat) := do let t ← tok; (decCps t : Option (List Nat))
def pMany {α} (p : P α) : Nat → P (List α)
  | 0 => pure []
  | n + 1 => do let a ← p; let r ← pMany p n; pure (a :: r)
def pList {α} (p : P α) : P (List α) := do let n ← pNat; pMany p n

def pFrag : P (Text × List Nat) := do let s ← pStr; let t ← pCps; pure (s, t)

def M := genTable
def WC := genWc

def encCell (c : Cell) : String := s!"{encCps c.char} {encStr c.style} {c.width}"

def encSegs (l : List Seg) : String :=
  let tag : Origin → String
    | .gen => "r" | .genw => "w" | .content => "w" | .zwe => "r"
  encList (fun (o, t) => tag o ++ " " ++ encCps t) l

structure DState where
  env : Env := {}
  buf : Buf := []
  zwe : Zwe := []
  height : Nat := 0
  prev : Option Screen := none
  x : Nat := 0
  y : Nat := 0
  last : Option Text := none
  vt : VtSt := none
  prevWidth : Nat := 0
  /-- `wire` op: the codec of the binary stream the output object writes to (`none` = text stream) -/
  codec : Option Nat := none

def D0 : Cell := genD0
def E : Emit := genEmit

def posLt (a b : Pos) : Bool := a.1 < b.1 || (a.1 == b.1 && a.2 < b.2)

def dumpCells (b : Buf) (d : Cell) : String :=
  let keys := (b.map (·.1)).eraseDups
  let keys := (keys.toArray.qsort posLt).toList
  let cells := keys.filterMap fun p =>
    let c := bufGet b d p
    if c = d then none else some (p, c)
  encList (fun (p, c) => s!"{p.1} {p.2} {encCell c}") cells

def dumpZwe (z : Zwe) : String :=
  let keys := (z.map (·.1)).eraseDups
  let keys := (keys.toArray.qsort posLt).toList
  encList (fun p => s!"{p.1} {p.2} {encCps ((zweFind? z p).getD [])}") keys

def encPieces (l : List Seg) : String :=
  let tag : Origin → String
    | .gen => "r" | .genw => "w" | .content => "w" | .zwe => "r"
  encList (fun (o, t) => tag o ++ " " ++ encCps t) (l.filter fun (_, t) => !t.isEmpty)

/-- codec registry of the driver: 0 = UTF-8, i+1 = the i-th regenerated code page -/
def codecOf (i : Nat) : Codec :=
  match i with
  | 0 => utf8
  | i + 1 =>
    match Gen.C10.charmaps[i]? with
    | some (_, e, d) => charmap e d
    | none => utf8

def pOptNat : P (Option Nat) := do
  let t ← tok
  if t == "N" then pure none else (t.toNat?.map some : Option (Option Nat))

def encItems (l : List Item) : String :=
  encList (fun it => match it with | .cp c => s!"c{c}" | .bad b => s!"x{b}") l

def pOutOp : P OutOp := do
  let t ← tok
  if t == "w" then do let d ← pCps; pure (.write d)
  else if t == "r" then do let d ← pCps; pure (.writeRaw d)
  else if t == "f" then pure .flush
  else failure

/-- bytes appended to a reply when a `wire` codec is set -/
def wireSuffix (st : DState) (t : List Nat) : String :=
  match st.codec with
  | none => ""
  | some i => " " ++ encCps (encodeReplace (codecOf i) t)

def E2 : Emit2 := genEmit2

partial def pCall : P Call := do
  let t ← tok
  match t with
  | "es" => pure .eraseScreen | "ea" => pure .enterAlt | "qa" => pure .quitAlt
  | "em" => pure .enableMouse | "dm" => pure .disableMouse | "eb" => pure .enableBP | "db" => pure .disableBP
  | "rk" => pure .resetCursorKeyMode | "cpr" => pure .askCpr | "bell" => pure .bell
  | "goto" => do let r ← pNat; let c ← pNat; pure (.goto r c)
  | "up" => do let n ← pNat; pure (.up n)
  | "down" => do let n ← pNat; pure (.down n)
  | "fwd" => do let n ← pNat; pure (.fwd n)
  | "back" => do let n ← pNat; pure (.back n)
  | "hide" => pure .hideCursor | "show" => pure .showCursor
  | "shape" => do let i ← pNat; pure (.setShape i)
  | "rshape" => pure .resetShape
  | "eol" => pure .eraseEol | "ed" => pure .eraseDown | "ra" => pure .resetAttrs
  | "dw" => pure .disableWrap | "ew" => pure .enableWrap
  | "title" => do let s ← pCps; pure (.setTitle s)
  | "ctitle" => pure .clearTitle
  | _ => failure

def pDumbEv : P DumbEv := do
  let t ← tok
  if t == "s" then do let frs ← pList pFrag; pure (.start frs)
  else if t == "c" then do let s ← pCps; pure (.changed s)
  else if t == "f" then pure .finish
  else failure

def handle (st : DState) : String → P (DState × String)
  | "wire" => do
    let c ← pOptNat
    pure ({ st with codec := c }, "ok")
  | "enc" => do
    let i ← pNat; let s ← pCps
    pure (st, encCps (encodeReplace (codecOf i) s))
  | "decode" => do
    let i ← pNat; let s ← pCps
    pure (st, encItems ((codecOf i).dec s))
  | "flush" => do
    let he ← pBool; let hb ← pBool; let e ← pOptNat; let s ← pCps
    let r := flushStdout { hasEncoding := he, hasBuffer := hb, encoding := e.map codecOf } s
    pure (st, match r with | .bytes bs => "b " ++ encCps bs | .text t => "t " ++ encCps t)
  | "out" => do
    let vt ← pBool; let ops ← pList pOutOp
    let r := outRun vt [] ops
    pure (st, encList encCps r.1 ++ " " ++ encList encCps r.2)
  | "env" => do
    let sty ← pList (do let s ← pStr; let a ← pNat; let h ← pBool; pure (s, a, h))
    let sg ← pList (do let a ← pNat; let t ← pCps; pure (a, t))
    -- the stream theorems assume every SGR code is a complete control sequence: re-checked
    -- here, with the tokenizer the theorems use, on the codes of the REAL escape-code cache
    let allComplete := sg.all fun (_, t) => complete t
    -- the byte-level theorems assume every SGR code is pure ASCII (passes every codec unchanged)
    let allAscii := sg.all fun (_, t) => t.all fun c => c < 0x80
    -- the grammar theorems assume every SGR code is a sentence of the output grammar
    let allParse := sg.all fun (_, t) => (parse t).isSome
    pure ({ st with env := { styles := sty, sgrs := sg } },
      if !allComplete then "sgr-incomplete" else if !allAscii then "sgr-not-ascii"
      else if !allParse then "sgr-not-in-grammar" else "ok")
  | "cell" => do
    let s ← pCps; let sty ← pStr
    pure (st, encCell (mkCell M WC s sty))
  | "dwidth" => do
    let s ← pCps
    pure (st, toString (displayWidth M WC Gen.C10.isPrintable s))
  | "write" => do
    let s ← pCps
    pure (st, encCps (safeWrite s))
  | "print" => do
    let frs ← pList pFrag
    let e := st.env
    let segs := printFrags e.attrsOf e.sgr Gen.C10.resetAttrs Gen.C10.enableAutowrap frs
    pure (st, encCps (segsText segs) ++ " " ++ encSegs segs ++ wireSuffix st (segsText segs))
  | "tok" => do
    let s ← pCps
    pure (st, encList encCps (ctrlTokens s))
  | "calls" => do
    let bell ← pBool; let silent ← pBool; let cs ← pList pCall
    let r := vtCalls E E2 { enableBell := bell, silentTitle := silent } cs
    pure (st, encCps r.2)
  | "renderer" => do
    let erase ← pBool; let inAlt ← pBool; let mouse ← pBool; let bp ← pBool
    let x ← pNat; let y ← pNat; let leaveAlt ← pBool; let pre ← pList pCall
    let s0 := (vtCalls E E2 {} pre).1
    let f : RFlags := { inAlt := inAlt, mouse := mouse, bp := bp }
    let r := if erase then rendererErase f x y leaveAlt else rendererReset f leaveAlt
    let out := vtCalls E E2 s0 r.1
    pure (st, s!"{encCps out.2} {encBool r.2.inAlt} {encBool r.2.mouse} {encBool r.2.bp}")
  | "dumb" => do
    let evs ← pList pDumbEv
    pure (st, encList (fun e => encCps (dumbStep M e)) evs)
  | "mkout" => do
    let pOB : P (Option Bool) := do
      let t ← tok
      if t == "N" then pure none else if t == "1" then pure (some true) else if t == "0" then pure (some false) else failure
    let a ← pOB; let so ← pOB; let se ← pOB; let p ← pBool; let d ← pBool
    pure (st, match createOutput { arg := a, sysOut := so, sysErr := se, preferTty := p, termDumb := d } with
      | .dummy => "DummyOutput" | .plain => "PlainTextOutput" | .vt100 => "Vt100_Output")
  | "printplain" => do
    let c ← pOptNat; let frs ← pList pFrag
    let t := printPlain frs
    pure (st, match c with
      | none => "t " ++ encCps t
      | some i => "b " ++ encCps (encodeReplace (codecOf i) t))
  | "proxy" => do
    let raw ← pBool; let s ← pCps
    let segs := proxyWrite E raw s
    pure (st, encCps (segsText segs) ++ " " ++ encSegs segs)
  | "istok" => do
    let s ← pCps
    pure (st, encBool (isToken s))
  | "parse" => do
    let s ← pCps
    pure (st, match parse s with
      | none => "N"
      | some ps => encList (fun p => match p with | .ch c => s!"c{c}" | .tok t => "t " ++ encCps t) ps)
  | "newscreen" => pure ({ st with buf := [], zwe := [], height := 0 }, "ok")
  | "resetr" => pure ({ st with prev := none, x := 0, y := 0, last := none, vt := none, prevWidth := 0 }, "ok")
  | "copy" => do
    let xpos ← pInt; let ypos ← pInt; let width ← pInt; let height ← pInt
    let wrap ← pBool; let hscroll ← pNat; let align ← pNat; let vscroll ← pNat; let vscroll2 ← pNat
    let hasPre ← pBool
    let pre0 ← pList pFrag; let preN ← pList pFrag
    let lines ← pList (pList pFrag)
    let cfg : CopyCfg := {
      m := M, wc := WC, printable := Gen.C10.isPrintable, dflt := D0, xpos := xpos, ypos := ypos, width := width, height := height,
      wrap := wrap, hscroll := hscroll, align := align,
      pre := if hasPre then some (fun _ wc => if wc = 0 then pre0 else preN) else none }
    let r := copyBody cfg st.buf st.zwe lines vscroll vscroll2
    let h := max st.height (ypos + height).toNat
    pure ({ st with buf := r.buf, zwe := r.zwe, height := h },
      s!"{h} {dumpCells r.buf D0} {dumpZwe r.zwe}")
  | "diff" => do
    let isDone ← pBool; let fullScreen ← pBool; let width ← pNat; let height ← pNat
    let cx ← pNat; let cy ← pNat; let showCursor ← pBool
    let e := st.env
    let scr : Screen := { buf := st.buf, zwe := st.zwe, dflt := D0, height := st.height,
                          cursor := (cx, cy), showCursor := showCursor }
    let cfg : DiffCfg := { attrsOf := e.attrsOf, hasStyle := e.hasStyle, width := width, height := height }
    let r := diff cfg D0 scr st.prev st.x st.y st.last isDone fullScreen st.prevWidth
    let (vt, segs) := vtSegs E e.sgr st.vt r.evs.reverse
    let lastS := match r.last with | none => "N" | some l => encStr l
    pure ({ st with prev := some scr, x := r.x, y := r.y, last := r.last, vt := vt, prevWidth := width },
      s!"{r.x} {r.y} {lastS} {encCps (segsText segs)} {encPieces segs}" ++ wireSuffix st (segsText segs))
  | _ => failure

def stepLine (e : DState) (toks : List String) : DState × String :=
  match toks with
  | [] => (e, "bad-op")
  | op :: rest =>
    match (handle e op).run rest with
    | some ((e', r), []) => (e', r)
    | _ => (e, "bad-op")

def main : IO Unit := runS stepLine {}
