import Ptk.Proto
import Ptk.Gen.C10Display
import Ptk.Model.C10Gen
import Ptk.Model.C10Tok
open Ptk Ptk.Py Ptk.Proto Ptk.C10

/-- style environment sent by the harness (parameters of the model that belong to C19's domain):
    style string ↦ (attrs id, style_string_has_style), attrs id ↦ escape code -/
structure Env where
  styles : List (Text × Nat × Bool) := []
  sgrs : List (Nat × Text) := []

def Env.attrsOf (e : Env) (s : Text) : Nat :=
  match e.styles.find? (·.1 = s) with
  | some (_, a, _) => a
  | none => 999999
def Env.hasStyle (e : Env) (s : Text) : Bool :=
  match e.styles.find? (·.1 = s) with
  | some (_, _, h) => h
  | none => false
def Env.sgr (e : Env) (a : Nat) : Text :=
  match e.sgrs.find? (·.1 = a) with
  | some (_, t) => t
  | none => "<?sgr>".toList

/-! token stream parser -/
abbrev P := StateT (List String) Option

def tok : P String := fun s => match s with
  | [] => none
  | t :: ts => some (t, ts)
def pNat : P Nat := do let t ← tok; (decNat t : Option Nat)
def pInt : P Int := do let t ← tok; (decInt t : Option Int)
def pBool : P Bool := do let t ← tok; (decBool t : Option Bool)
def pStr : P Text := do let t ← tok; (decStr t : Option Text)
def pMany {α} (p : P α) : Nat → P (List α)
  | 0 => pure []
  | n + 1 => do let a ← p; let r ← pMany p n; pure (a :: r)
def pList {α} (p : P α) : P (List α) := do let n ← pNat; pMany p n

def pFrag : P (Text × Text) := do let s ← pStr; let t ← pStr; pure (s, t)

def M := genTable
def WC := genWc

def encCell (c : Cell) : String := s!"{encStr c.char} {encStr c.style} {c.width}"

def encSegs (l : List Seg) : String :=
  let tag : Origin → String
    | .gen => "r" | .genw => "w" | .content => "w" | .zwe => "r"
  encList (fun (o, t) => tag o ++ " " ++ encStr t) l

structure DState where
  env : Env := {}
  buf : Buf := []
  zwe : Zwe := []
  height : Nat := 0
  prev : Option Screen := none
  x : Nat := 0
  y : Nat := 0
  last : Option Text := none
  vt : VtSt := none
  prevWidth : Nat := 0

def D0 : Cell := genD0
def E : Emit := genEmit

def posLt (a b : Pos) : Bool := a.1 < b.1 || (a.1 == b.1 && a.2 < b.2)

def dumpCells (b : Buf) (d : Cell) : String :=
  let keys := (b.map (·.1)).eraseDups
  let keys := (keys.toArray.qsort posLt).toList
  let cells := keys.filterMap fun p =>
    let c := bufGet b d p
    if c = d then none else some (p, c)
  encList (fun (p, c) => s!"{p.1} {p.2} {encCell c}") cells

def dumpZwe (z : Zwe) : String :=
  let keys := (z.map (·.1)).eraseDups
  let keys := (keys.toArray.qsort posLt).toList
  encList (fun p => s!"{p.1} {p.2} {encStr ((zweFind? z p).getD [])}") keys

def encPieces (l : List Seg) : String :=
  let tag : Origin → String
    | .gen => "r" | .genw => "w" | .content => "w" | .zwe => "r"
  encList (fun (o, t) => tag o ++ " " ++ encStr t) (l.filter fun (_, t) => !t.isEmpty)

def handle (st : DState) : String → P (DState × String)
  | "env" => do
    let sty ← pList (do let s ← pStr; let a ← pNat; let h ← pBool; pure (s, a, h))
    let sg ← pList (do let a ← pNat; let t ← pStr; pure (a, t))
    -- the stream theorems assume every SGR code is a complete control sequence: re-checked
    -- here, with the tokenizer the theorems use, on the codes of the REAL escape-code cache
    let allComplete := sg.all fun (_, t) => complete t
    pure ({ st with env := { styles := sty, sgrs := sg } }, if allComplete then "ok" else "sgr-incomplete")
  | "cell" => do
    let s ← pStr; let sty ← pStr
    pure (st, encCell (mkCell M WC s sty))
  | "dwidth" => do
    let s ← pStr
    pure (st, toString (displayWidth M WC Gen.C10.isPrintable s))
  | "write" => do
    let s ← pStr
    pure (st, encStr (safeWrite s))
  | "print" => do
    let frs ← pList pFrag
    let e := st.env
    let segs := printFrags e.attrsOf e.sgr Gen.C10.resetAttrs Gen.C10.enableAutowrap frs
    pure (st, encStr (segsText segs) ++ " " ++ encSegs segs)
  | "tok" => do
    let s ← pStr
    pure (st, encList encStr (ctrlTokens s))
  | "newscreen" => pure ({ st with buf := [], zwe := [], height := 0 }, "ok")
  | "resetr" => pure ({ st with prev := none, x := 0, y := 0, last := none, vt := none, prevWidth := 0 }, "ok")
  | "copy" => do
    let xpos ← pInt; let ypos ← pInt; let width ← pInt; let height ← pInt
    let wrap ← pBool; let hscroll ← pNat; let align ← pNat; let vscroll ← pNat; let vscroll2 ← pNat
    let hasPre ← pBool
    let pre0 ← pList pFrag; let preN ← pList pFrag
    let lines ← pList (pList pFrag)
    let cfg : CopyCfg := {
      m := M, wc := WC, printable := Gen.C10.isPrintable, dflt := D0, xpos := xpos, ypos := ypos, width := width, height := height,
      wrap := wrap, hscroll := hscroll, align := align,
      pre := if hasPre then some (fun _ wc => if wc = 0 then pre0 else preN) else none }
    let r := copyBody cfg st.buf st.zwe lines vscroll vscroll2
    let h := max st.height (ypos + height).toNat
    pure ({ st with buf := r.buf, zwe := r.zwe, height := h },
      s!"{h} {dumpCells r.buf D0} {dumpZwe r.zwe}")
  | "diff" => do
    let isDone ← pBool; let fullScreen ← pBool; let width ← pNat; let height ← pNat
    let cx ← pNat; let cy ← pNat; let showCursor ← pBool
    let e := st.env
    let scr : Screen := { buf := st.buf, zwe := st.zwe, dflt := D0, height := st.height,
                          cursor := (cx, cy), showCursor := showCursor }
    let cfg : DiffCfg := { attrsOf := e.attrsOf, hasStyle := e.hasStyle, width := width, height := height }
    let r := diff cfg D0 scr st.prev st.x st.y st.last isDone fullScreen st.prevWidth
    let (vt, segs) := vtSegs E e.sgr st.vt r.evs.reverse
    let lastS := match r.last with | none => "N" | some l => encStr l
    pure ({ st with prev := some scr, x := r.x, y := r.y, last := r.last, vt := vt, prevWidth := width },
      s!"{r.x} {r.y} {lastS} {encStr (segsText segs)} {encPieces segs}")
  | _ => failure

def stepLine (e : DState) (toks : List String) : DState × String :=
  match toks with
  | [] => (e, "bad-op")
  | op :: rest =>
    match (handle e op).run rest with
    | some ((e', r), []) => (e', r)
    | _ => (e, "bad-op")

def main : IO Unit := runS stepLine {}
