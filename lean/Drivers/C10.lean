import Ptk.Proto
import Ptk.Gen.C10Display
import Ptk.Model.C10
open Ptk Ptk.Py Ptk.Proto Ptk.C10

/-- style environment sent by the harness (parameters of the model that belong to C19's domain):
    style string ↦ (attrs id, style_string_has_style), attrs id ↦ escape code -/
structure Env where
  styles : List (Text × Nat × Bool) := []
  sgrs : List (Nat × Text) := []

def Env.attrsOf (e : Env) (s : Text) : Nat :=
  match e.styles.find? (·.1 = s) with
  | some (_, a, _) => a
  | none => 999999
def Env.hasStyle (e : Env) (s : Text) : Bool :=
  match e.styles.find? (·.1 = s) with
  | some (_, _, h) => h
  | none => false
def Env.sgr (e : Env) (a : Nat) : Text :=
  match e.sgrs.find? (·.1 = a) with
  | some (_, t) => t
  | none => "<?sgr>".toList

/-! token stream parser -/
abbrev P := StateT (List String) Option

def tok : P String := fun s => match s with
  | [] => none
  | t :: ts => some (t, ts)
def pNat : P Nat := do let t ← tok; (decNat t : Option Nat)
def pInt : P Int := do let t ← tok; (decInt t : Option Int)
def pBool : P Bool := do let t ← tok; (decBool t : Option Bool)
def pStr : P Text := do let t ← tok; (decStr t : Option Text)
def pMany {α} (p : P α) : Nat → P (List α)
  | 0 => pure []
  | n + 1 => do let a ← p; let r ← pMany p n; pure (a :: r)
def pList {α} (p : P α) : P (List α) := do let n ← pNat; pMany p n

def pFrag : P (Text × Text) := do let s ← pStr; let t ← pStr; pure (s, t)

def M := Gen.C10.displayMappings
def WC := Gen.C10.wcwidth

def encCell (c : Cell) : String := s!"{encStr c.char} {encStr c.style} {c.width}"

def encSegs (l : List Seg) : String :=
  let tag : Origin → String
    | .gen => "r" | .content => "w" | .zwe => "r"
  encList (fun (o, t) => tag o ++ " " ++ encStr t) l

def handle (e : Env) : String → P (Env × String)
  | "env" => do
    let st ← pList (do let s ← pStr; let a ← pNat; let h ← pBool; pure (s, a, h))
    let sg ← pList (do let a ← pNat; let t ← pStr; pure (a, t))
    pure ({ styles := st, sgrs := sg }, "ok")
  | "cell" => do
    let s ← pStr; let st ← pStr
    pure (e, encCell (mkCell M WC s st))
  | "write" => do
    let s ← pStr
    pure (e, encStr (safeWrite s))
  | "print" => do
    let frs ← pList pFrag
    let segs := printFrags e.attrsOf e.sgr Gen.C10.resetAttrs Gen.C10.enableAutowrap frs
    pure (e, encStr (segsText segs) ++ " " ++ encSegs segs)
  | _ => failure

def stepLine (e : Env) (toks : List String) : Env × String :=
  match toks with
  | [] => (e, "bad-op")
  | op :: rest =>
    match (handle e op).run rest with
    | some ((e', r), []) => (e', r)
    | _ => (e, "bad-op")

def main : IO Unit := runS stepLine {}
