import Ptk.Proto
import Ptk.Model.C06
open Ptk Ptk.Py Ptk.Proto Ptk.C06

/-! Line-protocol driver for the C06 model (screen differ + renderer state + terminal model).
    See harness/c06.py for the grammar. -/

structure DS where
  w : Nat := 1
  h : Nat := 1
  fs : Bool := false
  depth : Nat := 8
  styles : List (Nat × Attrs) := []
  wide : Text := []
  zero : Text := []
  cur : Screen := Screen.empty
  prev : Option Screen := none
  rs : RState := RState.init.1
  dpos : Point := ⟨0, 0⟩
  dlast : Option Nat := none
  term : Term := Term.fresh 1 1 0 (fun _ _ => TCell.blank)

def DS.attrsOf (d : DS) (i : Nat) : Attrs :=
  match d.styles.find? (·.1 == i) with
  | some p => p.2
  | none => Attrs.dflt

/-- the driver's terminal stores the raw attributes (`enc = id`): the grid comparison is only made for
    cases rendered at one colour depth whose escape codes are pairwise distinct -/
def DS.env (d : DS) : Env := ⟨d.w, d.h, d.fs, fun _ => d.attrsOf, 0, d.depth, fun _ a => a⟩
def DS.cw (d : DS) (c : Char) : Nat :=
  if d.wide.contains c then 2 else if d.zero.contains c then 0 else 1

def b01 (b : Bool) : String := if b then "1" else "0"

def encAttrs (a : Attrs) : String :=
  encStr a.fg ++ "/" ++ encStr a.bg ++ "/" ++ b01 a.bold ++ b01 a.underline ++ b01 a.strike ++
    b01 a.italic ++ b01 a.blink ++ b01 a.reverse ++ b01 a.hidden

def decFlags (s : String) : Option (List Bool) :=
  s.toList.mapM fun c => if c = '1' then some true else if c = '0' then some false else none

def decAttrs (fg bg fl : String) : Option Attrs := do
  let fg ← decStr fg
  let bg ← decStr bg
  match ← decFlags fl with
  | [a, b, c, d, e, f, g] => some ⟨fg, bg, a, b, c, d, e, f, g⟩
  | _ => none

def encCmd : Cmd → String
  | .write t => "W" ++ encStr t
  | .writeRaw t => "R" ++ encStr t
  | .setAttrs a d _ => "A" ++ encAttrs a ++ s!"@{d}"
  | .resetAttrs => "A0"
  | .cursorUp n => s!"U{n}"
  | .cursorForward n => s!"F{n}"
  | .cursorBackward n => s!"B{n}"
  | .eraseDown => "ED"
  | .eraseEol => "EL"
  | .hideCursor => "CH"
  | .showCursor => "CS"
  | .disableAutowrap => "aw-"
  | .enableAutowrap => "aw+"
  | .eraseScreen => "ES"
  | .cursorGoto r c => s!"G{r},{c}"
  | .enterAlt => "alt+"
  | .quitAlt => "alt-"
  | .enableMouse => "mouse+"
  | .disableMouse => "mouse-"
  | .enablePaste => "paste+"
  | .disablePaste => "paste-"
  | .resetCkm => "ckm"
  | .resetCursorShape => "shape-"
  | .setCursorShape k => s!"shape{k}"
  | .scrollToPrompt => "scroll"
  | .flush => "flush"

def encCmds (cs : List Cmd) : String := encList encCmd cs

def encLast : Option Nat → String
  | none => "N"
  | some k => toString k

def parseCells : List String → Option (List Cell)
  | [] => some []
  | t :: s :: w :: rest => do
    let t ← decStr t
    let s ← decNat s
    let w ← decNat w
    let cs ← parseCells rest
    pure (⟨t, s, w⟩ :: cs)
  | _ => none

def decLast (tok : String) : Option (Option Nat) :=
  if tok == "N" then some none else tok.toNat?.map some

def encTCell (c : TCell) : String :=
  ".".intercalate (c.ch.map fun ch => toString ch.toNat) ++ ";" ++ encAttrs c.attrs

def encGrid (t : Term) : String :=
  let rows := (List.range t.h).map fun y =>
    "|".intercalate ((List.range t.w).map fun x => encTCell (t.cells y x))
  s!"{t.row} {t.col} {b01 t.visible} {b01 t.autowrap} {encAttrs t.sgr} {t.scrolled} {b01 t.oob} " ++
    " ".intercalate rows

def encRS (r : RState) : String :=
  s!"{r.pos.x} {r.pos.y} {encLast r.lastStyle} {b01 r.lastScreen.isSome} {b01 r.inAlt}{b01 r.mouse}{b01 r.paste}{b01 r.ckm}"

def DS.run (d : DS) (cs : List Cmd) : DS := { d with term := exec d.cw d.term cs }

def step (d : DS) (toks : List String) : DS × String :=
  let bad := (d, "bad-op")
  match toks with
  | ["cfg", w, h, fs] =>
    match decNat w, decNat h, decBool fs with
    | some w, some h, some fs =>
      ({ w := w, h := h, fs := fs, term := Term.fresh w h 0 (fun _ _ => TCell.blank) }, "ok")
    | _, _, _ => bad
  | ["depth", k] =>
    match decNat k with
    | some k => ({ d with depth := k }, "ok")
    | none => bad
  | ["size", w, h] =>
    match decNat w, decNat h with
    | some w, some h => ({ d with w := w, h := h }, "ok")
    | _, _ => bad
  | ["style", i, fg, bg, fl] =>
    match decNat i, decAttrs fg bg fl with
    | some i, some a => ({ d with styles := (i, a) :: d.styles }, "ok")
    | _, _ => bad
  | ["cw", k, s] =>
    match decNat k, decStr s with
    | some 2, some s => ({ d with wide := s }, "ok")
    | some 0, some s => ({ d with zero := s }, "ok")
    | _, _ => bad
  | ["scr", hh, cx, cy, sh] =>
    match decNat hh, decNat cx, decNat cy, decBool sh with
    | some hh, some cx, some cy, some sh =>
      ({ d with cur := ⟨[], [], hh, ⟨cx, cy⟩, sh⟩ }, "ok")
    | _, _, _, _ => bad
  | "row" :: rest =>
    match parseCells rest with
    | some cs => ({ d with cur := { d.cur with rows := d.cur.rows ++ [cs] } }, "ok")
    | none => bad
  | ["zwe", y, x, t] =>
    match decNat y, decNat x, decStr t with
    | some y, some x, some t => ({ d with cur := { d.cur with zwe := d.cur.zwe ++ [(y, x, t)] } }, "ok")
    | _, _, _ => bad
  | ["keep"] => ({ d with prev := some d.cur }, "ok")
  | ["noprev"] => ({ d with prev := none }, "ok")
  | ["diff", px, py, last, isDone, pw] =>
    -- "-" = the value returned by the previous diff (position, last style) / the current width
    let px := if px == "-" then some d.dpos.x else decNat px
    let py := if py == "-" then some d.dpos.y else decNat py
    let last := if last == "-" then some d.dlast else decLast last
    let pw := if pw == "-" then some d.w else decNat pw
    match px, py, last, decBool isDone, pw with
    | some px, some py, some last, some isDone, some pw =>
      let o := diff d.env d.cur ⟨px, py⟩ d.prev last isDone pw
      ({ d with dpos := o.pos, dlast := o.last }.run o.cmds,
       s!"{encCmds o.cmds} | {o.pos.x} {o.pos.y} {encLast o.last}")
    | _, _, _, _, _ => bad
  | ["init"] =>
    let r := RState.init
    ({ d with rs := r.1 }.run r.2, s!"{encCmds r.2} | {encRS r.1}")
  | ["render", isDone, mouse, key, shape] =>
    match decBool isDone, decBool mouse, decNat key, decNat shape with
    | some isDone, some mouse, some key, some shape =>
      let r := d.rs.render d.env d.cur isDone mouse key shape
      ({ d with rs := r.1 }.run r.2, s!"{encCmds r.2} | {encRS r.1}")
    | _, _, _, _ => bad
  | ["erase", la] =>
    match decBool la with
    | some la =>
      let r := d.rs.erase la
      ({ d with rs := r.1 }.run r.2, s!"{encCmds r.2} | {encRS r.1}")
    | none => bad
  | ["reset", sc, la] =>
    match decBool sc, decBool la with
    | some sc, some la =>
      let r := d.rs.reset sc la
      ({ d with rs := r.1 }.run r.2, s!"{encCmds r.2} | {encRS r.1}")
    | _, _ => bad
  | ["clear"] =>
    let r := d.rs.clear
    ({ d with rs := r.1 }.run r.2, s!"{encCmds r.2} | {encRS r.1}")
  | ["term", top] =>
    match decNat top with
    | some top => ({ d with term := Term.fresh d.w (d.h - top) top (fun _ _ => TCell.blank) }, "ok")
    | none => bad
  | ["rebase"] => ({ d with term := d.term.rebase }, "ok")
  | ["grid"] => (d, encGrid d.term)
  | _ => bad

def main : IO Unit := runS step {}
