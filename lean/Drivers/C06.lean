import Ptk.Proto
import Ptk.Model.C06Full
import Ptk.Model.C06Vt
import Ptk.Model.C06Tr
open Ptk Ptk.Py Ptk.Proto Ptk.C06

/-! Line-protocol driver for the C06 model (screen differ + renderer state + terminal model).
    See harness/c06.py for the grammar. -/

structure DS where
  fs : Bool := false
  depth : Nat := 8
  /-- `(sk, tk, style id) ↦ Attrs`: what style sheet `sk` + transformation `tk` give for a style string -/
  table : List (Nat × Nat × Nat × Attrs) := []
  wide : Text := []
  zero : Text := []
  cur : Screen := Screen.empty
  prev : Option Screen := none
  /-- the renderer session (application state + every `Renderer` attribute) -/
  st : FSt := ⟨⟨1, 1, 0, 0, 8, false, 0⟩, (RFull.init false).1⟩
  /-- the two dictionaries of the direct differ calls -/
  dcs : Caches := ⟨⟨0, 0, 0, []⟩, ⟨⟨0, 0, 0, []⟩, []⟩⟩
  dpos : Point := ⟨0, 0⟩
  dlast : Option Nat := none
  term : Term := Term.fresh 1 1 0 (fun _ _ => TCell.blank)
  /-- the `Vt100_Output` object (`_cursor_visible`, `_cursor_shape_changed`) and the terminal that reads its bytes -/
  vst : VtSt := VtSt.init
  bterm : BTerm := ⟨Term.fresh 1 1 0 (fun _ _ => TCell.blank), Sgr.dflt, .ground⟩
  /-- the bytes written by the last operation -/
  bytes : Text := []
  /-- the module-level memo tables `_16_fg_colors` / `_16_bg_colors` of the process -/
  cmemo : ColorMemo := ColorMemo.empty
  /-- sessions whose style transformation is a real object graph: the hashes seen so far (the position in this list
      is the `tk` key of the renderer model), and what the leaf objects compute: `(leaf, attrs in) ↦ attrs out` -/
  trMode : Bool := false
  hashes : List TrHash := []
  leafTab : List (Nat × Attrs × Attrs) := []

def lookupT : List (Nat × Nat × Nat × Attrs) → Nat → Nat → Nat → Attrs
  | [], _, _, _ => Attrs.dflt
  | (a, b, c, v) :: rest, sk, tk, s => if a = sk ∧ b = tk ∧ c = s then v else lookupT rest sk tk s

/-- what a terminal displays for `set_attributes` is what the escape-code encoder and the SGR interpretation
    make of it (`vtEnc`) -/
def lookupLeaf : List (Nat × Attrs × Attrs) → Nat → Attrs → Attrs
  | [], _, a => a
  | (i, x, y) :: rest, j, a => if i = j ∧ x = a then y else lookupLeaf rest j a

def DS.world (d : DS) : World :=
  if d.trMode then
    ⟨fun sk tk s => match d.hashes[tk]? with
        | some h => h.apply (lookupLeaf d.leafTab) (lookupT d.table sk 0 s)
        | none => lookupT d.table sk 0 s, vtEnc⟩
  else ⟨lookupT d.table, vtEnc⟩

/-- the evaluated transformation term: `D` | `L i` | `C b t` | `YN` | `Y t` | `M n t₁ … tₙ` -/
partial def parseTr : List String → Option (Tr × List String)
  | "D" :: rest => some (.dummy, rest)
  | "L" :: i :: rest => (decNat i).map fun i => (.leaf i, rest)
  | "C" :: b :: rest => do
    let b ← decBool b
    let (t, rest) ← parseTr rest
    pure (.cond b t, rest)
  | "YN" :: rest => some (.dynNone, rest)
  | "Y" :: rest => do
    let (t, rest) ← parseTr rest
    pure (.dyn t, rest)
  | "M" :: n :: rest => do
    let n ← decNat n
    let rec go : Nat → List String → Option (List Tr × List String)
      | 0, rest => some ([], rest)
      | k + 1, rest => do
        let (t, rest) ← parseTr rest
        let (ts, rest) ← go k rest
        pure (t :: ts, rest)
    let (ts, rest) ← go n rest
    pure (ts.foldr Tr.mcons Tr.mnil, rest)
  | _ => none

def indexOfHash (h : TrHash) : List TrHash → Nat → Option Nat
  | [], _ => none
  | x :: rest, i => if x = h then some i else indexOfHash h rest (i + 1)

def DS.w (d : DS) : Nat := d.st.app.w
def DS.h (d : DS) : Nat := d.st.app.h
/-- the environment of a direct differ call (style sheet 0, transformation 0) -/
def DS.env (d : DS) : Env := AppSt.env d.world d.fs { d.st.app with sk := 0, tk := 0, depth := d.depth }
def DS.cw (d : DS) (c : Char) : Nat :=
  if d.wide.contains c then 2 else if d.zero.contains c then 0 else 1

def b01 (b : Bool) : String := if b then "1" else "0"

def encAttrs (a : Attrs) : String :=
  encStr a.fg ++ "/" ++ encStr a.bg ++ "/" ++ b01 a.bold ++ b01 a.underline ++ b01 a.strike ++
    b01 a.italic ++ b01 a.blink ++ b01 a.reverse ++ b01 a.hidden

def decFlags (s : String) : Option (List Bool) :=
  s.toList.mapM fun c => if c = '1' then some true else if c = '0' then some false else none

def decAttrs (fg bg fl : String) : Option Attrs := do
  let fg ← decStr fg
  let bg ← decStr bg
  match ← decFlags fl with
  | [a, b, c, d, e, f, g] => some ⟨fg, bg, a, b, c, d, e, f, g⟩
  | _ => none

def encCmd : Cmd → String
  | .write t => "W" ++ encStr t
  | .writeRaw t => "R" ++ encStr t
  | .setAttrs a d _ => "A" ++ encAttrs a ++ s!"@{d}"
  | .resetAttrs => "A0"
  | .cursorUp n => s!"U{n}"
  | .cursorForward n => s!"F{n}"
  | .cursorBackward n => s!"B{n}"
  | .eraseDown => "ED"
  | .eraseEol => "EL"
  | .hideCursor => "CH"
  | .showCursor => "CS"
  | .disableAutowrap => "aw-"
  | .enableAutowrap => "aw+"
  | .eraseScreen => "ES"
  | .cursorGoto r c => s!"G{r},{c}"
  | .enterAlt => "alt+"
  | .quitAlt => "alt-"
  | .enableMouse => "mouse+"
  | .disableMouse => "mouse-"
  | .enablePaste => "paste+"
  | .disablePaste => "paste-"
  | .resetCkm => "ckm"
  | .resetCursorShape => "shape-"
  | .setCursorShape k => s!"shape{k}"
  | .scrollToPrompt => "scroll"
  | .flush => "flush"
  | .askCpr => "cpr"

def encCmds (cs : List Cmd) : String := encList encCmd cs

def encLast : Option Nat → String
  | none => "N"
  | some k => toString k

def parseCells : List String → Option (List Cell)
  | [] => some []
  | t :: s :: w :: rest => do
    let t ← decStr t
    let s ← decNat s
    let w ← decNat w
    let cs ← parseCells rest
    pure (⟨t, s, w⟩ :: cs)
  | _ => none

def decLast (tok : String) : Option (Option Nat) :=
  if tok == "N" then some none else tok.toNat?.map some

def encTCell (c : TCell) : String :=
  ".".intercalate (c.ch.map fun ch => toString ch.toNat) ++ ";" ++ encAttrs c.attrs

def encGrid (t : Term) : String :=
  let rows := (List.range t.h).map fun y =>
    "|".intercalate ((List.range t.w).map fun x => encTCell (t.cells y x))
  s!"{t.row} {t.col} {b01 t.visible} {b01 t.autowrap} {encAttrs t.sgr} {t.scrolled} {b01 t.oob} " ++
    " ".intercalate rows

def encOpt : Option Nat → String
  | none => "N"
  | some k => toString k

def encCpr : Cpr → String
  | .unknown => "U"
  | .supported => "S"
  | .notSupported => "X"

def encRS (r : RFull) : String :=
  let sz := match r.lastSize with | some (a, b) => s!"{a}x{b}" | none => "N"
  s!"{r.pos.x} {r.pos.y} {encLast r.lastStyle} {b01 r.lastScreen.isSome} {b01 r.inAlt}{b01 r.mouse}{b01 r.paste}{b01 r.ckm}" ++
  s!" sk={encOpt r.styleHash} tk={encOpt r.transHash} d={encOpt r.lastDepth} sz={sz} sh={encOpt r.shape}" ++
  s!" min={r.minAvail} cpr={encCpr r.cpr} wait={r.waiting}"

/-- insertion sort by key (dict contents are compared as sorted lists) -/
def insertBy {α : Type} (p : Nat × α) : List (Nat × α) → List (Nat × α)
  | [] => [p]
  | q :: rest => if p.1 ≤ q.1 then p :: q :: rest else q :: insertBy p rest

def sortBy {α : Type} (l : List (Nat × α)) : List (Nat × α) := l.foldr insertBy []

/-- the two dictionaries: sorted entries (the entry of the default char's style `[transparent]` = 1 is left
    out: the model's dense rows visit gaps that the sparse dict rows do not), and whether the has-style cache
    reads this attrs cache object -/
def encCaches (ac : Option ACache) (hc : Option HCache) : String :=
  let a := match ac with
    | none => "N"
    | some c => ",".intercalate ((sortBy (c.ents.filter (·.1 != 1))).map fun (p : Nat × Attrs) => s!"{p.1}={encAttrs p.2}")
  let h := match hc with
    | none => "N"
    | some c => ",".intercalate ((sortBy (c.ents.filter (·.1 != 1))).map fun (p : Nat × Bool) => s!"{p.1}={b01 p.2}")
  let al := match ac, hc with
    | some c, some x => b01 (x.src.id == c.id)
    | _, _ => "-"
  s!"A[{a}] H[{h}] alias={al}"

/-- execute the calls on the abstract terminal; encode them as `Vt100_Output` does and let the byte-level
    interpreter read the result -/
def DS.run (d : DS) (cs : List Cmd) : DS :=
  let em := vtEmitAllM d.vst d.cmemo cs
  { d with term := exec d.cw d.term cs, vst := em.1, cmemo := em.2.1, bterm := interp d.cw d.bterm em.2.2,
           bytes := em.2.2 }

def encPState : PState → String
  | .ground => "g"
  | _ => "mid"

def step (d : DS) (toks : List String) : DS × String :=
  let bad := (d, "bad-op")
  match toks with
  | ["cfg", w, h, fs, cpr] =>
    match decNat w, decNat h, decBool fs, decBool cpr with
    | some w, some h, some fs, some _ =>
      ({ fs := fs, st := ⟨⟨w, h, 0, 0, 8, false, 0⟩, (RFull.init false).1⟩,
         term := Term.fresh w h 0 (fun _ _ => TCell.blank),
         bterm := ⟨Term.fresh w h 0 (fun _ _ => TCell.blank), Sgr.dflt, .ground⟩ }, "ok")
    | _, _, _, _ => bad
  | ["depth", k] =>
    match decNat k with
    | some k => ({ d with depth := k, st := (stepF d.world d.fs d.st (.setDepth k)).1 }, "ok")
    | none => bad
  | ["size", w, h] =>
    match decNat w, decNat h with
    | some w, some h => ({ d with st := (stepF d.world d.fs d.st (.resize w h)).1 }, "ok")
    | _, _ => bad
  | ["setstyle", k] =>
    match decNat k with
    | some k => ({ d with st := (stepF d.world d.fs d.st (.setStyle k)).1 }, "ok")
    | none => bad
  | ["leaf", i, fg, bg, fl, fg2, bg2, fl2] =>
    match decNat i, decAttrs fg bg fl, decAttrs fg2 bg2 fl2 with
    | some i, some a, some b => ({ d with trMode := true, leafTab := d.leafTab ++ [(i, a, b)] }, "ok")
    | _, _, _ => bad
  | "settr" :: term =>
    -- the transformation object graph is now in this state: its hash, as the code computes it, is the key
    match parseTr term with
    | some (t, []) =>
      let h := t.hash
      let (hs, idx) := match indexOfHash h d.hashes 0 with
        | some i => (d.hashes, i)
        | none => (d.hashes ++ [h], d.hashes.length)
      let d1 := { d with trMode := true, hashes := hs }
      ({ d1 with st := (stepF d1.world d1.fs d1.st (.setTrans idx)).1 }, s!"tk={idx}")
    | _ => bad
  | ["settrans", k] =>
    match decNat k with
    | some k => ({ d with st := (stepF d.world d.fs d.st (.setTrans k)).1 }, "ok")
    | none => bad
  | ["style", sk, tk, i, fg, bg, fl] =>
    match decNat sk, decNat tk, decNat i, decAttrs fg bg fl with
    | some sk, some tk, some i, some a => ({ d with table := (sk, tk, i, a) :: d.table }, "ok")
    | _, _, _, _ => bad
  | ["cw", k, s] =>
    match decNat k, decStr s with
    | some 2, some s => ({ d with wide := s }, "ok")
    | some 0, some s => ({ d with zero := s }, "ok")
    | _, _ => bad
  | ["scr", hh, cx, cy, sh] =>
    match decNat hh, decNat cx, decNat cy, decBool sh with
    | some hh, some cx, some cy, some sh =>
      ({ d with cur := ⟨[], [], hh, ⟨cx, cy⟩, sh⟩ }, "ok")
    | _, _, _, _ => bad
  | "row" :: rest =>
    match parseCells rest with
    | some cs => ({ d with cur := { d.cur with rows := d.cur.rows ++ [cs] } }, "ok")
    | none => bad
  | ["zwe", y, x, t] =>
    match decNat y, decNat x, decStr t with
    | some y, some x, some t => ({ d with cur := { d.cur with zwe := d.cur.zwe ++ [(y, x, t)] } }, "ok")
    | _, _, _ => bad
  | ["keep"] => ({ d with prev := some d.cur }, "ok")
  | ["noprev"] => ({ d with prev := none }, "ok")
  | ["diff", px, py, last, isDone, pw] =>
    -- "-" = the value returned by the previous diff (position, last style) / the current width
    let px := if px == "-" then some d.dpos.x else decNat px
    let py := if py == "-" then some d.dpos.y else decNat py
    let last := if last == "-" then some d.dlast else decLast last
    let pw := if pw == "-" then some d.w else decNat pw
    match px, py, last, decBool isDone, pw with
    | some px, some py, some last, some isDone, some pw =>
      let o := diffC d.world d.env d.dcs d.cur ⟨px, py⟩ d.prev last isDone pw
      ({ d with dpos := o.pos, dlast := o.last, dcs := o.cs }.run o.cmds,
       s!"{encCmds o.cmds} | {o.pos.x} {o.pos.y} {encLast o.last} | {encCaches (some o.cs.ac) (some o.cs.hc)}")
    | _, _, _, _, _ => bad
  | ["init", cpr] =>
    match decBool cpr with
    | some cpr =>
      let r := RFull.init cpr
      ({ d with st := { d.st with r := r.1 } }.run r.2, s!"{encCmds r.2} | {encRS r.1}")
    | none => bad
  | ["render", isDone, mouse, shape, pref] =>
    match decBool isDone, decBool mouse, decNat shape, decNat pref with
    | some isDone, some mouse, some shape, some pref =>
      let st1 := (stepF d.world d.fs (stepF d.world d.fs d.st (.setMouse mouse)).1 (.setShape shape)).1
      let o := st1.r.render d.world d.fs st1.app d.cur isDone pref
      ({ d with st := { st1 with r := o.st } }.run o.cmds,
       s!"{encCmds o.cmds} | {encRS o.st} | h={o.height} | {encCaches o.st.attrsCache o.st.hasCache}")
    | _, _, _, _ => bad
  | ["erase", la] =>
    match decBool la with
    | some la =>
      let r := stepF d.world d.fs d.st (.erase la)
      ({ d with st := r.1 }.run r.2, s!"{encCmds r.2} | {encRS r.1.r}")
    | none => bad
  | ["reset", sc, la] =>
    match decBool sc, decBool la with
    | some sc, some la =>
      let r := stepF d.world d.fs d.st (.reset sc la)
      ({ d with st := r.1 }.run r.2, s!"{encCmds r.2} | {encRS r.1.r}")
    | _, _ => bad
  | ["clear"] =>
    match d.st.r.clear d.fs d.st.app.h with
    | some q => ({ d with st := { d.st with r := q.1 } }.run q.2.1, s!"{encCmds q.2.1} | {encRS q.1} | timer={b01 q.2.2}")
    | none => ({ d with bytes := [] }, "err:AssertionError")
  | ["reqcpr"] =>
    match d.st.r.requestCpr d.fs d.st.app.h with
    | some q => ({ d with st := { d.st with r := q.1 } }.run q.2.1, s!"{encCmds q.2.1} | {encRS q.1} | timer={b01 q.2.2}")
    | none => ({ d with bytes := [] }, "err:AssertionError")
  | ["cprrow", row] =>
    match decInt row with
    | some row =>
      let r := stepF d.world d.fs d.st (.reportCpr row)
      ({ d with st := r.1 }, s!"{encRS r.1.r}")
    | none => bad
  | ["cprtimeout"] =>
    let r := stepF d.world d.fs d.st .cprTimeout
    ({ d with st := r.1 }, s!"{encRS r.1.r}")
  | ["hknown"] => (d, b01 (d.st.r.heightIsKnown d.fs))
  | ["rowsabove"] =>
    match d.st.r.rowsAboveLayout d.st.app.h with
    | some v => (d, toString v)
    | none => (d, "err:HeightIsUnknownError")
  | ["term", top] =>
    match decNat top with
    | some top =>
      -- a fresh terminal of the same geometry that keeps the modes (what the next prompt finds)
      let keep (old : Term) : Term :=
        { Term.fresh d.w (d.h - top) top (fun _ _ => TCell.blank) with
            sgr := old.sgr, autowrap := old.autowrap, visible := old.visible }
      ({ d with term := keep d.term, bterm := { d.bterm with t := keep d.bterm.t } }, "ok")
    | none => bad
  | ["rebase"] => ({ d with term := d.term.rebase }, "ok")
  | ["foreign", k] =>
    -- other output (run_in_terminal, the next prompt's predecessor …) prints `k` lines: the cursor moves down,
    -- the renderer's origin is now that row
    match decNat k with
    | some k =>
      let lines := repeatText crlf k
      let t1 := (exec d.cw d.term [.write lines]).rebase
      let b1 := interp d.cw d.bterm lines
      ({ d with term := t1, bterm := { b1 with t := b1.t.rebase } }, "ok")
    | none => bad
  | ["grid"] => (d, encGrid d.term)
  | ["bgrid"] => (d, encPState d.bterm.ps ++ " " ++ encGrid d.bterm.t)
  | ["bytes"] => (d, encStr d.bytes)
  | _ => bad

def main : IO Unit := runS step {}
