import Ptk.Proto
import Ptk.Model.C05
import Ptk.Model.C05SkelGen
import Ptk.Model.C05Api
import Ptk.Gen.PyChars
open Ptk Ptk.Py Ptk.Proto Ptk.C05

/-! Line-protocol driver for the C05 model.

  `init k <nlines> <line>* <idx> <cur> <ro> <hs>`   set buffer k (0 = current/default, 1 = search)
  `op k <name> <args>*`                              one API call / raw write on buffer k
  `sync k`                                           print buffer k
  `app <viMode> <mode> <opPending> <opArg> <waiting> <digraph1|N> <tempNav> <arg|N>`
  `hop <hop>`                                        one handler op applied directly
  `hbegin <saveBefore>` / `h <hop>` / `hend`         `_call_handler` with the collected program
  `accept <N|int>`                                   `validate_and_handle` (validator result)

  mode skeleton (Ptk.Model.C05Skel, table = Ptk.Gen.C05Bindings resolved by name):
  `skhello`                                          table hash, sizes
  `skset <skeleton>`                                 set the skeleton state
  `skkey <key> <dc> <flush> <env> <n> {<hd> <env>}*`  feed one key; `env` = bit string over the atom list,
                                                     `hd` = 8 bits tc0 tc1 ro anchor done moved atAnchor textEmpty
     reply: `<skeleton> h=<handler ids called> a=<values of the skeleton-evaluated atoms>`
-/

structure D where
  app : App
  b1 : Buf
  prog : List HOp
  save : Bool
  sk : Skel.Sk


def emptyBuf : Buf :=
  { lines := [[]], idx := 0, cur := 0, sel := none, multi := [], undo := [], redo := [],
    readOnly := false, hsearch := none, enableHS := false }

def vi0 : Vi :=
  { mode := .insert, opPending := false, opArg := none, waitingDigraph := false, digraph1 := none,
    tempNav := false, recording := none, curRecording := [] }

def encOutcome : Outcome → String
  | .ok => "ok" | .readOnly => "ro" | .assertion => "err:AssertionError" | .indexError => "err:IndexError"

def encOptStr : Option Text → String
  | none => "N" | some t => encStr t
def decOptStr (tok : String) : Option (Option Text) :=
  if tok == "N" then some none else (decStr tok).map some

def encEntry : Option (Text × Nat) → String
  | none => "N" | some (t, p) => s!"{encStr t}@{p}"

def encBuf (b : Buf) : String :=
  let text := match b.lines[b.idx]? with | some t => encStr t | none => "X"
  let sel := match b.sel with | none => "N" | some s => s!"{s.anchor}:{s.typ}"
  s!"{text} {b.cur} {b.idx} {b.lines.length} {sel} [{encList encInt b.multi}] {b.undo.length} {b.redo.length} {encEntry b.undo.head?} {encEntry b.redo.head?} {encOptStr b.hsearch}"

def encMode : InputMode → String
  | .insert => "0" | .insertMultiple => "1" | .navigation => "2" | .replace => "3" | .replaceSingle => "4"
def decMode (tok : String) : Option InputMode :=
  match tok with
  | "0" => some .insert | "1" => some .insertMultiple | "2" => some .navigation
  | "3" => some .replace | "4" => some .replaceSingle | _ => none

def encVi (a : App) : String :=
  s!"{encBool a.viMode} {encMode a.vi.mode} {encBool a.vi.opPending} {encOptInt a.vi.opArg} {encBool a.vi.waitingDigraph} {encOptStr a.vi.digraph1} {encBool a.vi.tempNav} {encOptStr a.vi.recording} {encStr a.vi.curRecording} {encOptStr a.arg} nav={encBool (viNavigationMode a)}"

def takeN (n : Nat) (l : List String) : Option (List String × List String) :=
  if l.length < n then none else some (l.take n, l.drop n)

def decInts : List String → Option (List Int)
  | [] => some []
  | t :: ts => do pure ((← decInt t) :: (← decInts ts))

def parseOp : List String → Option (Sum Op Raw)
  | ["cur", v] => do pure (.inl (.setCursor (← decInt v)))
  | ["text", t] => do pure (.inl (.setText (← decStr t)))
  | ["doc", t, c, bp] => do pure (.inl (.setDocument (← decStr t) (← decInt c) (← decBool bp)))
  | ["widx", i] => do pure (.inl (.setWorkingIndex (← decNat i)))
  | ["reset", t, c] => do pure (.inl (.reset (← decStr t) (← decNat c)))
  | ["save", c] => do pure (.inl (.saveUndo (← decBool c)))
  | ["undo"] => some (.inl .undo)
  | ["redo"] => some (.inl .redo)
  | ["startsel", t] => do pure (.inl (.startSelection (← decNat t)))
  | ["exitsel"] => some (.inl .exitSelection)
  | ["appendleft", t] => do pure (.inl (.appendLeft (← decStr t)))
  | ["move", d] => do pure (.inl (.moveCursor (← decInt d)))
  | ["ins", d, o, m] => do pure (.inl (.insertText (← decStr d) (← decBool o) (← decBool m)))
  | ["del", n] => do pure (.inl (.delete (← decNat n)))
  | ["delb", n] => do pure (.inl (.deleteBefore (← decNat n)))
  | ["hfwd", c] => do pure (.inl (.historyForward (← decInt c)))
  | ["hback", c] => do pure (.inl (.historyBackward (← decInt c)))
  | ["goto", i] => do pure (.inl (.goToHistory (← decNat i)))
  | ["search", i, c] => do pure (.inl (.applySearch (← decNat i) (← decInt c)))
  | ["cutsel", t, c] => do pure (.inl (.cutSelection (← decStr t) (← decInt c)))
  | ["sel", "N"] => some (.inl .exitSelection)
  | ["sel", a, t] => do pure (.inr (.selWrite (← decInt a) (← decNat t)))
  | "multi" :: ps => do pure (.inr (.multi (← decInts ps)))
  | ["hs", v] => do pure (.inr (.hsearch (← decOptStr v)))
  | _ => none

def parseHOp : List String → Option HOp
  | ["mode", m] => do pure (.setMode (← decMode m))
  | ["setop", p, a] => do pure (.setOp (← decBool p) (← decOptInt a))
  | ["digraph", w, s] => do pure (.setDigraph (← decBool w) (← decOptStr s))
  | ["tempnav", t] => do pure (.setTempNav (← decBool t))
  | ["arg", a] => do pure (.setArg (← decOptStr a))
  | ["vireset"] => some .viReset
  | toks => match parseOp toks with
    | some (.inl op) => some (.buf op)
    | some (.inr r) => some (.raw r)
    | none => none

def applyBuf (b : Buf) (toks : List String) : Option (Buf × Outcome) :=
  match parseOp toks with
  | some (.inl op) => some (step b op)
  | some (.inr r) => some (stepRaw b r, .ok)
  | none => none

def parseInit (rest : List String) : Option Buf := do
  match rest with
  | n :: rest =>
    let n ← decNat n
    let (ls, rest) ← takeN n rest
    let lines ← ls.mapM decStr
    match rest with
    | [idx, cur, ro, hs] =>
      pure { emptyBuf with lines := lines, idx := (← decNat idx), cur := (← decNat cur),
                           readOnly := (← decBool ro), enableHS := (← decBool hs) }
    | _ => none
  | _ => none

/-! extended Buffer API (Ptk.Model.C05Api):
  `init2 <nlines> <line>* <idx> <cur> <ro> <hs> <nhist> <hist>* <N | anchor typ>`   set buffer 0
  `op2 <name> <args>*`            one call; reply `<outcome> <buffer> Y=<yank state> C=<completion state>`
  `qw <text>`                     `_QUOTED_WORDS_RE` words of a line
  `tl <pre> <idx>*`               `transform_lines(idx, lambda l: pre + l)` on buffer 0 -/
namespace ApiD

def cls : Cls := { reSpace := Gen.reSpace, isSpace := Gen.isSpace, isBreak := Gen.isLineBreak }

def encYank : Option YankSt → String
  | none => "N"
  | some y => s!"{y.pos},{y.n},{encStr y.prev}"

def encComp : Option CompSt → String
  | none => "N"
  | some c =>
    let idx := match c.index with | none => "N" | some i => toString i
    s!"{encStr c.origText}@{c.origCur};{idx};{c.comps.length}" ++
      c.comps.foldl (fun acc x => acc ++ s!";{encStr x.text}:{x.start}") ""

def encBuf2 (b : Buf) : String := s!"{encBuf b} Y={encYank b.yank} C={encComp b.comp}"

def decComps : List String → Option (List Completion)
  | [] => some []
  | t :: st :: rest => do pure (⟨← decStr t, ← decInt st⟩ :: (← decComps rest))
  | _ => none

def parseOp2 : List String → Option Op2
  | "old" :: rest => match parseOp rest with
    | some (.inl op) => some (.old op)
    | _ => none
  | ["yank", n, l] => do pure (.yankNthArg (← decOptInt n) (← decBool l))
  | "setc" :: _n :: rest => do pure (.setCompletions (← decComps rest))
  | ["gotoc", i] => do pure (.goToCompletion (← decOptInt i))
  | ["cnext", c, w] => do pure (.completeNext (← decInt c) (← decBool w))
  | ["cprev", c, w] => do pure (.completePrevious (← decInt c) (← decBool w))
  | ["ccancel"] => some .cancelCompletion
  | ["capply", t, st] => do pure (.applyCompletion (← decStr t) (← decInt st))
  | ["updown", c, d] => do pure (.cursorUpDown (← decInt c) (← decInt d))
  | ["aup", c, g, d] => do pure (.autoUp (← decInt c) (← decBool g) (← decInt d))
  | ["adown", c, g, d] => do pure (.autoDown (← decInt c) (← decBool g) (← decInt d))
  | ["copysel", cut, t, c] => do pure (.copySelection (← decBool cut) (← decStr t) (← decInt c))
  | ["paste", t, c] => do pure (.pasteDoc (← decStr t) (← decInt c))
  | ["tcl", r] => do pure (.transformCurrentLine (← decStr r))
  | ["treg", f, t, r] => do pure (.transformRegion (← decInt f) (← decInt t) (← decStr r))
  | ["joinn", sep] => do pure (.joinNextLine (← decStr sep))
  | ["joins", sep] => do pure (.joinSelectedLines (← decStr sep))
  | ["swap"] => some .swapChars
  | ["nl", m] => do pure (.newline (← decStr m))
  | ["ila", m] => do pure (.insertLineAbove (← decStr m))
  | ["ilb", m] => do pure (.insertLineBelow (← decStr m))
  | ["edres", t] => do pure (.editorResult (← decStr t))
  | _ => none

def parseInit2 (rest : List String) : Option Buf := do
  match rest with
  | n :: rest =>
    let n ← decNat n
    let (ls, rest) ← takeN n rest
    let lines ← ls.mapM decStr
    match rest with
    | idx :: cur :: ro :: hs :: nh :: rest =>
      let nh ← decNat nh
      let (hsx, rest) ← takeN nh rest
      let hist ← hsx.mapM decStr
      let sel ← match rest with
        | ["N"] => some none
        | [a, t] => do pure (some (⟨← decInt a, ← decNat t⟩ : Sel))
        | _ => none
      pure { emptyBuf with lines := lines, idx := (← decNat idx), cur := (← decNat cur),
                           readOnly := (← decBool ro), enableHS := (← decBool hs), hist := hist, sel := sel }
    | _ => none
  | _ => none

end ApiD

namespace SkD
open Skel

def tbl : Tbl := genTblByName

def encSel : Option SelS → String
  | none => "N"
  | some x => (match x.typ with | .characters => "0" | .lines => "1" | .block => "2") ++ encBool x.shift
def decSel (tok : String) : Option (Option SelS) :=
  match tok with
  | "N" => some none
  | "00" => some (some ⟨.characters, false⟩) | "01" => some (some ⟨.characters, true⟩)
  | "10" => some (some ⟨.lines, false⟩) | "11" => some (some ⟨.lines, true⟩)
  | "20" => some (some ⟨.block, false⟩) | "21" => some (some ⟨.block, true⟩)
  | _ => none
def encOB : Option Bool → String
  | none => "N" | some b => encBool b
def decOB (tok : String) : Option (Option Bool) :=
  if tok == "N" then some none else (decBool tok).map some

def encKeys (l : List KeyP) : String :=
  toString l.length ++ l.foldl (fun acc k => acc ++ s!" {k.key} {k.dc}") ""

def encSk (s : Sk) : String :=
  s!"{encBool s.vi} {encBool s.ro} {encMode s.mode} {encBool s.tempNav} {encOB s.op} {encBool s.opArg} {encBool s.dgWait} {encBool s.dg1} {encSel s.sel0} {encSel s.sel1} {encBool s.searching} {encBool s.quoted} {encOB s.recording} {encBool s.emacsRec} {encOB s.arg} {encBool s.done} {encKeys s.keyBuf}"

def decKeys : List String → Option (List KeyP)
  | [] => some []
  | k :: d :: rest => do pure (⟨← decNat k, ← decNat d⟩ :: (← decKeys rest))
  | _ => none

def decSk (toks : List String) : Option Sk :=
  match toks with
  | vi :: ro :: m :: tn :: op :: oa :: dw :: d1 :: s0 :: s1 :: se :: q :: rc :: er :: ar :: dn :: _n :: keys => do
    pure { vi := (← decBool vi), ro := (← decBool ro), mode := (← decMode m), tempNav := (← decBool tn),
           op := (← decOB op), opArg := (← decBool oa), dgWait := (← decBool dw), dg1 := (← decBool d1),
           sel0 := (← decSel s0), sel1 := (← decSel s1), searching := (← decBool se), quoted := (← decBool q),
           recording := (← decOB rc), emacsRec := (← decBool er), arg := (← decOB ar), done := (← decBool dn),
           keyBuf := (← decKeys keys), queue := [] }
  | _ => none

def decBits (tok : String) : List Bool := tok.toList.map (· == '1')

def decHd (tok : String) : HData :=
  match decBits tok with
  | [a, b, c, d, e, f, g, h] =>
    { tc0 := a, tc1 := b, roRaised := c, anchorWritten := d, done := e, moved := f, atAnchor := g, textEmpty := h }
  | _ => HData.none

def decCalls : List String → List HData × List Env
  | hd :: env :: rest => let (a, b) := decCalls rest; (decHd hd :: a, decBits env :: b)
  | _ => ([], [])

def encAtoms (s : Sk) : String :=
  String.ofList (tbl.atoms.map fun a => match a with | .env => '-' | a => if evalAtomSk s a then '1' else '0')

def encIds (l : List Nat) : String := ",".intercalate (l.map toString)

end SkD

def stepLine (d : D) (toks : List String) : D × String :=
  match toks with
  | "init" :: k :: rest =>
    match parseInit rest with
    | some b =>
      if k == "0" then ({ d with app := { d.app with buf := b } }, encBuf b)
      else ({ d with b1 := b }, encBuf b)
    | none => (d, "bad-op")
  | "op" :: k :: rest =>
    let b := if k == "0" then d.app.buf else d.b1
    match applyBuf b rest with
    | some (b', o) =>
      let d' := if k == "0" then { d with app := { d.app with buf := b' } } else { d with b1 := b' }
      (d', s!"{encOutcome o} {encBuf b'}")
    | none => (d, "bad-op")
  | ["sync", k] => (d, encBuf (if k == "0" then d.app.buf else d.b1))
  | ["app", vm, m, op, oa, w, s, tn, ar] =>
    match decBool vm, decMode m, decBool op, decOptInt oa, decBool w, decOptStr s, decBool tn, decOptStr ar with
    | some vm, some m, some op, some oa, some w, some s, some tn, some ar =>
      let a := { d.app with viMode := vm, arg := ar,
                            vi := { vi0 with mode := m, opPending := op, opArg := oa, waitingDigraph := w,
                                             digraph1 := s, tempNav := tn } }
      ({ d with app := a }, encVi a)
    | _, _, _, _, _, _, _, _ => (d, "bad-op")
  | "hop" :: rest =>
    match parseHOp rest with
    | some h =>
      let (a, o) := hstep d.app h
      ({ d with app := a }, s!"{encOutcome o} {encBuf a.buf} | {encVi a}")
    | none => (d, "bad-op")
  | ["hbegin", s] =>
    match decBool s with
    | some s => ({ d with prog := [], save := s }, "-")
    | none => (d, "bad-op")
  | "h" :: rest =>
    match parseHOp rest with
    | some h => ({ d with prog := d.prog ++ [h] }, "-")
    | none => (d, "bad-op")
  | ["hend"] =>
    let (a, o) := callHandler (fun a => hrun a d.prog) d.save d.app
    ({ d with app := a, prog := [] }, s!"{encOutcome o} {encBuf a.buf} | {encVi a}")
  | ["accept", v] =>
    match decOptInt v with
    | some v =>
      let (b, r) := validateAndHandle (fun _ _ => v) d.app.buf
      ({ d with app := { d.app with buf := b } }, s!"{encOptStr r} {encBuf b}")
    | none => (d, "bad-op")
  | "init2" :: rest =>
    match ApiD.parseInit2 rest with
    | some b => ({ d with app := { d.app with buf := b } }, ApiD.encBuf2 b)
    | none => (d, "bad-op")
  | "op2" :: rest =>
    match ApiD.parseOp2 rest with
    | some op =>
      let (b', o) := step2 ApiD.cls d.app.buf op
      ({ d with app := { d.app with buf := b' } }, s!"{encOutcome o} {ApiD.encBuf2 b'}")
    | none => (d, "bad-op")
  | ["qw", t] =>
    match decStr t with
    | some t => (d, encList encStr (quotedWords ApiD.cls t))
    | none => (d, "bad-op")
  | "tl" :: pre :: idxs =>
    match decStr pre, decInts idxs with
    | some pre, some idxs => (d, encStr (transformLines d.app.buf idxs (pre ++ ·)))
    | _, _ => (d, "bad-op")
  | ["skhello"] =>
    (d, s!"{Gen.C05.tableHash} {SkD.tbl.bindings.length} {SkD.tbl.atoms.length} {SkD.tbl.classes.length} {Gen.C05.anyKey} {Gen.C05.enterKey}")
  | "skset" :: rest =>
    match SkD.decSk rest with
    | some s => ({ d with sk := s }, SkD.encSk s)
    | none => (d, "bad-op")
  | "skkey" :: k :: dc :: fl :: env0 :: _n :: rest =>
    match decNat k, decNat dc, decBool fl with
    | some k, some dc, some fl =>
      let (hds, envs) := SkD.decCalls rest
      let ki : Skel.KeyIn := { key := ⟨k, dc⟩, flush := fl, envs := SkD.decBits env0 :: envs, hds := hds }
      let r := Skel.feed SkD.tbl d.sk ki
      ({ d with sk := r.s }, s!"{SkD.encSk r.s} h={SkD.encIds r.calls} a={SkD.encAtoms r.s}")
    | _, _, _ => (d, "bad-op")
  | _ => (d, "bad-op")

def main : IO Unit :=
  runS stepLine { app := { buf := emptyBuf, vi := vi0, viMode := true, arg := none }, b1 := emptyBuf,
                  prog := [], save := false, sk := Skel.Sk.init true false }
