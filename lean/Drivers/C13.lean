import Ptk.Proto
import Ptk.Model.C13
import Ptk.Gen.C13
open Ptk Ptk.Py Ptk.Proto Ptk.C13

/-- bytes: `b:` + comma separated decimals -/
def decBytes (tok : String) : Option Bytes :=
  if !tok.startsWith "b:" then none else
  let body := (tok.drop 2).toString
  if body.isEmpty then some [] else
  (body.splitOn ",").mapM fun p => p.toNat?

def encBytes (b : Bytes) : String :=
  "b:" ++ ",".intercalate (b.map toString)

def encStrs (l : List Text) : String := encList encStr l

def decStrs : List String → Option (List Text × List String)
  | [] => none
  | n :: rest => do
    let n ← decNat n
    if rest.length < n then none
    let l ← (rest.take n).mapM decStr
    pure (l, rest.drop n)

def cpcCode : CPc → String
  | .idle => "-" | .waiting => "wait" | .reading => "read" | .yielding => "yield" | .done => "done"

structure DrvSt where
  fs : FS
  th : TH
  tn : THn

def npcCode : NPc → String
  | .notStarted => "-" | .started => "start" | .called => "called" | .iter => "iter"
  | .notify => "notify" | .looping => "loop" | .notifyFinal => "notifyFinal"
  | .loopingFinal => "loopFinal" | .finished => "fin"

def consLine (c : Cons) : String :=
  let ev := if c.cpc = .waiting ∨ c.cpc = .reading ∨ c.cpc = .yielding then encBool c.ev else "N"
  s!"{cpcCode c.cpc} {ev} {encStrs c.out}"

def tnLine (t : THn) : String :=
  s!"L={npcCode t.lpc} loaded={encBool t.loaded} strs={encStrs t.strs} events={encList toString t.events} | {consLine (t.cons 0)} | {consLine (t.cons 1)} | {consLine (t.cons 2)}"

def parseStepN : List String → Option StepN
  | ["nc", i, "start"] => do pure (.cstart (← decNat i))
  | ["nc", i, "wait"] => do pure (.cwait (← decNat i))
  | ["nc", i, "read"] => do pure (.cread (← decNat i))
  | ["nc", i, "yield"] => do pure (.cyield (← decNat i))
  | ["nl", "reset"] => some .lreset | ["nl", "snap"] => some .lsnap
  | ["nl", "append"] => some .lappend | ["nl", "notify"] => some .lnotify
  | ["nl", "set"] => some .lset | ["nl", "done"] => some .ldone | ["nl", "final"] => some .lfinal
  | _ => none

def lpcCode : LPc → String
  | .notStarted => "-" | .started => "start" | .called => "called" | .iter => "iter"
  | .notify => "notify" | .notifyFinal => "notifyFinal" | .finished => "fin"

def thLine (t : TH) : String :=
  let ev := if t.cpc = .waiting ∨ t.cpc = .reading ∨ t.cpc = .yielding then encBool t.ev else "N"
  let pend := match t.pend with | some s => encStr s | none => "N"
  s!"L={lpcCode t.lpc} C={cpcCode t.cpc} ev={ev} loaded={encBool t.loaded} pend={pend} strs={encStrs t.strs} out={encStrs t.out} store={encStrs t.storage}"

def parseStep : List String → Option Step
  | ["cstart"] => some .cstart | ["cwait"] => some .cwait | ["cread"] => some .cread
  | ["cyield"] => some .cyield
  | ["lreset"] => some .lreset | ["lsnap"] => some .lsnap | ["lappend"] => some .lappend
  | ["lnotify"] => some .lnotify | ["ldone"] => some .ldone | ["lfinal"] => some .lfinal
  | ["ains", s] => do pure (.ains (← decStr s))
  | ["astore"] => some .astore
  | _ => none

def stepLine (d : DrvSt) (toks : List String) : DrvSt × String :=
  match toks with
  -- stateless codec / format functions
  | ["enc", s] =>
    match decStr s with
    | some s => (d, encBytes (utf8.encText s))
    | none => (d, "bad-op")
  | ["dec", b] =>
    match decBytes b with
    | some b => (d, encStr (utf8.dec b))
    | none => (d, "bad-op")
  | ["record", ts, s] =>
    match decStr ts, decStr s with
    | some ts, some s => (d, encBytes (record utf8 ts s))
    | _, _ => (d, "bad-op")
  | ["loadraw", b] =>
    match decBytes b with
    | some b => (d, encStrs (loadFile utf8 b))
    | none => (d, "bad-op")
  -- file + instances
  | ["fnew"] => ({ d with fs := FS.empty }, "ok")
  | ["fraw", b] =>
    match decBytes b with
    | some b => ({ d with fs := { d.fs with file := b } }, "ok")
    | none => (d, "bad-op")
  | ["app", i, ts, s] =>
    match decNat i, decStr ts, decStr s with
    | some i, some ts, some s =>
      let fs := d.fs.append utf8 i ts s
      ({ d with fs := fs }, encBytes fs.file)
    | _, _, _ => (d, "bad-op")
  | ["load", i] =>
    match decNat i with
    | some i =>
      let (fs, l) := d.fs.load utf8 i
      ({ d with fs := fs }, encStrs l)
    | none => (d, "bad-op")
  | ["get", i] =>
    match decNat i with
    | some i => (d, encStrs (d.fs.getStrings i))
    | none => (d, "bad-op")
  | ["fresh"] => (d, encStrs (loadFile utf8 d.fs.file))
  | ["trunc", k] =>
    match decNat k with
    | some k => (d, encStrs (loadFile utf8 (d.fs.file.take k)))
    | none => (d, "bad-op")
  | ["truncall"] =>
    -- every truncation point at once: `load(file[:k])` for k = 0..len
    (d, " | ".intercalate ((List.range (d.fs.file.length + 1)).map fun k =>
          encStrs (loadFile utf8 (d.fs.file.take k))))
  | ["cut", k] =>
    match decNat k with
    | some k =>
      let fs := d.fs.cut k
      ({ d with fs := fs }, encBytes fs.file)
    | none => (d, "bad-op")
  | ["cutb", j] =>
    match decNat j with
    | some j =>
      let fs := d.fs.cut (d.fs.file.length - j)
      ({ d with fs := fs }, encBytes fs.file)
    | none => (d, "bad-op")
  -- threaded history
  | "tnew" :: rest =>
    match decStrs rest with
    | some (old, rest) =>
      match decStrs rest with
      | some (pre, []) =>
        let t := TH.init old pre
        ({ d with th := t }, thLine t)
      | _ => (d, "bad-op")
    | none => (d, "bad-op")
  | "nnew" :: rest =>
    match decStrs rest with
    | some (old, rest) =>
      match decStrs rest with
      | some (pre, []) =>
        let t := THn.init old pre
        ({ d with tn := t }, tnLine t)
      | _ => (d, "bad-op")
    | none => (d, "bad-op")
  | _ =>
    match parseStep toks with
    | some s =>
      let t := step d.th s
      ({ d with th := t }, thLine t)
    | none =>
      match parseStepN toks with
      | some s =>
        let t := stepN Gen.C13.notifyCopies d.tn s
        ({ d with tn := t }, tnLine t)
      | none => (d, "bad-op")

def main : IO Unit := runS stepLine { fs := FS.empty, th := TH.init [] [], tn := THn.init [] [] }
