import Ptk.Proto
-- stub: the C13 model driver has not been written yet
def main : IO Unit := Ptk.Proto.run fun _ => "bad-op"
