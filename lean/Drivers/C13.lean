import Ptk.Proto
import Ptk.Model.C13
import Ptk.Model.C13Fixed
import Ptk.Model.C13Mem
import Ptk.Gen.C13
open Ptk Ptk.Py Ptk.Proto Ptk.C13

/-- bytes: `b:` + comma separated decimals -/
def decBytes (tok : String) : Option Bytes :=
  if !tok.startsWith "b:" then none else
  let body := (tok.drop 2).toString
  if body.isEmpty then some [] else
  (body.splitOn ",").mapM fun p => p.toNat?

def encBytes (b : Bytes) : String :=
  "b:" ++ ",".intercalate (b.map toString)

def encStrs (l : List Text) : String := encList encStr l

def decStrs : List String → Option (List Text × List String)
  | [] => none
  | n :: rest => do
    let n ← decNat n
    if rest.length < n then none
    let l ← (rest.take n).mapM decStr
    pure (l, rest.drop n)

def cpcCode : CPc → String
  | .idle => "-" | .waiting => "wait" | .reading => "read" | .yielding => "yield" | .done => "done"

structure DrvSt where
  fs : FS
  th : TH
  tn : THn
  tx : THF
  hm : Hist
  tm : THm

def npcCode : NPc → String
  | .notStarted => "-" | .started => "start" | .called => "called" | .iter => "iter"
  | .notify => "notify" | .looping => "loop" | .notifyFinal => "notifyFinal"
  | .loopingFinal => "loopFinal" | .finished => "fin"

def consLine (c : Cons) : String :=
  let ev := if c.cpc = .waiting ∨ c.cpc = .reading ∨ c.cpc = .yielding then encBool c.ev else "N"
  s!"{cpcCode c.cpc} {ev} {encStrs c.out}"

def tnLine (t : THn) : String :=
  s!"L={npcCode t.lpc} loaded={encBool t.loaded} strs={encStrs t.strs} events={encList toString t.events} | {consLine (t.cons 0)} | {consLine (t.cons 1)} | {consLine (t.cons 2)}"

def parseStepN : List String → Option StepN
  | ["nc", i, "start"] => do pure (.cstart (← decNat i))
  | ["nc", i, "wait"] => do pure (.cwait (← decNat i))
  | ["nc", i, "read"] => do pure (.cread (← decNat i))
  | ["nc", i, "yield"] => do pure (.cyield (← decNat i))
  | ["nl", "reset"] => some .lreset | ["nl", "snap"] => some .lsnap
  | ["nl", "append"] => some .lappend | ["nl", "notify"] => some .lnotify
  | ["nl", "set"] => some .lset | ["nl", "done"] => some .ldone | ["nl", "final"] => some .lfinal
  | _ => none

def lpcCode : LPc → String
  | .notStarted => "-" | .started => "start" | .called => "called" | .iter => "iter"
  | .notify => "notify" | .notifyFinal => "notifyFinal" | .finished => "fin"

def thLine (t : TH) : String :=
  let ev := if t.cpc = .waiting ∨ t.cpc = .reading ∨ t.cpc = .yielding then encBool t.ev else "N"
  let pend := match t.pend with | some s => encStr s | none => "N"
  s!"L={lpcCode t.lpc} C={cpcCode t.cpc} ev={ev} loaded={encBool t.loaded} pend={pend} strs={encStrs t.strs} out={encStrs t.out} store={encStrs t.storage}"

def thxLine (t : THF) : String :=
  let act := t.cpc = .waiting ∨ t.cpc = .reading ∨ t.cpc = .yielding
  let ev := if act then encBool t.ev else "N"
  let nev := if act then "1" else "0"
  s!"L={lpcCode t.lpc} C={cpcCode t.cpc} ev={ev} loaded={encBool t.loaded} ins={t.inserted} nev={nev} strs={encStrs t.strs} out={encStrs t.out} store={encStrs t.storage}"

def parseStepF : List String → Option StepF
  | ["x", "cstart"] => some .cstart | ["x", "cwait"] => some .cwait | ["x", "cread"] => some .cread
  | ["x", "cyield"] => some .cyield | ["x", "ccancel"] => some .ccancel
  | ["x", "lcall"] => some .lcall | ["x", "lreset"] => some .lreset | ["x", "lappend"] => some .lappend
  | ["x", "lnotify"] => some .lnotify | ["x", "ldone"] => some .ldone | ["x", "lfinal"] => some .lfinal
  | ["x", "lfail"] => some .lfail
  | ["x", "app", s] => do pure (.app (← decStr s))
  | _ => none

def consMLine (c : ConsM) : String :=
  let ev := if c.cpc = .waiting ∨ c.cpc = .reading ∨ c.cpc = .yielding then encBool c.ev else "N"
  s!"{cpcCode c.cpc} {ev} {encStrs c.out}"

def tmLine (t : THm) : String :=
  s!"L={npcCode t.lpc} loaded={encBool t.loaded} ins={t.inserted} strs={encStrs t.strs} events={encList toString t.events} store={encStrs t.storage} | {consMLine (t.cons 0)} | {consMLine (t.cons 1)} | {consMLine (t.cons 2)}"

def parseStepM : List String → Option StepM
  | ["m", "c", i, "start"] => do pure (.cstart (← decNat i))
  | ["m", "c", i, "wait"] => do pure (.cwait (← decNat i))
  | ["m", "c", i, "read"] => do pure (.cread (← decNat i))
  | ["m", "c", i, "yield"] => do pure (.cyield (← decNat i))
  | ["m", "c", i, "cancel"] => do pure (.ccancel (← decNat i))
  | ["m", "l", "call"] => some .lcall | ["m", "l", "reset"] => some .lreset | ["m", "l", "append"] => some .lappend
  | ["m", "l", "notify"] => some .lnotify | ["m", "l", "set"] => some .lset
  | ["m", "l", "done"] => some .ldone | ["m", "l", "final"] => some .lfinal
  | ["m", "l", "fail"] => some .lfail
  | ["m", "app", s] => do pure (.app (← decStr s))
  | _ => none

def gpcCode : GPc → String
  | .none => "none" | .fresh => "fresh" | .iter => "iter"

def histLine (h : Hist) : String :=
  s!"loaded={encBool h.loaded} strs={encStrs h.strs} g={gpcCode h.gpc} out={encStrs h.out}"

/-- `n` entries `(ts, s)` -/
def decEntries : Nat → List String → Option (List (Text × Text) × List String)
  | 0, rest => some ([], rest)
  | n + 1, ts :: s :: rest => do
    let ts ← decStr ts
    let s ← decStr s
    let (es, rest) ← decEntries n rest
    pure ((ts, s) :: es, rest)
  | _, _ => none

def decProcs : Nat → List String → Option (List (List (Text × Text)) × List String)
  | 0, rest => some ([], rest)
  | n + 1, k :: rest => do
    let k ← decNat k
    let (es, rest) ← decEntries k rest
    let (ps, rest) ← decProcs n rest
    pure (es :: ps, rest)
  | _, _ => none

def parseStep : List String → Option Step
  | ["cstart"] => some .cstart | ["cwait"] => some .cwait | ["cread"] => some .cread
  | ["cyield"] => some .cyield
  | ["lreset"] => some .lreset | ["lsnap"] => some .lsnap | ["lappend"] => some .lappend
  | ["lnotify"] => some .lnotify | ["ldone"] => some .ldone | ["lfinal"] => some .lfinal
  | ["ains", s] => do pure (.ains (← decStr s))
  | ["astore"] => some .astore
  | _ => none

def stepLine (d : DrvSt) (toks : List String) : DrvSt × String :=
  match toks with
  -- stateless codec / format functions
  | ["enc", s] =>
    match decStr s with
    | some s => (d, encBytes (utf8.encText s))
    | none => (d, "bad-op")
  | ["dec", b] =>
    match decBytes b with
    | some b => (d, encStr (utf8.dec b))
    | none => (d, "bad-op")
  | ["record", ts, s] =>
    match decStr ts, decStr s with
    | some ts, some s => (d, encBytes (record utf8 ts s))
    | _, _ => (d, "bad-op")
  | ["loadraw", b] =>
    match decBytes b with
    | some b => (d, encStrs (loadFile utf8 b))
    | none => (d, "bad-op")
  -- file + instances
  | ["fnew"] => ({ d with fs := FS.empty }, "ok")
  | ["fraw", b] =>
    match decBytes b with
    | some b => ({ d with fs := { d.fs with file := b } }, "ok")
    | none => (d, "bad-op")
  | ["app", i, ts, s] =>
    match decNat i, decStr ts, decStr s with
    | some i, some ts, some s =>
      let fs := d.fs.append utf8 i ts s
      ({ d with fs := fs }, encBytes fs.file)
    | _, _, _ => (d, "bad-op")
  | ["load", i] =>
    match decNat i with
    | some i =>
      let (fs, l) := d.fs.load utf8 i
      ({ d with fs := fs }, encStrs l)
    | none => (d, "bad-op")
  | ["get", i] =>
    match decNat i with
    | some i => (d, encStrs (d.fs.getStrings i))
    | none => (d, "bad-op")
  | ["fresh"] => (d, encStrs (loadFile utf8 d.fs.file))
  | ["tapp", _i, ts, s] =>
    match decStr ts, decStr s with
    | some ts, some s =>
      let fs := d.fs.wrapAppend utf8 ts s
      ({ d with fs := fs }, encBytes fs.file)
    | _, _ => (d, "bad-op")
  | ["tload", i] =>
    match decNat i with
    | some i =>
      let (fs, l) := d.fs.wrapLoad utf8 i
      ({ d with fs := fs }, encStrs l)
    | none => (d, "bad-op")
  | ["trunc", k] =>
    match decNat k with
    | some k => (d, encStrs (loadFile utf8 (d.fs.file.take k)))
    | none => (d, "bad-op")
  | ["truncall"] =>
    -- every truncation point at once: `load(file[:k])` for k = 0..len
    (d, " | ".intercalate ((List.range (d.fs.file.length + 1)).map fun k =>
          encStrs (loadFile utf8 (d.fs.file.take k))))
  | ["cut", k] =>
    match decNat k with
    | some k =>
      let fs := d.fs.cut k
      ({ d with fs := fs }, encBytes fs.file)
    | none => (d, "bad-op")
  | ["cutb", j] =>
    match decNat j with
    | some j =>
      let fs := d.fs.cut (d.fs.file.length - j)
      ({ d with fs := fs }, encBytes fs.file)
    | none => (d, "bad-op")
  -- threaded history
  | "tnew" :: rest =>
    match decStrs rest with
    | some (old, rest) =>
      match decStrs rest with
      | some (pre, []) =>
        let t := TH.init old pre
        ({ d with th := t }, thLine t)
      | _ => (d, "bad-op")
    | none => (d, "bad-op")
  | "hnew" :: "mem" :: rest =>
    match decStrs rest with
    | some (init, []) => let h := Hist.mem init; ({ d with hm := h }, histLine h)
    | _ => (d, "bad-op")
  | ["hnew", "dummy"] => let h := Hist.dummy; ({ d with hm := h }, histLine h)
  | ["h", "app", s] =>
    match decStr s with
    | some s => let h := d.hm.apply Gen.C13.inlineCopies (.append s); ({ d with hm := h }, histLine h)
    | none => (d, "bad-op")
  | ["h", "load"] =>
    let (h, l) := d.hm.load
    ({ d with hm := h }, encStrs l)
  | ["h", "get"] => (d, encStrs d.hm.getStrings)
  | ["h", "gnew"] => let h := d.hm.apply Gen.C13.inlineCopies .gnew; ({ d with hm := h }, histLine h)
  | ["h", "gnext"] => let h := d.hm.apply Gen.C13.inlineCopies .gnext; ({ d with hm := h }, histLine h)
  | ["frawapp", b] =>
    match decBytes b with
    | some b =>
      let fs := { d.fs with file := d.fs.file ++ b }
      ({ d with fs := fs }, encBytes fs.file)
    | none => (d, "bad-op")
  | "mw" :: n :: rest =>
    -- several processes, their `write()` calls in the given order
    match decNat n with
    | some n =>
      match decProcs n rest with
      | some (procs, [order]) =>
        match decBytes order with
        | some order =>
          let file := interleaveWrites (procs.map (procWrites (Gen.C13.storeWrites == 1) utf8)) order
          (d, encBytes file ++ " | " ++ encStrs (loadFile utf8 file))
        | none => (d, "bad-op")
      | _ => (d, "bad-op")
    | none => (d, "bad-op")
  | "xnew" :: rest =>
    match decStrs rest with
    | some (old, rest) =>
      match decStrs rest with
      | some (pre, []) =>
        let t := THF.init old pre
        ({ d with tx := t }, thxLine t)
      | _ => (d, "bad-op")
    | none => (d, "bad-op")
  | "xnewc" :: eager :: rest =>
    -- kind of inner history from the case, position of the call from the tree (generated flag)
    match decStrs rest with
    | some (old, rest) =>
      match decStrs rest with
      | some (pre, []) =>
        let t := THF.init old pre (eager == "1") Gen.C13.callHoisted
        ({ d with tx := t }, thxLine t)
      | _ => (d, "bad-op")
    | none => (d, "bad-op")
  | "mnewc" :: eager :: rest =>
    match decStrs rest with
    | some (old, rest) =>
      match decStrs rest with
      | some (pre, []) =>
        let t := THm.init old pre (eager == "1") Gen.C13.callHoisted
        ({ d with tm := t }, tmLine t)
      | _ => (d, "bad-op")
    | none => (d, "bad-op")
  | ["x", "nop"] => (d, thxLine d.tx)
  | "mnew" :: rest =>
    match decStrs rest with
    | some (old, rest) =>
      match decStrs rest with
      | some (pre, []) =>
        let t := THm.init old pre
        ({ d with tm := t }, tmLine t)
      | _ => (d, "bad-op")
    | none => (d, "bad-op")
  | ["m", "nop"] => (d, tmLine d.tm)
  | ["nl", "resetsnap"] =>
    -- the repaired code: list reset and snapshot are one locked block = two model steps at once
    let t := stepN Gen.C13.notifyCopies (stepN Gen.C13.notifyCopies d.tn .lreset) .lsnap
    ({ d with tn := t }, tnLine t)
  | ["nl", "nop"] => (d, tnLine d.tn)
  | "nnew" :: rest =>
    match decStrs rest with
    | some (old, rest) =>
      match decStrs rest with
      | some (pre, []) =>
        let t := THn.init old pre
        ({ d with tn := t }, tnLine t)
      | _ => (d, "bad-op")
    | none => (d, "bad-op")
  | _ =>
    match parseStep toks with
    | some s =>
      let t := step d.th s
      ({ d with th := t }, thLine t)
    | none =>
      match parseStepN toks with
      | some s =>
        let t := stepN Gen.C13.notifyCopies d.tn s
        ({ d with tn := t }, tnLine t)
      | none =>
        match parseStepF toks with
        | some s =>
          let t := stepF d.tx s
          ({ d with tx := t }, thxLine t)
        | none =>
          match parseStepM toks with
          | some s =>
            let t := stepM d.tm s
            ({ d with tm := t }, tmLine t)
          | none => (d, "bad-op")

def main : IO Unit := runS stepLine { fs := FS.empty, th := TH.init [] [], tn := THn.init [] [], tx := THF.init [] [], hm := Hist.dummy, tm := THm.init [] [] }
