import Ptk.Proto
import Ptk.Model.C03
open Ptk Ptk.Py Ptk.Proto Ptk.C03

def cfg : Cfg := genCfg

def encKey (k : String) : String := encStr k.toList

/-- `<n> key data key data … | inPaste paste prefix` ; the callback buffer is emptied after
    every op, like `Vt100Input._buffer`. -/
def reply (s : St) : St × String :=
  let (s', out) := takeOut s
  let ks := out.foldl (fun acc p => acc ++ " " ++ encKey p.key ++ " " ++ encStr p.data) ""
  (s', s!"{out.length}{ks} | {encBool s.inPaste} {encStr s.paste} {encStr s.pre}")

def pred (f : Text → Bool) (tok : String) : String :=
  match decStr tok with
  | some t => encBool (f t)
  | none => "bad-op"

def stepLine (s : St) (toks : List String) : St × String :=
  match toks with
  | ["reset"] => (St.init, "ok")
  | ["feed", d] =>
    match decStr d with
    | some d => reply (feed cfg s d)
    | none => (s, "bad-op")
  | ["flush"] => reply (flush cfg s)
  | ["cpr", t] => (s, pred (isCpr cfg.isDigit) t)
  | ["mouse", t] => (s, pred (isMouse cfg.isDigit) t)
  | ["cprp", t] => (s, pred (isCprPrefix cfg.isDigit) t)
  | ["mousep", t] => (s, pred (isMousePrefix cfg.isDigit) t)
  | ["pfx", t] => (s, pred (isPrefixOfLonger cfg) t)
  | ["match", t] =>
    match decStr t with
    | some t => (s, encList encKey (getMatch cfg t))
    | none => (s, "bad-op")
  | _ => (s, "bad-op")

def main : IO Unit := runS stepLine St.init
