import Ptk.Proto
import Ptk.Model.C03
import Ptk.Model.C03Utf8
open Ptk Ptk.Py Ptk.Proto Ptk.C03 Ptk.C03.Utf8

def cfg : Cfg := genCfg

/-- driver state: a bare parser (ops feed/flush), a reader+parser (ops read/bflush), a bare
    decoder buffer (op dec) -/
structure DSt where
  p : St
  inp : InSt
  dec : Bytes

def DSt.init : DSt := { p := St.init, inp := InSt.init, dec := [] }

def encKey (k : String) : String := encStr k.toList
def encNats (l : List Nat) : String := "s:" ++ ",".intercalate (l.map toString)
def decBytes (tok : String) : Option Bytes := (decStr tok).map (·.map Char.toNat)

/-- `<n> key data key data … | inPaste paste prefix` ; the callback buffer is emptied after
    every op, like `Vt100Input._buffer`. -/
def reply (s : St) : St × String :=
  let (s', out) := takeOut s
  let ks := out.foldl (fun acc p => acc ++ " " ++ encKey p.key ++ " " ++ encStr p.data) ""
  (s', s!"{out.length}{ks} | {encBool s.inPaste} {encStr s.paste} {encStr s.pre}")

def pred (f : Text → Bool) (tok : String) : String :=
  match decStr tok with
  | some t => encBool (f t)
  | none => "bad-op"

def stepLine (s : DSt) (toks : List String) : DSt × String :=
  match toks with
  | ["reset"] => (DSt.init, "ok")
  | ["feed", d] =>
    match decStr d with
    | some d => let (p, r) := reply (feed cfg s.p d); ({ s with p := p }, r)
    | none => (s, "bad-op")
  | ["flush"] => let (p, r) := reply (flush cfg s.p); ({ s with p := p }, r)
  | ["dec", b] =>
    match decBytes b with
    | some b => let (cps, buf) := decode s.dec b; ({ s with dec := buf }, s!"{encNats cps} {encNats buf}")
    | none => (s, "bad-op")
  | ["read", b] =>
    match decBytes b with
    | some b =>
      let st := readKeys cfg s.inp b
      let (p, r) := reply st.p
      ({ s with inp := { st with p := p } }, s!"{r} {encNats st.dec}")
    | none => (s, "bad-op")
  | ["bflush"] =>
    let st := flushKeys cfg s.inp
    let (p, r) := reply st.p
    ({ s with inp := { st with p := p } }, s!"{r} {encNats st.dec}")
  | ["cpr", t] => (s, pred (isCpr cfg.isDigit) t)
  | ["mouse", t] => (s, pred (isMouse cfg.isDigit) t)
  | ["cprp", t] => (s, pred (isCprPrefix cfg.isDigit) t)
  | ["mousep", t] => (s, pred (isMousePrefix cfg.isDigit) t)
  | ["pfx", t] => (s, pred (isPrefixOfLonger cfg) t)
  | ["match", t] =>
    match decStr t with
    | some t => (s, encList encKey (getMatch cfg t))
    | none => (s, "bad-op")
  | _ => (s, "bad-op")

def main : IO Unit := runS stepLine DSt.init
