import Ptk.Proto
import Ptk.Model.C03
import Ptk.Model.C03Utf8
import Ptk.Model.C03Spec
import Ptk.Model.C03Read
open Ptk Ptk.Py Ptk.Proto Ptk.C03 Ptk.C03.Utf8

def cfg : Cfg := genCfg

def encKey (k : String) : String := encStr k.toList
def decKey (tok : String) : Option String := (decStr tok).map String.ofList
def encNats (l : List Nat) : String := "s:" ++ ",".intercalate (l.map toString)
def decBytes (tok : String) : Option Bytes := (decStr tok).map (·.map Char.toNat)

/-- driver state: a bare parser (ops feed/flush), a reader+parser (ops read/bflush), a bare
    decoder buffer (op dec) -/
structure DSt where
  p : St
  inp : InSt
  dec : Bytes
  /-- a file descriptor with a `Vt100Input` (ops fdw/fdcw/fdcr/rk/fk) or a bare
      `PosixStdinReader` (op rr) on it -/
  fd : Fd
  ip : Inp
  rd : Reader
  /-- the typeahead store (ops tas/tag/tac) -/
  ta : TA
  /-- a fresh `_IsPrefixOfLongerMatchCache` (op pfxc) -/
  pc : PCache

def DSt.init : DSt :=
  { p := St.init, inp := InSt.init, dec := [], fd := Fd.init, ip := Inp.init, rd := Reader.init,
    ta := [], pc := [] }

def encPresses (out : List Press) : String :=
  out.foldl (fun acc p => acc ++ " " ++ encKey p.key ++ " " ++ encStr p.data) (toString out.length)

/-- one press per character, like `KeyPress(c, c)` -/
def charPresses (t : Text) : List Press := t.map fun c => ⟨String.singleton c, [c]⟩


/-- `<n> key data key data … | inPaste paste prefix` ; the callback buffer is emptied after
    every op, like `Vt100Input._buffer`. -/
def reply (s : St) : St × String :=
  let (s', out) := takeOut s
  let ks := out.foldl (fun acc p => acc ++ " " ++ encKey p.key ++ " " ++ encStr p.data) ""
  (s', s!"{out.length}{ks} | {encBool s.inPaste} {encStr s.paste} {encStr s.pre}")

def pred (f : Text → Bool) (tok : String) : String :=
  match decStr tok with
  | some t => encBool (f t)
  | none => "bad-op"

def stepLine (s : DSt) (toks : List String) : DSt × String :=
  match toks with
  | ["reset"] => (DSt.init, "ok")
  | ["feed", d] =>
    match decStr d with
    | some d => let (p, r) := reply (feed cfg s.p d); ({ s with p := p }, r)
    | none => (s, "bad-op")
  | ["flush"] => let (p, r) := reply (flush cfg s.p); ({ s with p := p }, r)
  | ["dec", b] =>
    match decBytes b with
    | some b => let (cps, buf) := decode s.dec b; ({ s with dec := buf }, s!"{encNats cps} {encNats buf}")
    | none => (s, "bad-op")
  | ["read", b] =>
    match decBytes b with
    | some b =>
      let st := readKeys cfg s.inp b
      let (p, r) := reply st.p
      ({ s with inp := { st with p := p } }, s!"{r} {encNats st.dec}")
    | none => (s, "bad-op")
  | ["bflush"] =>
    let st := flushKeys cfg s.inp
    let (p, r) := reply st.p
    ({ s with inp := { st with p := p } }, s!"{r} {encNats st.dec}")
  | ["inew", e] =>
    -- `Vt100Input(stdin)` with `stdin.encoding == e`
    match (decKey e).bind Inp.ofEncoding with
    | some ip => ({ s with ip := ip }, "ok")
    | none => (s, "err:LookupError")
  | ["rnew", e] =>
    -- `PosixStdinReader(fd, encoding=e)`
    match (decKey e).bind codecOf with
    | some c => ({ s with rd := Reader.new c }, "ok")
    | none => (s, "err:LookupError")
  | ["fdw", b] =>
    match decBytes b with
    | some b => ({ s with fd := s.fd.write b }, "ok")
    | none => (s, "bad-op")
  | ["fdcw"] => ({ s with fd := s.fd.closeWrite }, "ok")
  | ["fdcr"] => ({ s with fd := s.fd.closeRead }, "ok")
  | ["rk"] =>
    let (st, fd) := s.ip.readKeys cfg Gen.C03.readCount s.fd
    let (p, r) := reply st.p
    ({ s with ip := { st with p := p }, fd := fd }, s!"{r} {encNats st.rd.dec} {encBool st.closed}")
  | ["fk"] =>
    let st := s.ip.flushKeys cfg
    let (p, r) := reply st.p
    ({ s with ip := { st with p := p } }, s!"{r} {encNats st.rd.dec} {encBool st.closed}")
  | ["rr"] =>
    let (t, rd, fd) := s.rd.read Gen.C03.readCount s.fd
    ({ s with rd := rd, fd := fd }, s!"{encNats t} {encNats rd.dec} {encBool rd.closed}")
  | ["tas", k, d] =>
    match decKey k, decStr d with
    | some k, some d => ({ s with ta := s.ta.store k (charPresses d) }, "ok")
    | _, _ => (s, "bad-op")
  | ["tag", k] =>
    match decKey k with
    | some k => let (r, ta) := s.ta.take k; ({ s with ta := ta }, encPresses r)
    | none => (s, "bad-op")
  | ["tac", k] =>
    match decKey k with
    | some k => ({ s with ta := s.ta.clear k }, "ok")
    | none => (s, "bad-op")
  | ["pfxc", t] =>
    match decStr t with
    | some t =>
      let hit := (s.pc.find? (fun kv => kv.1 == t)).isSome
      let (b, pc) := PCache.lookup cfg s.pc t
      ({ s with pc := pc }, s!"{encBool b} {encBool hit} {pc.length}")
    | none => (s, "bad-op")
  | ["spec", t] =>
    match decStr t with
    | some t => (s, (reply (St.after St.init (spec cfg t))).2)
    | none => (s, "bad-op")
  | "specsegs" :: segs =>
    match segs.mapM decStr with
    | some segs => (s, (reply (specSegs cfg St.init segs)).2)
    | none => (s, "bad-op")
  | ["lm", t] =>
    match decStr t with
    | some t => (s, toString (lm cfg t))
    | none => (s, "bad-op")
  | ["cpr", t] => (s, pred (isCpr cfg.isDigit) t)
  | ["mouse", t] => (s, pred (isMouse cfg.isDigit) t)
  | ["cprp", t] => (s, pred (isCprPrefix cfg.isDigit) t)
  | ["mousep", t] => (s, pred (isMousePrefix cfg.isDigit) t)
  | ["pfx", t] => (s, pred (isPrefixOfLonger cfg) t)
  | ["match", t] =>
    match decStr t with
    | some t => (s, encList encKey (getMatch cfg t))
    | none => (s, "bad-op")
  | _ => (s, "bad-op")

def main : IO Unit := runS stepLine DSt.init
