import Ptk.Proto
import Ptk.Gen.PyChars
import Ptk.Model.C02
import Ptk.Model.C02Spec
open Ptk Ptk.Py Ptk.Proto Ptk.C02

/-
  Line protocol driver for the C02 model.  Every request carries the text (and cursor);
  replies are space separated `key=value` tokens in a fixed order (see harness/c02.py).
  Runtime character classes: `str.isspace` = Gen.isSpace, regex `\s` = Gen.reSpace,
  `re.IGNORECASE` = ASCII case folding (the harness only uses letters whose case
  variants are ASCII when ignore_case is on).
-/

def isSp : Char → Bool := Gen.isSpace
def reSp : Char → Bool := Gen.reSpace

def foldAscii (c : Char) : Char := if 65 ≤ c.toNat && c.toNat ≤ 90 then Char.ofNat (c.toNat + 32) else c
def eqCS (a b : Char) : Bool := a == b
def eqCI (a b : Char) : Bool := foldAscii a == foldAscii b

def kv (k : String) (v : String) : String := k ++ "=" ++ v
def encOI (o : Option Int) : String := encOptInt o
def encOC (o : Option Char) : String := match o with | none => encStr [] | some c => encStr [c]
def encNat (n : Nat) : String := toString n
def encTexts (l : List Text) : String := encList encStr l
def encNats (l : List Nat) : String := encList encNat l
def unwords (l : List String) : String := " ".intercalate l

def bools : List Bool := [false, true]

/-- `K` request: a sequence of cache-level operations run through `cacheRun []` -/
def parseCacheOps : Nat → List String → Option (List CacheOp)
  | _, [] => some []
  | 0, _ => none
  | f + 1, "L" :: t :: rest => do pure (.lines (← decStr t) :: (← parseCacheOps f rest))
  | f + 1, "S" :: t :: rest => do pure (.starts (← decStr t) :: (← parseCacheOps f rest))
  | f + 1, "I" :: t :: i :: rest => do
      pure (.indexToPos (← decStr t) (← decNat i) :: (← parseCacheOps f rest))
  | f + 1, "R" :: t :: r :: c :: rest => do
      pure (.rowColToIndex (← decStr t) (← decInt r) (← decInt c) :: (← parseCacheOps f rest))
  | f + 1, "G" :: t :: rest => do pure (.gc (← decStr t) :: (← parseCacheOps f rest))
  | _, _ => none

def encCacheAns : CacheAns → String
  | .lines ls => "L " ++ encTexts ls
  | .starts idx => "S " ++ encNats idx
  | .pos (r, c) => s!"I {r} {c}"
  | .index i => s!"R {i}"
  | .none => "G"

def handle (toks : List String) : String :=
  match toks with
  | ["T", t] =>
    match decStr t with
    | some t =>
      unwords [kv "lines" (encTexts (lines t)), kv "starts" (encNats (lineStarts t)),
               kv "n" (encNat (lineCount t)), kv "empty_end" (encNat (emptyLineCountAtEnd isSp t))]
    | none => "bad-op"
  | ["I", t, i] =>
    match decStr t, decNat i with
    | some t, some i => let (r, c) := indexToPos t i; s!"{r} {c}"
    | _, _ => "bad-op"
  | ["R", t, r, c] =>
    match decStr t, decInt r, decInt c with
    | some t, some r, some c => encNat (rowColToIndex t r c)
    | _, _, _ => "bad-op"
  | ["V", t, c] =>
    match decStr t, decNat c with
    | some t, some c =>
      let d : Doc := ⟨t, c⟩
      unwords [kv "before" (encStr d.before), kv "after" (encStr d.after),
               kv "lb" (encStr (lineBefore d)), kv "la" (encStr (lineAfter d)),
               kv "cl" (encStr (currentLine d)), kv "row" (encNat (row d)), kv "col" (encNat (col d)),
               kv "cc" (encOC (currentChar d)), kv "cb" (encOC (charBefore d)),
               kv "first" (encBool (onFirstLine d)), kv "last" (encBool (onLastLine d)),
               kv "atend" (encBool (isAtEnd d)), kv "ateol" (encBool (isAtEndOfLine d)),
               kv "lws" (encStr (leadingWs isSp d)), kv "lfc" (encTexts (linesFromCurrent d))]
    | _, _ => "bad-op"
  | ["M", t, c] =>
    match decStr t, decNat c with
    | some t, some c =>
      let d : Doc := ⟨t, c⟩
      unwords [kv "sol0" (encInt (startOfLine isSp d false)), kv "sol1" (encInt (startOfLine isSp d true)),
               kv "eol" (encInt (endOfLine d)), kv "lnb" (encInt (lastNonBlank isSp d)),
               kv "sod" (encInt (startOfDocument d)), kv "eod" (encInt (endOfDocument d))]
    | _, _ => "bad-op"
  | ["COL", t, c, k] =>
    match decStr t, decNat c, decInt k with
    | some t, some c, some k => encInt (columnPos ⟨t, c⟩ k)
    | _, _, _ => "bad-op"
  | ["LR", t, c, n] =>
    match decStr t, decNat c, decInt n with
    | some t, some c, some n =>
      let d : Doc := ⟨t, c⟩
      unwords [kv "left" (encInt (cursorLeft d n)), kv "right" (encInt (cursorRight d n))]
    | _, _, _ => "bad-op"
  | ["UD", t, c, n, p] =>
    match decStr t, decNat c, decInt n, decOptInt p with
    | some t, some c, some n, some p =>
      let d : Doc := ⟨t, c⟩
      unwords [kv "up" (encInt (cursorUp d n p)), kv "down" (encInt (cursorDown d n p))]
    | _, _, _, _ => "bad-op"
  | ["PAR", t, c, n] =>
    match decStr t, decNat c, decInt n with
    | some t, some c, some n =>
      let d : Doc := ⟨t, c⟩
      unwords [kv "sop0" (encInt (startOfParagraph isSp d n false)),
               kv "sop1" (encInt (startOfParagraph isSp d n true)),
               kv "eop0" (encInt (endOfParagraph isSp d n false)),
               kv "eop1" (encInt (endOfParagraph isSp d n true)),
               kv "nml" (encOI (findNextMatchingLine (blankLine isSp) d n)),
               kv "pml" (encOI (findPreviousMatchingLine (blankLine isSp) d n))]
    | _, _, _ => "bad-op"
  | ["F", t, c, s, n] =>
    match decStr t, decNat c, decStr s, decInt n with
    | some t, some c, some s, some n =>
      let d : Doc := ⟨t, c⟩
      let fs := bools.flatMap fun icl => bools.flatMap fun inc => bools.map fun ic =>
        kv s!"find{encBool icl}{encBool inc}{encBool ic}"
          (encOI (find (if ic then eqCI else eqCS) d s icl inc n))
      let bs := bools.flatMap fun icl => bools.map fun ic =>
        kv s!"fb{encBool icl}{encBool ic}" (encOI (findBackwards (if ic then eqCI else eqCS) d s icl n))
      unwords (fs ++ bs ++ [kv "hm" (encBool (hasMatchAtCursor d s)),
                            kv "fa0" (encNats (findAll eqCS d s)), kv "fa1" (encNats (findAll eqCI d s))])
    | _, _, _, _ => "bad-op"
  | ["W", t, c, n] =>
    match decStr t, decNat c, decInt n with
    | some t, some c, some n =>
      let d : Doc := ⟨t, c⟩
      let w := bools.flatMap fun W =>
        [kv s!"nwb{encBool W}" (encOI (findNextWordBeginning reSp d n W)),
         kv s!"nwe0{encBool W}" (encOI (findNextWordEnding reSp d false n W)),
         kv s!"nwe1{encBool W}" (encOI (findNextWordEnding reSp d true n W)),
         kv s!"pwb{encBool W}" (encOI (findPreviousWordBeginning reSp d n W)),
         kv s!"pwe{encBool W}" (encOI (findPreviousWordEnding reSp d n W)),
         kv s!"spw{encBool W}" (encOI (findStartOfPreviousWord reSp d n W))]
      unwords w
    | _, _, _ => "bad-op"
  | ["WB", t, c] =>
    match decStr t, decNat c with
    | some t, some c =>
      let d : Doc := ⟨t, c⟩
      let b := bools.flatMap fun W => bools.flatMap fun lead => bools.map fun trail =>
        let (s, e) := wordBoundaries reSp d W lead trail
        kv s!"b{encBool W}{encBool lead}{encBool trail}" s!"{s},{e}"
      unwords (b ++ [kv "wuc0" (encStr (wordUnderCursor reSp d false)),
                     kv "wuc1" (encStr (wordUnderCursor reSp d true)),
                     kv "wbc0" (encStr (wordBeforeCursor isSp reSp d false)),
                     kv "wbc1" (encStr (wordBeforeCursor isSp reSp d true))])
    | _, _ => "bad-op"
  | ["BR", t, c, l, r, e] =>
    match decStr t, decNat c, decStr l, decStr r, decOptInt e with
    | some t, some c, some [l], some [r], some e => encOI (enclosingRight ⟨t, c⟩ l r e)
    | _, _, _, _, _ => "bad-op"
  | ["BL", t, c, l, r, s] =>
    match decStr t, decNat c, decStr l, decStr r, decOptInt s with
    | some t, some c, some [l], some [r], some s => encOI (enclosingLeft ⟨t, c⟩ l r s)
    | _, _, _, _, _ => "bad-op"
  | ["BM", t, c, s, e] =>
    match decStr t, decNat c, decOptInt s, decOptInt e with
    | some t, some c, some s, some e => encInt (matchingBracket ⟨t, c⟩ s e)
    | _, _, _, _ => "bad-op"
  | ["WS", t, c, n] =>
    -- the declarative SPECIFICATION of the word motions (Ptk.Model.C02Spec); the specification of
    -- find_previous_word_ending is printed where `prevWordEnding_refines_partial` applies
    -- (a character under the cursor), elsewhere the model's value (known finding D1)
    match decStr t, decNat c, decInt n with
    | some t, some c, some n =>
      let d : Doc := ⟨t, c⟩
      let w := bools.flatMap fun W =>
        let cl := cls reSp W
        [kv s!"nwb{encBool W}" (encOI (specNextWordBeginning cl t c n)),
         kv s!"nwe0{encBool W}" (encOI (specNextWordEnding cl t c false n)),
         kv s!"nwe1{encBool W}" (encOI (specNextWordEnding cl t c true n)),
         kv s!"pwb{encBool W}" (encOI (specPrevWordBeginning cl t c n)),
         kv s!"pwe{encBool W}" (encOI (if c < t.length then specPrevWordEnding cl t c n
                                        else prevWordEndingPos reSp d n W))]
      unwords w
    | _, _, _ => "bad-op"
  | ["SC", t] =>
    -- the regex scanners alone, on one string: all matches of the two word regexes, and the
    -- anchored `^word` / `^word\\s*` matches
    match decStr t with
    | some t =>
      let encRuns (l : List (Nat × Nat)) : String := encList (fun (p : Nat × Nat) => s!"{p.1}:{p.2}") l
      let encON (o : Option Nat) : String := match o with | none => "N" | some n => toString n
      unwords (bools.flatMap fun W =>
        let cl := cls reSp W
        [kv s!"runs{encBool W}" (encRuns (runs cl t)),
         kv s!"cw{encBool W}" (encON (currentWordEnd cl t)),
         kv s!"cww{encBool W}" (encON (currentWordEndWs cl reSp t))])
    | none => "bad-op"
  | "K" :: rest =>
    match parseCacheOps rest.length rest with
    | some ops => " | ".intercalate ((cacheRun [] ops).1.map encCacheAns)
    | none => "bad-op"
  | _ => "bad-op"

def main : IO Unit := run handle
