import Ptk.Proto
import Ptk.Model.C11W
open Ptk Ptk.Py Ptk.Proto Ptk.C11

def decChar (tok : String) : Option Char := tok.toNat?.map Char.ofNat

def parseFrags : Nat → List String → Option (List (Bool × Text) × List String)
  | 0, rest => some ([], rest)
  | n + 1, zw :: t :: rest => do
    let zw ← decBool zw
    let t ← decStr t
    let (fs, r) ← parseFrags n rest
    pure ((zw, t) :: fs, r)
  | _, _ => none

mutual
/-- parse one processor from the token list -/
partial def parseProc : List String → Option (Proc × List String)
  | "T" :: ts :: c1 :: c2 :: rest => do pure (Proc.tabs (← decNat ts) (← decChar c1) (← decChar c2), rest)
  | "B" :: t :: rest => do pure (Proc.before (← decStr t), rest)
  | "Z" :: n :: rest => do          -- BeforeInput with zero-width-escape fragments: n x (zw, text)
    let (fr, r) ← parseFrags (← decNat n) rest
    pure (Proc.beforeF fr, r)
  | "A" :: t :: rest => do pure (Proc.after (← decStr t), rest)
  | "P" :: c :: rest => do pure (Proc.password (← decChar c), rest)
  | "L" :: c :: rest => do pure (Proc.leading (← decChar c), rest)
  | "R" :: c :: rest => do pure (Proc.trailing (← decChar c), rest)
  | "I" :: rest => some (Proc.ident, rest)
  | "C" :: b :: rest => do          -- ConditionalProcessor / DynamicProcessor
    let b ← decBool b
    let (p, r) ← parseProc rest
    pure (Proc.cond b p, r)
  | "M" :: n :: rest => do          -- nested merge_processors
    let (ps, r) ← parseProcs (← decNat n) rest
    pure (Proc.group ps, r)
  | _ => none
/-- parse `n` processors from the token list -/
partial def parseProcs : Nat → List String → Option (List Proc × List String)
  | 0, rest => some ([], rest)
  | n + 1, toks => do
    let (p, r) ← parseProc toks
    let (ps, r) ← parseProcs n r
    pure (p :: ps, r)
end

mutual
/-- parse one margin: N | S | P <str> | C <bool> <margin> -/
partial def parseMargin : List String → Option (Margin × List String)
  | "N" :: rest => some (Margin.numbered, rest)
  | "S" :: rest => some (Margin.scrollbar, rest)
  | "P" :: t :: rest => do pure (Margin.prompt (← decStr t), rest)
  | "C" :: b :: rest => do
    let b ← decBool b
    let (m, r) ← parseMargin rest
    pure (Margin.cond b m, r)
  | _ => none
partial def parseMargins : Nat → List String → Option (List Margin × List String)
  | 0, rest => some ([], rest)
  | n + 1, toks => do
    let (m, r) ← parseMargin toks
    let (ms, r) ← parseMargins n r
    pure (m :: ms, r)
end

def encCell (t : Text) : String := ".".intercalate (t.map fun c => toString c.toNat)

def encRow (cells : List ((Int × Int) × Text)) (y xoff : Int) (width : Nat) : String :=
  "r:" ++ ",".intercalate ((List.range width).map fun (x : Nat) => encCell (cellAt cells (y, xoff + (x : Int))))

/-- position maps of the cursor line: `source_to_display(0..len)`, `display_to_source(0..displaylen+1)` -/
def showMaps (procs : List Proc) (text : Text) (cy : Nat) : String :=
  let ls := splitOn '\n' text
  let line := ls.getD cy []
  let tr := merged cy ls.length procs line
  let s2d := (List.range (line.length + 1)).map fun i =>
    match tr.s2d i with | some d => toString d | none => "E"
  let d2s := (List.range (tr.frags.length + 2)).map fun (j : Nat) => toString (tr.d2s (j : Int))
  s!"pm {s2d.length} " ++ " ".intercalate s2d ++ s!" dm {d2s.length} " ++ " ".intercalate d2s

def showRendered (r : Rendered) (xpos ypos : Int) (tw height lw rw mw : Nat) (maps : String) : String :=
  let st := r.st
  let (cyS, cxS) := cursorScreen st r.cy r.cx
  let vl := st.vl.reverse
  let rc := st.rc.reverse
  let vlS := vl.foldl (fun acc (y, row, col) => acc ++ s!" {y} {row} {col}") s!"vl {vl.length}"
  let rcS := rc.foldl (fun acc ((row, col), (y, x)) => acc ++ s!" {row} {col} {y} {x}") s!"rc {rc.length}"
  let rows := (List.range height).map fun (y : Nat) => encRow st.cells (ypos + (y : Int)) r.xoff r.width.toNat
  let (mx0, mx1) := mouseXRange Gen.C11.mouseRegionFixed xpos tw lw rw
  let mr := if mx0 < mx1 then s!"{mx0} {mx1}" else "E"
  -- the cells of the numbered margin, row by row
  let dl := displayedLines st
  let mg := (List.range height).map fun (k : Nat) =>
    "m:" ++ ",".intercalate ((marginCells mw dl k).map fun c => toString c.toNat)
  let mgS := if mw > 0 then " " ++ " ".intercalate mg else ""
  s!"{r.scroll.vs} {r.scroll.hs} {r.scroll.vs2} {r.cy} {r.cx} {r.width} {r.xoff} {cyS} {cxS} {vlS} {rcS} {maps} mr {mr} " ++
    " ".intercalate rows ++ mgS

/-- what a `click` needs from the last render -/
structure Last where
  r : Rendered
  procs : List Proc
  text : Text
  xpos : Int
  ypos : Int
  tw : Nat
  height : Nat
  lw : Nat
  rw : Nat

structure DS where
  s : Scroll
  last : Option Last

def stepLine (d : DS) (toks : List String) : DS × String :=
  match toks with
  | ["init", a, b, c] =>
    match decInt a, decInt b, decInt c with
    | some a, some b, some c => ({ s := { vs := a, hs := b, vs2 := c }, last := none }, "ok")
    | _, _, _ => (d, "bad-op")
  | ["click", y, x] =>
    match decInt y, decInt x, d.last with
    | some y, some x, some l =>
      let (mx0, mx1) := mouseXRange Gen.C11.mouseRegionFixed l.xpos l.tw l.lw l.rw
      -- `set_mouse_handler_for_range`: the handler is installed for these cells only
      if l.ypos ≤ y ∧ y < l.ypos + l.height ∧ mx0 ≤ x ∧ x < mx1 then
        let (row, col) := windowClick l.r.st l.ypos y x
        (d, s!"{row} {col} {bufferClick l.procs l.text row col}")
      else (d, "none")
    | _, _, _ => (d, "bad-op")
  | "render" :: w :: h :: wrap :: xpos :: ypos :: top :: bottom :: left :: right :: beyond :: margin ::
      hasP :: pA :: pB :: pC :: cbV :: cbH :: nl :: rest =>
    let r : Option (DS × String) := do
      let w ← decNat w
      let h ← decNat h
      let wrap ← decBool wrap
      let xpos ← decInt xpos
      let ypos ← decInt ypos
      let top ← decNat top
      let bottom ← decNat bottom
      let left ← decNat left
      let right ← decNat right
      let beyond ← decBool beyond
      let margin ← decBool margin
      let hasP ← decBool hasP
      let pA ← decStr pA
      let pB ← decStr pB
      let pC ← decStr pC
      let cbV ← decOptInt cbV
      let cbH ← decOptInt cbH
      let (lefts, rest) ← parseMargins (← decNat nl) rest
      let (rights, rest) ← match rest with
        | nr :: rest => do parseMargins (← decNat nr) rest
        | [] => none
      let (procs, rest) ← match rest with
        | np :: rest => do parseProcs (← decNat np) rest
        | [] => none
      match rest with
      | [text, cur] =>
        let text ← decStr text
        let cur ← decNat cur
        let cfg : Cfg := { xpos := xpos, ypos := ypos, top := top, bottom := bottom, left := left,
                           right := right, beyond := beyond, margin := margin,
                           pfx := if hasP then some (pA, pB, pC) else none, procs := procs,
                           lefts := lefts, rights := rights }
        match renderCb genW cfg w h wrap text cur cbV cbH d.s with
        | some r =>
          let lc := (contentLines procs text).length
          let lw := cfg.leftWidth genW lc
          let rw := cfg.rightWidth genW lc
          let mw : Nat := if margin then numberedMarginWidth lc else 0     -- the numbered margin's columns
          pure ({ s := r.scroll, last := some { r := r, procs := procs, text := text, xpos := xpos, ypos := ypos,
                                                 tw := w, height := h, lw := lw, rw := rw } },
                showRendered r xpos ypos w h lw rw mw (showMaps procs text r.cy))
        | none => pure ({ d with last := none }, "err:KeyError")
      | _ => none
    r.getD (d, "bad-op")
  | _ => (d, "bad-op")

def main : IO Unit := runS stepLine { s := { vs := 0, hs := 0, vs2 := 0 }, last := none }
