import Ptk.Proto
import Ptk.Gen.C11
import Ptk.Model.C11
open Ptk Ptk.Py Ptk.Proto Ptk.C11

/-- runtime character classes regenerated from the current tree / interpreter -/
def genW : Widths := { rw := Gen.C11.rawWidth, disp := Gen.C11.display,
                        dm := Gen.C11.measuresDisplayWidth, exact := Gen.C11.exactWrappedHeight }

def decChar (tok : String) : Option Char := tok.toNat?.map Char.ofNat

/-- parse `n` processors from the token list -/
def parseProcs : Nat → List String → Option (List Proc × List String)
  | 0, rest => some ([], rest)
  | n + 1, "T" :: ts :: c1 :: c2 :: rest => do
    let p := Proc.tabs (← decNat ts) (← decChar c1) (← decChar c2)
    let (ps, r) ← parseProcs n rest
    pure (p :: ps, r)
  | n + 1, "B" :: t :: rest => do
    let p := Proc.before (← decStr t)
    let (ps, r) ← parseProcs n rest
    pure (p :: ps, r)
  | n + 1, "A" :: t :: rest => do
    let p := Proc.after (← decStr t)
    let (ps, r) ← parseProcs n rest
    pure (p :: ps, r)
  | n + 1, "P" :: c :: rest => do
    let p := Proc.password (← decChar c)
    let (ps, r) ← parseProcs n rest
    pure (p :: ps, r)
  | _, _ => none

def encCell (t : Text) : String := ".".intercalate (t.map fun c => toString c.toNat)

def encRow (cells : List ((Int × Int) × Text)) (y xoff : Int) (width : Nat) : String :=
  "r:" ++ ",".intercalate ((List.range width).map fun (x : Nat) => encCell (cellAt cells (y, xoff + (x : Int))))

/-- position maps of the cursor line: `source_to_display(0..len)`, `display_to_source(0..displaylen+1)` -/
def showMaps (procs : List Proc) (text : Text) (cy : Nat) : String :=
  let ls := splitOn '\n' text
  let line := ls.getD cy []
  let tr := merged cy ls.length procs line
  let s2d := (List.range (line.length + 1)).map fun i =>
    match tr.s2d i with | some d => toString d | none => "E"
  let d2s := (List.range (tr.frags.length + 2)).map fun (j : Nat) => toString (tr.d2s (j : Int))
  s!"pm {s2d.length} " ++ " ".intercalate s2d ++ s!" dm {d2s.length} " ++ " ".intercalate d2s

def showRendered (r : Rendered) (ypos : Int) (height : Nat) (maps : String) : String :=
  let st := r.st
  let (cyS, cxS) := cursorScreen st r.cy r.cx
  let vl := st.vl.reverse
  let rc := st.rc.reverse
  let vlS := vl.foldl (fun acc (y, row, col) => acc ++ s!" {y} {row} {col}") s!"vl {vl.length}"
  let rcS := rc.foldl (fun acc ((row, col), (y, x)) => acc ++ s!" {row} {col} {y} {x}") s!"rc {rc.length}"
  let rows := (List.range height).map fun (y : Nat) => encRow st.cells (ypos + (y : Int)) r.xoff r.width.toNat
  s!"{r.scroll.vs} {r.scroll.hs} {r.scroll.vs2} {r.cy} {r.cx} {r.width} {r.xoff} {cyS} {cxS} {vlS} {rcS} {maps} " ++
    " ".intercalate rows

def stepLine (s : Scroll) (toks : List String) : Scroll × String :=
  match toks with
  | ["init", a, b, c] =>
    match decInt a, decInt b, decInt c with
    | some a, some b, some c => ({ vs := a, hs := b, vs2 := c }, "ok")
    | _, _, _ => (s, "bad-op")
  | "render" :: w :: h :: wrap :: xpos :: ypos :: top :: bottom :: left :: right :: beyond :: margin ::
      hasP :: pA :: pB :: pC :: np :: rest =>
    let r : Option (Scroll × String) := do
      let w ← decNat w
      let h ← decNat h
      let wrap ← decBool wrap
      let xpos ← decInt xpos
      let ypos ← decInt ypos
      let top ← decNat top
      let bottom ← decNat bottom
      let left ← decNat left
      let right ← decNat right
      let beyond ← decBool beyond
      let margin ← decBool margin
      let hasP ← decBool hasP
      let pA ← decStr pA
      let pB ← decStr pB
      let pC ← decStr pC
      let np ← decNat np
      let (procs, rest) ← parseProcs np rest
      match rest with
      | [text, cur] =>
        let text ← decStr text
        let cur ← decNat cur
        let cfg : Cfg := { xpos := xpos, ypos := ypos, top := top, bottom := bottom, left := left,
                           right := right, beyond := beyond, margin := margin,
                           pfx := if hasP then some (pA, pB, pC) else none, procs := procs }
        match render genW cfg w h wrap text cur s with
        | some r => pure (r.scroll, showRendered r ypos h (showMaps procs text r.cy))
        | none => pure (s, "err:KeyError")
      | _ => none
    r.getD (s, "bad-op")
  | _ => (s, "bad-op")

def main : IO Unit := runS stepLine { vs := 0, hs := 0, vs2 := 0 }
