import Ptk.Proto
import Ptk.Gen.C20
import Ptk.Model.C20
import Ptk.Model.C20Chain
import Ptk.Model.C20Lock
import Ptk.Model.C20Nest
import Ptk.Model.C20Patch
import Ptk.Model.C20Alt
open Ptk Ptk.Py Ptk.Proto Ptk.C20

/-! Line-protocol driver for the C20 models.

  proxy model (stateful):
    init <raw>            reset
    w <t> <str> | wbad <t> | f <t> | close | fl | start | newloop | closeloop | inval | exit | settle
    cb                    the oldest accepted callback runs (`run_in_terminal` makes its task)
    task                  first step of the oldest task
    wake                  `run_async` wakes up (model op `stop`);  finish  `run_async` returns
    run                   = tasks that wait, `cb`, the task it made   (the loop runs freely)
    stop                  = `wake`, `finish`
    runexit               = tasks that wait, `exit`, `cb`, its task, `wake`, `finish`  (exit() queued behind the callback's task)
    exitrun               = tasks that wait, `exit`, `cb`, `wake`, the task, `finish`  (exit() queued before the callback ran)
    end                   summary line
  reply to every op: `<events appended by the op> | buf=.. q=.. fl=.. pend=.. tasks=.. lost=.. app=.. exit=.. wind=.. loop=..`

  chain model (stateful, separate state):
    cinit | center <k> | cstep <k> | cstop | cstart
-/

def encEv : Ev → String
  | .draw => "D"
  | .erase => "E"
  | .doneDraw => "X"
  | .out raw t => s!"O{encBool raw}:{encStr t}"

def encItem : Item → String
  | .text t => encStr t
  | .done => "DONE"

def encFl : Fl → String
  | .idle => "idle"
  | .batch _ _ => "batch"
  | .ready none t _ => s!"ready:N:{encStr t}"
  | .ready (some g) t _ => s!"ready:{g}:{encStr t}"
  | .relook g _ _ => s!"relook:{g}"
  | .exited => "exited"

def encState (s : St) : String :=
  s!"buf={encStr (cat s.buffer)} q={encList encItem s.queue} fl={encFl s.fl} pend={encList encStr s.pending} tasks={encList encStr (taskTexts s.tasks)} lost={encList encStr s.lost} app={encBool s.appOn} exit={encBool s.exiting} wind={encBool s.winding} loop={s.loopGen}/{encBool s.loopOpen}"

def parseOp : List String → Option Op
  | ["w", t, d] => do pure (.write (← decNat t) (← decStr d))
  | ["f", t] => do pure (.flush (← decNat t))
  | ["close"] => some .close
  | ["fl"] => some .fl
  | ["wbad", t] => do pure (.writeBad (← decNat t))
  | ["cb"] => some .run
  | ["task"] => some .task
  | ["wake"] => some .stop
  | ["finish"] => some .finish
  | ["start"] => some .start
  | ["newloop"] => some .newLoop
  | ["closeloop"] => some .closeLoop
  | ["inval"] => some .inval
  | ["exit"] => some .exit
  | _ => none

structure DSt where
  s : St := {}
  c : C20Chain.St := {}
  l : C20Lock.St := {}
  n : C20Nest.St := {}
  pp : C20Patch.St := {}
  a : C20Alt.St := {}

/-! alternate screen: ainit <full_screen> | astart | astop | ainval | aresize | asec <str>
    reply: `<events: D E X A+ A- O<alt>:<text>> | app=.. alt=..` -/
namespace AltDrv
open C20Alt

def encEv : C20Alt.Ev → String
  | .draw => "D"
  | .erase => "E"
  | .doneDraw => "X"
  | .enterAlt => "A+"
  | .quitAlt => "A-"
  | .out o t => s!"O{encBool o}:{encStr t}"

def reply (old new : C20Alt.St) : String :=
  let evs := new.log.drop old.log.length
  " ".intercalate (evs.map encEv) ++ s!" | app={encBool new.appOn} alt={encBool new.alt}"

def stepLine (s : C20Alt.St) : List String → Option (C20Alt.St × String)
  | ["ainit", f] => do
    let n : C20Alt.St := { fullScreen := (← decBool f) }
    pure (n, reply n n)
  | ["astart"] => let s' := C20Alt.step s .start; some (s', reply s s')
  | ["astop"] => let s' := C20Alt.step s .stop; some (s', reply s s')
  | ["ainval"] => let s' := C20Alt.step s .inval; some (s', reply s s')
  | ["aresize"] => let s' := C20Alt.step s .resize; some (s', reply s s')
  | ["asec", d] => do
    let s' := C20Alt.step s (.section (← decStr d))
    pure (s', reply s s')
  | _ => none
end AltDrv

/-! nested applications: ninit | nstart | nstop | nenter | nleave | nw <str>
    reply: `<events> | cell=<k|N> stack=<outermost first: id, 's' when its section is open>` -/
namespace NestDrv
open C20Nest

def encEv : C20Nest.Ev → String
  | .draw k => s!"D{k}"
  | .erase k => s!"E{k}"
  | .doneDraw k => s!"X{k}"
  | .out t => s!"O0:{encStr t}"

def reply (old new : C20Nest.St) : String :=
  let evs := new.log.drop old.log.length
  let cell := match new.cell with | none => "N" | some k => toString k
  let st := ",".intercalate (new.stack.reverse.map fun f => s!"{f.id}{if f.inSec then "s" else ""}")
  " ".intercalate (evs.map encEv) ++ s!" | cell={cell} stack={st}"

def stepLine (s : C20Nest.St) : List String → Option (C20Nest.St × String)
  | ["ninit"] => let n : C20Nest.St := {}; some (n, reply n n)
  | ["nstart"] => let s' := C20Nest.step s .start; some (s', reply s s')
  | ["nstop"] => let s' := C20Nest.step s .stop; some (s', reply s s')
  | ["nenter"] => let s' := C20Nest.step s .enter; some (s', reply s s')
  | ["nleave"] => let s' := C20Nest.step s .leave; some (s', reply s s')
  | ["nw", d] => do
    let d ← decStr d
    let s' := C20Nest.step s (.write d)
    pure (s', reply s s')
  | _ => none
end NestDrv

/-! patch_stdout(): pinit <raw> | pw <t> <str> | pf <t> | pemit | pexit
    The flush thread is held only inside `Output.flush()` (op `pemit` lets one emission through); otherwise it runs
    by itself: after every op it takes what is queued (`grab`), and `join()` returns as soon as it has ended. -/
namespace PatchDrv
open C20Patch

def encPc : Pc → String
  | .inside => "inside"
  | .joining => "joining"
  | .done => "done"

def settleP (s : C20Patch.St) : C20Patch.St :=
  let s1 := { s with p := grab (3 * s.p.queue.length + 4) s.p }
  C20Patch.step s1 .joined

def encP (s : C20Patch.St) : String :=
  let fl := match s.p.fl with
    | .idle => "idle"
    | .exited => "exited"
    | .ready _ t _ => s!"held:{encStr t}"
    | _ => "?"
  s!"bound={encBool s.bound} pc={encPc s.pc} orig={encStr s.orig} buf={encStr (cat s.p.buffer)} q={encList encItem s.p.queue} fl={fl}"

def reply (old new : C20Patch.St) : String :=
  let evs := new.p.log.drop old.p.log.length
  " ".intercalate (evs.map encEv) ++ " | " ++ encP new

def stepLine (s : C20Patch.St) : List String → Option (C20Patch.St × String)
  | ["pinit", r] => do
    let r ← decBool r
    let n := C20Patch.init r
    pure (n, reply n n)
  | ["pw", t, d] => do
    let s' := settleP (C20Patch.step s (.write (← decNat t) (← decStr d)))
    pure (s', reply s s')
  | ["pf", t] => do
    let s' := settleP (C20Patch.step s (.flush (← decNat t)))
    pure (s', reply s s')
  | ["pemit"] =>
    -- the emission that was held inside `Output.flush()` goes through
    let s1 := match s.p.fl with
      | .ready _ _ _ => C20Patch.step s .fl
      | _ => s
    let s' := settleP s1
    some (s', reply s s')
  | ["pexit"] => let s' := settleP (C20Patch.step s .leave); some (s', reply s s')
  | _ => none
end PatchDrv

/-! lock model glue: threads 0..3 -/
namespace LockDrv
open C20Lock

def encPc : Pc → String
  | .idle => "i"
  | .want _ => "w"
  | .locked _ => "l"
  | .assign _ _ _ => "a"
  | .putting _ => "p"
  | .releasing => "r"

def tids : List Nat := [0, 1, 2, 3]

def encL (s : C20Lock.St) : String :=
  let owner := match s.owner with | none => "N" | some t => toString t
  s!"buf={encStr (cat s.buffer)} q={encList encStr s.queue} out={encStr s.out} owner={owner} pcs={"".intercalate (tids.map fun t => encPc (s.pc t))} acq={encList (fun p => toString p.1) s.acquired}"

/-- after a release the lock goes to a waiting thread (the schedules keep at most one waiting) -/
def grant (s : C20Lock.St) : C20Lock.St := tids.foldl (fun s t => C20Lock.step s (.acq t)) s

def stepLine (s : C20Lock.St) : List String → Option (C20Lock.St × String)
  | ["linit"] => let n : C20Lock.St := {}; some (n, encL n)
  | ["lcall", t, "w", d] => do
    let t ← decNat t
    let d ← decStr d
    let s' := C20Lock.step (C20Lock.step s (.call t (.write d))) (.acq t)
    pure (s', encL s')
  | ["lcall", t, "f"] => do
    let t ← decNat t
    let s' := C20Lock.step (C20Lock.step s (.call t .flush)) (.acq t)
    pure (s', encL s')
  | ["lbody", t] => do
    let t ← decNat t
    let s' := C20Lock.runOps s (C20Lock.body t)
    pure (s', encL s')
  | ["lrel", t] => do
    let t ← decNat t
    let s' := grant (C20Lock.step s (.rel t))
    pure (s', encL s')
  | ["lfl"] => let s' := C20Lock.step s .fl; some (s', encL s')
  | _ => none
end LockDrv

def drainAll (s : St) : St := drainTasks (s.tasks.length + 1) s

def reply (old new : St) : String :=
  let evs := new.log.drop old.log.length
  " ".intercalate (evs.map encEv) ++ " | " ++ encState new

def stepLine (d : DSt) (toks : List String) : DSt × String :=
  match toks with
  | ["init", r] =>
    match decBool r with
    | some r => let s := init r; ({ d with s := s }, " | " ++ encState s)
    | none => (d, "bad-op")
  | ["run"] =>
    -- the loop runs freely: the tasks that wait, the oldest accepted callback, the task it made
    let s' := drainAll (step (drainAll d.s) .run)
    ({ d with s := s' }, reply d.s s')
  | ["stop"] =>
    let s' := step (step d.s .stop) .finish
    ({ d with s := s' }, reply d.s s')
  | ["runexit"] =>
    -- one loop turn: the oldest accepted callback, `Application.exit()` queued right behind it, then the
    -- task the callback created (inside the exit-requested phase), then `run_async` resumes and returns
    let s' := step (step (drainAll (step (step (drainAll d.s) .exit) .run)) .stop) .finish
    ({ d with s := s' }, reply d.s s')
  | ["exitrun"] =>
    -- one loop turn: `Application.exit()` first (the wake-up of `run_async` is queued), then the oldest
    -- accepted callback; the wake-up runs before the first step of the task the callback made
    let s' := step (drainAll (step (step (step (drainAll d.s) .exit) .run) .stop)) .finish
    ({ d with s := s' }, reply d.s s')
  | ["settle"] =>
    let s' := settle 100000 d.s
    ({ d with s := s' }, reply d.s s')
  | ["end"] =>
    let s := d.s
    let started := s.log.any fun e => e == .draw
    (d, s!"out={encStr (outText s.log)} term={if started then "-" else encStr (termText Ptk.Gen.C20.autowrap Ptk.Gen.C20.escRepl s.log)} quiescent={encBool (quiescent s)}")
  | "soak" :: _ :: strs =>
    -- per-thread projection of the output of a free running case: the thread's writes, in order
    match strs.mapM decStr with
    | some ws => (d, encStr (cat ws))
    | none => (d, "bad-op")
  | "linit" :: _ | "lcall" :: _ | "lbody" :: _ | "lrel" :: _ | "lfl" :: _ =>
    match LockDrv.stepLine d.l toks with
    | some (l', r) => ({ d with l := l' }, r)
    | none => (d, "bad-op")
  | "ainit" :: _ | "astart" :: _ | "astop" :: _ | "ainval" :: _ | "aresize" :: _ | "asec" :: _ =>
    match AltDrv.stepLine d.a toks with
    | some (a', r) => ({ d with a := a' }, r)
    | none => (d, "bad-op")
  | "ninit" :: _ | "nstart" :: _ | "nstop" :: _ | "nenter" :: _ | "nleave" :: _ | "nw" :: _ =>
    match NestDrv.stepLine d.n toks with
    | some (n', r) => ({ d with n := n' }, r)
    | none => (d, "bad-op")
  | "pinit" :: _ | "pw" :: _ | "pf" :: _ | "pemit" :: _ | "pexit" :: _ =>
    match PatchDrv.stepLine d.pp toks with
    | some (p', r) => ({ d with pp := p' }, r)
    | none => (d, "bad-op")
  | "cinit" :: _ | "center" :: _ | "cstep" :: _ | "cstop" :: _ | "cstart" :: _ | "cinval" :: _ | "cexit" :: _ =>
    match C20Chain.stepLine d.c toks with
    | some (c', r) => ({ d with c := c' }, r)
    | none => (d, "bad-op")
  | _ =>
    match parseOp toks with
    | some op =>
      let s' := step d.s op
      ({ d with s := s' }, reply d.s s')
    | none => (d, "bad-op")

def main : IO Unit := runS stepLine {}
