import Ptk.Proto
import Ptk.Model.C16
open Ptk Ptk.Py Ptk.Proto Ptk.C16

/-- parse `n s₁ … sₙ rest…` -/
def takeStrs : Nat → List String → Option (List Text × List String)
  | 0, rest => some ([], rest)
  | n + 1, t :: rest => do
    let s ← decStr t
    let (ss, r) ← takeStrs n rest
    pure (s :: ss, r)
  | _ + 1, [] => none

def decDir (t : String) : Option Dir :=
  if t == "F" then some .fwd else if t == "B" then some .bwd else none
def encDir : Dir → String
  | .fwd => "F"
  | .bwd => "B"

def pickEq (ic : Bool) : Char → Char → Bool := if ic then eqCI else eqCS

def encPos : Option (Nat × Nat) → String
  | none => "N"
  | some (i, c) => s!"{i},{c}"

/-- `api n lines… widx cur sub dir incl ic count` : every Buffer-level entry point at once -/
def apiLine (toks : List String) : Option String := do
  match toks with
  | nTok :: rest =>
    let n ← decNat nTok
    let (ls, rest) ← takeStrs n rest
    match rest with
    | [w, c, sub, d, incl, ic, cnt] =>
      let w ← decNat w
      let c ← decNat c
      let sub ← decStr sub
      let d ← decDir d
      let incl ← decBool incl
      let ic ← decBool ic
      let cnt ← decNat cnt
      let eq := pickEq ic
      let b : Buf := { lines := ls, widx := w, cur := c }
      let r := search eq b sub d incl cnt
      let a := applySearch eq b sub d incl cnt
      let (dt, dc) := docForSearch eq b sub d
      let g := getSearchPosition eq b sub d incl cnt
      pure s!"search={encPos r} apply={a.widx},{a.cur} dfs={encStr dt},{dc} gsp={g}"
    | _ => none
  | _ => none

/-- `find text cur sub incl ic` / `findb text cur sub ic` -/
def findLine : List String → Option String
  | ["find", t, c, sub, incl, ic] => do
    let r := docFind (pickEq (← decBool ic)) (← decStr t) (← decNat c) (← decStr sub) (← decBool incl)
    pure (encOptInt (r.map Int.ofNat))
  | ["findb", t, c, sub, ic] => do
    pure (encOptInt (docFindBack (pickEq (← decBool ic)) (← decStr t) (← decNat c) (← decStr sub)))
  | _ => none

structure DSt where
  vi : Bool
  ic : Bool
  s : Sess

def showSess (d : DSt) : String :=
  let s := d.s
  let (pt, pc) := preview (pickEq d.ic) s
  s!"{encList encStr s.buf.lines} {s.buf.widx} {s.buf.cur} | {encStr s.field} {encStr s.stext} {encDir s.sdir} {encBool s.searching} | {encStr pt} {pc}"

def parseKey : List String → Option Key
  | ["start", d] => do pure (.start (← decDir d))
  | ["type", c] => do
    match ← decStr c with
    | [ch] => pure (.type ch)
    | _ => none
  | ["bs"] => some .backspace
  | ["incr", d] => do pure (.incr (← decDir d))
  | ["accept"] => some .accept
  | ["abort"] => some .abort
  | ["next", n] => do pure (.next (← decNat n))
  | ["prev", n] => do pure (.prev (← decNat n))
  | _ => none

def initLine (toks : List String) : Option DSt := do
  match toks with
  | vi :: ic :: nTok :: rest =>
    let vi ← decBool vi
    let ic ← decBool ic
    let n ← decNat nTok
    let (ls, rest) ← takeStrs n rest
    match rest with
    | [w, c] =>
      let b : Buf := { lines := ls, widx := ← decNat w, cur := ← decNat c }
      -- the harness puts a Vi session into navigation mode first: the cursor fix applies
      pure { vi := vi, ic := ic,
             s := { buf := if vi then viFix b else b,
                    field := [], stext := [], sdir := .fwd, searching := false } }
    | _ => none
  | _ => none

def stepLine (d : DSt) (toks : List String) : DSt × String :=
  match toks with
  | "api" :: rest => (d, (apiLine rest).getD "bad-op")
  | "find" :: _ => (d, (findLine toks).getD "bad-op")
  | "findb" :: _ => (d, (findLine toks).getD "bad-op")
  | "init" :: rest =>
    match initLine rest with
    | some d' => (d', showSess d')
    | none => (d, "bad-op")
  | "key" :: rest =>
    match parseKey rest with
    | some k =>
      let d' := { d with s := step (pickEq d.ic) d.vi d.s k }
      (d', showSess d')
    | none => (d, "bad-op")
  | _ => (d, "bad-op")

def main : IO Unit :=
  runS stepLine { vi := false, ic := false,
                  s := { buf := { lines := [[]], widx := 0, cur := 0 }, field := [], stext := [],
                         sdir := .fwd, searching := false } }
