import Ptk.Proto
import Ptk.Model.C16
import Ptk.Model.C16World
import Ptk.Model.C16Keys
import Ptk.Gen.C16
import Ptk.Gen.C16Fold
import Ptk.Gen.PyChars
open Ptk Ptk.Py Ptk.Proto Ptk.C16

/-- parse `n s₁ … sₙ rest…` -/
def takeStrs : Nat → List String → Option (List Text × List String)
  | 0, rest => some ([], rest)
  | n + 1, t :: rest => do
    let s ← decStr t
    let (ss, r) ← takeStrs n rest
    pure (s :: ss, r)
  | _ + 1, [] => none

def decDir (t : String) : Option Dir :=
  if t == "F" then some .fwd else if t == "B" then some .bwd else none
def encDir : Dir → String
  | .fwd => "F"
  | .bwd => "B"

/-- ignore-case: the folding classes of the interpreter's `re.IGNORECASE` (generated table) -/
def pickEq (ic : Bool) : Char → Char → Bool :=
  if ic then eqFold Ptk.Gen.C16Fold.foldRanges else eqCS

def encPos : Option (Nat × Nat) → String
  | none => "N"
  | some (i, c) => s!"{i},{c}"

/-- `api n lines… widx cur sub dir incl ic count` : every Buffer-level entry point at once -/
def apiLine (toks : List String) : Option String := do
  match toks with
  | nTok :: rest =>
    let n ← decNat nTok
    let (ls, rest) ← takeStrs n rest
    match rest with
    | [w, c, sub, d, incl, ic, cnt] =>
      let w ← decNat w
      let c ← decNat c
      let sub ← decStr sub
      let d ← decDir d
      let incl ← decBool incl
      let ic ← decBool ic
      let cnt ← decNat cnt
      let eq := pickEq ic
      let b : Buf := { lines := ls, widx := w, cur := c }
      let r := search eq b sub d incl cnt
      let a := applySearch eq b sub d incl cnt
      let (dt, dc) := docForSearch eq b sub d
      let g := getSearchPosition eq b sub d incl cnt
      pure s!"search={encPos r} apply={a.widx},{a.cur} dfs={encStr dt},{dc} gsp={g}"
    | _ => none
  | _ => none

/-- `find text cur sub incl ic` / `findb text cur sub ic` -/
def findLine : List String → Option String
  | ["find", t, c, sub, incl, ic] => do
    let r := docFind (pickEq (← decBool ic)) (← decStr t) (← decNat c) (← decStr sub) (← decBool incl)
    pure (encOptInt (r.map Int.ofNat))
  | ["findx", t, c, sub, inl, incl, ic, cnt] => do
    let r := docFindX (pickEq (← decBool ic)) (← decStr t) (← decNat c) (← decStr sub) (← decBool inl)
      (← decBool incl) (← decNat cnt)
    pure (encOptInt (r.map Int.ofNat))
  | ["findbx", t, c, sub, inl, ic, cnt] => do
    pure (encOptInt (docFindBackX (pickEq (← decBool ic)) (← decStr t) (← decNat c) (← decStr sub)
      (← decBool inl) (← decNat cnt)))
  | ["findb", t, c, sub, ic] => do
    pure (encOptInt (docFindBack (pickEq (← decBool ic)) (← decStr t) (← decNat c) (← decStr sub)))
  | _ => none

structure DSt where
  vi : Bool
  ic : Bool
  s : Sess
  ro : Bool := false
  w : World := { bufs := [], ctrls := [], fields := [], focus := .other }

/-- the interpreter's regex `\s` (generated from the running Python) -/
def isSp : Char → Bool := Ptk.Gen.reSpace

def showSess (d : DSt) : String :=
  let s := d.s
  let (pt, pc) := preview (pickEq d.ic) s
  s!"{encList encStr s.buf.lines} {s.buf.widx} {s.buf.cur} | {encStr s.field} {encStr s.stext} {encDir s.sdir} {encBool s.searching} | {encStr pt} {pc} | {encList encStr (s.fbefore ++ [s.field] ++ s.fafter)} {s.fbefore.length} {encList encStr s.fhist}"

def parseXKey : List String → Option XKey
  | ["star", n] => do pure (.star (← decNat n))
  | ["hash", n] => do pure (.hash (← decNat n))
  | ["jn", a] => do pure (.jumpNext (← decInt a))
  | ["jp", a] => do pure (.jumpPrev (← decInt a))
  | _ => none

def parseKey : List String → Option Key
  | ["hup"] => some .histPrev
  | ["hdown"] => some .histNext
  | ["start", d] => do pure (.start (← decDir d))
  | ["type", c] => do
    match ← decStr c with
    | [ch] => pure (.type ch)
    | _ => none
  | ["bs"] => some .backspace
  | ["incr", d] => do pure (.incr (← decDir d))
  | ["accept"] => some .accept
  | ["abort"] => some .abort
  | ["next", n] => do pure (.next (← decNat n))
  | ["prev", n] => do pure (.prev (← decNat n))
  | _ => none

def initLine (toks : List String) : Option DSt := do
  match toks with
  | vi :: ic :: nTok :: rest =>
    let vi ← decBool vi
    let ic ← decBool ic
    let n ← decNat nTok
    let (ls, rest) ← takeStrs n rest
    match rest with
    | [w, c] =>
      let b : Buf := { lines := ls, widx := ← decNat w, cur := ← decNat c }
      -- the harness puts a Vi session into navigation mode first: the cursor fix applies
      pure { vi := vi, ic := ic,
             s := { buf := if vi then viFix b else b,
                    field := [], stext := [], sdir := .fwd, searching := false } }
    | _ => none
  | _ => none


/-! ### several controls / search fields -/

def eqOf (ic : Bool) : Char → Char → Bool := pickEq ic

/-- parse `n` buffers, each `m s₁ … s_m widx cur` -/
def takeBufs : Nat → List String → Option (List Buf × List String)
  | 0, rest => some ([], rest)
  | n + 1, mTok :: rest => do
    let m ← decNat mTok
    let (ls, rest) ← takeStrs m rest
    match rest with
    | w :: c :: rest =>
      let b : Buf := { lines := ls, widx := ← decNat w, cur := ← decNat c }
      let (bs, r) ← takeBufs n rest
      pure (b :: bs, r)
    | _ => none
  | _ + 1, [] => none

/-- parse `n` controls, each `buf sf` (`sf = -1`: not searchable) -/
def takeCtrls : Nat → List String → Option (List Ctrl × List String)
  | 0, rest => some ([], rest)
  | n + 1, b :: f :: rest => do
    let b ← decNat b
    let f ← decInt f
    let (cs, r) ← takeCtrls n rest
    pure ({ buf := b, sf := if f < 0 then none else some f.toNat } :: cs, r)
  | _ + 1, _ => none

/-- parse `n` search fields, each `ic m h₁ … h_m` -/
def takeFields : Nat → List String → Option (List SField × List String)
  | 0, rest => some ([], rest)
  | n + 1, ic :: mTok :: rest => do
    let ic ← decBool ic
    let m ← decNat mTok
    let (hs, rest) ← takeStrs m rest
    let (fs, r) ← takeFields n rest
    pure ({ field := [], fhist := hs, ic := ic } :: fs, r)
  | _ + 1, _ => none

def decFocus : List String → Option Focus
  | ["c", i] => do pure (.ctrl (← decNat i))
  | ["f", k] => do pure (.field (← decNat k))
  | ["o"] => some .other
  | _ => none

def encFocus : Focus → String
  | .ctrl i => s!"c{i}"
  | .field k => s!"f{k}"
  | .other => "o"

/-- `winit vi nb bufs… nc ctrls… nf fields… focus` -/
def winitLine (toks : List String) : Option (Bool × World) := do
  match toks with
  | vi :: nb :: rest =>
    let vi ← decBool vi
    let (bs, rest) ← takeBufs (← decNat nb) rest
    match rest with
    | nc :: rest =>
      let (cs, rest) ← takeCtrls (← decNat nc) rest
      match rest with
      | nf :: rest =>
        let (fs, rest) ← takeFields (← decNat nf) rest
        let foc ← decFocus rest
        -- the harness puts a Vi application into navigation mode first and presses a key on every
        -- control: cursor fix in every buffer that some control shows
        let bs' := (List.range bs.length).map fun j =>
          let b := bs.getD j emptyBuf
          if vi && cs.any (fun c => c.buf == j) then viFix b else b
        pure (vi, { bufs := bs', ctrls := cs, fields := fs, focus := foc })
      | _ => none
    | _ => none
  | _ => none

def showWorld (w : World) : String :=
  let bs := w.bufs.map fun b => s!"{encList encStr b.lines} {b.widx} {b.cur}"
  let fs := w.fields.map fun f =>
    let l := match f.link with
      | none => "-"
      | some i => toString i
    s!"{encStr f.field} {encStr f.stext} {encDir f.sdir} {l} {encList encStr (f.fbefore ++ [f.field] ++ f.fafter)} {f.fbefore.length} {encList encStr f.fhist}"
  let ps := (List.range w.ctrls.length).map fun i =>
    let (t, c) := wpreview eqOf w i
    s!"{encStr t} {c}"
  s!"{encFocus w.focus} {encBool w.isSearching} | {" ; ".intercalate bs} | {" ; ".intercalate fs} | {" ; ".intercalate ps}"

def parseWKey : List String → Option WKey
  | "focus" :: rest => do pure (.focus (← decFocus rest))
  | ["startfor", i, d] => do pure (.startFor (← decNat i) (← decDir d))
  | "key" :: rest => do pure (.key (← (parseKey rest).map XKey.base <|> parseXKey rest))
  | _ => none

/-- `initx vi ic ro n lines… widx cur m fhist…` -/
def initxLine (toks : List String) : Option DSt := do
  match toks with
  | vi :: ic :: ro :: nTok :: rest =>
    let vi ← decBool vi
    let ic ← decBool ic
    let ro ← decBool ro
    let n ← decNat nTok
    let (ls, rest) ← takeStrs n rest
    match rest with
    | w :: c :: mTok :: rest2 =>
      let m ← decNat mTok
      let (fh, rest3) ← takeStrs m rest2
      if !rest3.isEmpty then none
      let b : Buf := { lines := ls, widx := ← decNat w, cur := ← decNat c }
      pure { vi := vi, ic := ic, ro := ro,
             s := { buf := if vi then viFix b else b,
                    field := [], stext := [], sdir := .fwd, searching := false, fhist := fh } }
    | _ => none
  | _ => none

def stepLine (d : DSt) (toks : List String) : DSt × String :=
  match toks with
  | "winit" :: rest =>
    match winitLine rest with
    | some (vi, w) => ({ d with vi := vi, w := w }, showWorld w)
    | none => (d, "bad-op")
  | "wkey" :: rest =>
    match parseWKey rest with
    | some k =>
      let w' := wstep eqOf isSp d.vi d.w k
      ({ d with w := w' }, showWorld w')
    | none => (d, "bad-op")
  | ["raw", name, arg] =>
    -- a physical key, dispatched through the binding table generated from the current tree
    match decInt arg with
    | some a =>
      let ch : Char := if name.startsWith "ch:" then Char.ofNat ((name.drop 3).toString.toNat?.getD 97) else 'a'
      let d' := { d with s := rawStep Ptk.Gen.C16.bindTable (pickEq d.ic) isSp d.vi d.ro d.s
                                { name := name, ch := ch, arg := a } }
      (d', showSess d')
    | none => (d, "bad-op")
  | "initx" :: rest =>
    match initxLine rest with
    | some d' => (d', showSess d')
    | none => (d, "bad-op")
  | "api" :: rest => (d, (apiLine rest).getD "bad-op")
  | "find" :: _ => (d, (findLine toks).getD "bad-op")
  | "findb" :: _ => (d, (findLine toks).getD "bad-op")
  | "findx" :: _ => (d, (findLine toks).getD "bad-op")
  | "findbx" :: _ => (d, (findLine toks).getD "bad-op")
  | "init" :: rest =>
    match initLine rest with
    | some d' => (d', showSess d')
    | none => (d, "bad-op")
  | "key" :: rest =>
    match (parseKey rest).map XKey.base <|> parseXKey rest with
    | some k =>
      let d' := { d with s := stepX (pickEq d.ic) isSp d.vi d.ro d.s k }
      (d', showSess d')
    | none => (d, "bad-op")
  | _ => (d, "bad-op")

def main : IO Unit :=
  runS stepLine { vi := false, ic := false,
                  s := { buf := { lines := [[]], widx := 0, cur := 0 }, field := [], stext := [],
                         sdir := .fwd, searching := false } }
