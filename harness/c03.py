#!/venv/bin/python
"""C03 — terminal input decoding: correspondence with Ptk.Model.C03 + property oracle."""
from __future__ import annotations

import itertools
import os
import sys

sys.path.insert(0, os.path.dirname(os.path.abspath(__file__)))
import core
from core import enc_str

from prompt_toolkit.input import vt100_parser as VP
from prompt_toolkit.input.ansi_escape_sequences import ANSI_SEQUENCES
from prompt_toolkit.input.vt100_parser import Vt100Parser
from prompt_toolkit.keys import Keys

ID = "C03"
DRIVER = "drv_c03"
PROPS = ["Ptk.Props.C03"]
LEVEL_TEXT = ("Lean 4 theorems over an executable model of Vt100Parser (prefix/longest-match coroutine with retry "
              "loop and persistent flush flag, prefix-of-longer-match table incl. CPR/mouse recognisers, paste fast "
              "path with re-feed) and of the read path below it (incremental UTF-8 decoder with surrogateescape, "
              "PosixStdinReader.read, Vt100Input.read_keys/flush_keys): chunk independence for every splitting of "
              "every character stream AND of every byte stream (with flushes at fixed stream positions), "
              "losslessness (input = data of the key presses + pending prefix/paste), flush empties the prefix, "
              "every table sequence / CPR report / mouse report decodes to its key(s) as one press; stated for every "
              "table satisfying decidable side conditions which the kernel re-decides on ANSI_SEQUENCES regenerated "
              "from /repo on every run; the model is tied to /repo by regex pattern pins, a recogniser-vs-re "
              "differential and a differential correspondence on Vt100Parser, on PosixStdinReader over a real pipe "
              "and on Vt100Input over a real pipe (exhaustive small scope + random)")
LEVEL_NOTE = ("trusted: Lean kernel, axioms propext/Classical.choice/Quot.sound only; the hand-written model "
              "(validated by the correspondence, not proved equal to the Python); CPython str/re/codecs semantics")
RULE = ("exhaustive: every string over a 13-symbol alphabet {ESC [ 1 ; M < O A ~ 2 0 R a} up to the tier's bound, "
        "fed character by character with the full parser state compared after every character and after a final "
        "flush; for the shorter strings additionally a flush at every split point and every chunking; every "
        "ANSI_SEQUENCES key and sample CPR/mouse reports alone and followed by every alphabet symbol; the four "
        "regexes vs the recognisers on all short strings; every byte string over 20 representative byte values up "
        "to the bound through the real PosixStdinReader (whole / per byte / len 3: every 2-split); then seeded random "
        "streams mixing table keys, CPR / mouse reports (complete, truncated, malformed), paste blocks, control, "
        "printable, non-BMP characters, cut into random reads with random flushes, random (also invalid) byte "
        "strings with random cuts, and valid streams through Vt100Input on a real pipe with the UTF-8 bytes cut "
        "at random offsets. A case is non-trivial when its stream contains ESC (bytes: a byte >= 0x80)")
EXHAUSTIVE = True
EXHAUSTIVE_SCOPE = {
    "quick": "13-symbol alphabet: len<=4 char-by-char+flush; len<=3 flush at every split and all chunkings; "
             "regex differential: full alphabet len<=3, CSI bodies len<=4; bytes: 20 values, len<=3",
    "thorough": "13-symbol alphabet: len<=5 char-by-char+flush; len<=4 flush at every split and all chunkings; "
                "6-symbol alphabet len 5 and 4-symbol alphabet len 6 all chunkings; regex differential: full alphabet len<=4, CSI bodies "
                "len<=5; bytes: 20 values, len<=4"}
TRUSTED = ["harness/c03.py compares (key, data) of every KeyPress and (in_paste, paste_buffer, generator prefix, "
           "decoder buffer) after every feed/flush/read",
           "Ptk/Model/C03.lean, C03Utf8.lean are hand translations of vt100_parser.py / the read path "
           "(correspondence-checked)",
           "harness/gen_c03.py prints ANSI_SEQUENCES, the regex patterns and the \\d class faithfully"]
ASSUMPTIONS = ["CPython str / re / generator semantics", "regex \\d class regenerated from the interpreter",
               "the incremental UTF-8 decoder is CPython runtime: modelled (utf8_decode error classes, "
               "surrogateescape, held-back truncated surrogate) and compared with the real one on every run",
               "os.read / select deliver the written bytes in order (pipe semantics)",
               "lone surrogates (undecodable bytes under surrogateescape) reach the parser only in the decoder-level "
               "model (code points as Nat); the parser model works on Unicode scalar values"]
PARTIAL_SCOPE = ["Win32 input, typeahead, raw/cooked mode and the event-loop attachment are out of scope",
                 "decoding of *streams* of several sequences is proved lossless and chunk-independent; that each "
                 "token of a stream is the longest possible one is proved for a single table sequence / report "
                 "followed by a flush (as the property states), not for every token inside a longer stream",
                 "os.read returning at most 1024 bytes per call and EOF/OSError handling of PosixStdinReader.read "
                 "are driven (pipe cases) but not modelled"]

ESC = "\x1b"
PASTE_START = "\x1b[200~"
PASTE_END = "\x1b[201~"
ALPHA13 = [ESC, "[", "1", ";", "M", "<", "O", "A", "~", "2", "0", "R", "a"]
ALPHA6 = [ESC, "[", "2", "0", "~", "1"]
ALPHA4 = [ESC, "[", "1", "~"]
RE_FULL = [ESC, "[", "1", ";", "M", "m", "<", "R", "\n", "a", "٣", "~"]
RE_BODY = ["1", ";", "M", "m", "<", "R", "\n", "a", "٣", "~"]


# ------------------------------------------------------------------ real code
def key_name(k) -> str:
    return k.value if isinstance(k, Keys) else k


class Real:
    """A real Vt100Parser with a recording callback."""

    def __init__(self):
        self.keys = []
        self.p = Vt100Parser(self.keys.append)

    def take(self):
        out = [(key_name(k.key), k.data) for k in self.keys]
        del self.keys[:]
        return out

    def prefix(self) -> str:
        return self.p._input_parser.gi_frame.f_locals["prefix"]

    def state(self):
        return (bool(self.p._in_bracketed_paste), getattr(self.p, "_paste_buffer", ""), self.prefix())

    def apply(self, op):
        if op[0] == "feed":
            self.p.feed(op[1])
        elif op[0] == "flush":
            self.p.flush()
        else:
            raise ValueError(op)


def fmt(keys, st) -> str:
    ks = "".join(f" {enc_str(k)} {enc_str(d)}" for k, d in keys)
    return f"{len(keys)}{ks} | {int(st[0])} {enc_str(st[1])} {enc_str(st[2])}"


def compositions(s: str):
    """all ways of cutting s into non-empty successive chunks"""
    n = len(s)
    if n == 0:
        yield []
        return
    for mask in range(1 << (n - 1)):
        out, last = [], 0
        for i in range(1, n):
            if mask >> (i - 1) & 1:
                out.append(s[last:i])
                last = i
        out.append(s[last:])
        yield out


def schedules(case):
    """list of op lists (each run from a fresh parser) for a case"""
    k = case["k"]
    if k == "ops":
        return [case["ops"]]
    s = case["s"]
    m = case["m"]
    if m == "cf":
        return [[["feed", c] for c in s] + [["flush"]]]
    if m == "fs":
        return [[["feed", s[:i]], ["flush"], ["feed", s[i:]], ["flush"]] for i in range(len(s) + 1)]
    if m == "ch":
        return [[["feed", c] for c in comp] + [["flush"]] for comp in compositions(s)]
    raise ValueError(case)


def op_line(op) -> str:
    return "flush" if op[0] == "flush" else "feed " + enc_str(op[1])


RE_OPS = ["cpr", "mouse", "cprp", "mousep", "pfx", "match"]


def model_lines(case):
    k = case["k"]
    if k == "re":
        return [f"{o} {enc_str(s)}" for s in case["strs"] for o in RE_OPS]
    if k == "pipe":
        data = case["s"].encode("utf-8")
        return ["reset"] + ["read " + enc_bytes(p) for p in pipe_pieces(data, case["cuts"])] + ["bflush"]
    if k == "dec":
        return ["reset"] + ["dec " + enc_bytes(bytes(c)) for c in case["chunks"]]
    out = []
    for ops in schedules(case):
        out.append("reset")
        out += [op_line(op) for op in ops]
    return out


def re_lines(s: str):
    m = Vt100Parser(lambda k: None)._get_match(s)
    if m is None:
        names = []
    elif isinstance(m, tuple):
        names = [key_name(x) for x in m]
    else:
        names = [key_name(m)]
    return [
        str(int(bool(VP._cpr_response_re.match(s)))),
        str(int(bool(VP._mouse_event_re.match(s)))),
        str(int(bool(VP._cpr_response_prefix_re.match(s)))),
        str(int(bool(VP._mouse_event_prefix_re.match(s)))),
        str(int(bool(VP._IS_PREFIX_OF_LONGER_MATCH_CACHE[s]))),
        " ".join([str(len(names))] + [enc_str(n) for n in names]),
    ]


def enc_bytes(b: bytes) -> str:
    return "s:" + ",".join(str(x) for x in b)


def pipe_pieces(data: bytes, cuts):
    """the successive os.read results: data cut at the given byte offsets (and at 1024, the size
    read_keys asks for)"""
    cs = [0] + sorted(set(c for c in cuts if 0 < c < len(data))) + [len(data)]
    out = []
    for a, b in zip(cs, cs[1:]):
        piece = data[a:b]
        for off in range(0, len(piece), 1024):
            out.append(piece[off:off + 1024])
    return out


def pipe_run(case):
    """Vt100Input over a real pipe: the UTF-8 bytes of the stream written in pieces cut at the
    given byte offsets, read_keys() after every piece, flush_keys() at the end.
    -> list of (keys, parser state, decoder buffer) per read, then the same for the flush"""
    from prompt_toolkit.input import create_pipe_input

    data = case["s"].encode("utf-8")
    steps = []
    with create_pipe_input() as inp:
        p = inp.vt100_parser

        def snap(keys):
            st = (bool(p._in_bracketed_paste), getattr(p, "_paste_buffer", ""),
                  p._input_parser.gi_frame.f_locals["prefix"])
            return ([(key_name(k.key), k.data) for k in keys], st,
                    bytes(inp.stdin_reader._stdin_decoder.getstate()[0]))

        for piece in pipe_pieces(data, case["cuts"]):
            inp.send_bytes(piece)
            steps.append(snap(inp.read_keys()))
        steps.append(snap(inp.flush_keys()))
    return steps


def dec_run(chunks):
    """the real PosixStdinReader on a real pipe: one os.write + one read() per chunk
    -> list of (text, decoder buffer)"""
    from prompt_toolkit.input.posix_utils import PosixStdinReader

    r, w = os.pipe()
    try:
        reader = PosixStdinReader(r)
        out = []
        for c in chunks:
            os.write(w, bytes(c))
            text = reader.read()
            out.append((text, bytes(reader._stdin_decoder.getstate()[0])))
        return out
    finally:
        os.close(r)
        os.close(w)


def impl_lines(case):
    k = case["k"]
    if k == "re":
        out = []
        for s in case["strs"]:
            out += re_lines(s)
        return out
    if k == "pipe":
        return ["ok"] + [fmt(keys, st) + " " + enc_bytes(buf) for keys, st, buf in pipe_run(case)]
    if k == "dec":
        return ["ok"] + [enc_str(t) + " " + enc_bytes(buf) for t, buf in dec_run(case["chunks"])]
    out = []
    for ops in schedules(case):
        r = Real()
        out.append("ok")
        for op in ops:
            r.apply(op)
            out.append(fmt(r.take(), r.state()))
    return out


# ------------------------------------------------------------------ oracle
def run_real(ops):
    """-> (all key presses, final state, list of (prefix after each flush))"""
    r = Real()
    keys, after_flush = [], []
    for op in ops:
        r.apply(op)
        keys += r.take()
        if op[0] == "flush":
            after_flush.append(r.state())
    return keys, r.state(), after_flush


def normalise(ops):
    """same stream, same flush positions, but (a) one feed per run of feeds, (b) one feed per char"""
    merged, chars = [], []
    cur = None
    for op in ops:
        if op[0] == "feed":
            cur = (cur or "") + op[1]
        else:
            if cur is not None:
                merged.append(["feed", cur])
                chars += [["feed", c] for c in cur]
                cur = None
            merged.append(["flush"])
            chars.append(["flush"])
    if cur is not None:
        merged.append(["feed", cur])
        chars += [["feed", c] for c in cur]
    return merged, chars


def reconstruct(keys, st) -> str:
    """the stream the key presses + pending state account for (the property's 'every character is
    carried by exactly one key press, in order; paste content verbatim as one paste event')"""
    out = []
    for k, d in keys:
        if k == Keys.BracketedPaste.value:
            out.append(PASTE_START + d + PASTE_END)
        else:
            out.append(d)
    in_paste, paste, prefix = st
    if in_paste:
        out.append(PASTE_START + paste)
        out.append(prefix)  # must be empty; shows up as a difference otherwise
    else:
        out.append(prefix)
    return "".join(out)


import re as _re

# independent description of complete reports (ASCII digits only), not taken from the source
_CPR_RE = _re.compile(r"\x1b\[[0-9]+;[0-9]+R\Z")
_MOUSE_RE = _re.compile(r"\x1b\[(M[^\n]{3}|<?[0-9]+;[0-9]+;[0-9]+[mM])\Z")


def check_schedule(ops, v):
    def bad(site, cond, msg):
        v.append({"signature": f"{site} | {cond}", "msg": f"{msg}: ops={ops!r}"})

    stream = "".join(op[1] for op in ops if op[0] == "feed")
    keys, st, after_flush = run_real(ops)
    merged, chars = normalise(ops)
    k2, st2, _ = run_real(merged)
    k3, st3, _ = run_real(chars)
    if (keys, st) != (k2, st2) or (keys, st) != (k3, st3):
        bad("Vt100Parser.feed", "chunking changes keys",
            f"keys/state depend on the read boundaries: given={keys, st} merged={k2, st2} per-char={k3, st3}")
    rec = reconstruct(keys, st)
    if rec != stream:
        bad("Vt100Parser", "input not reconstructible from key data",
            f"stream={stream!r} reconstructed={rec!r} keys={keys!r} state={st!r}")
    for fs in after_flush:
        if fs[2] != "":
            bad("Vt100Parser.flush", "prefix left after flush", f"state after flush={fs!r}")
        if not fs[0] and fs[1] != "":
            bad("Vt100Parser.flush", "paste buffer outside paste mode", f"state after flush={fs!r}")
    if st[0] and st[2] != "":
        bad("Vt100Parser.feed", "prefix pending inside bracketed paste", f"state={st!r}")
    only_feeds_then_flush = (len(ops) >= 1 and ops[-1][0] == "flush" and all(o[0] == "feed" for o in ops[:-1]))
    if only_feeds_then_flush and stream not in ANSI_SEQUENCES:
        exp = None
        if _CPR_RE.match(stream):
            exp = [(Keys.CPRResponse.value, stream)]
        elif _MOUSE_RE.match(stream):
            exp = [(Keys.Vt100MouseEvent.value, stream)]
        if exp is not None and keys != exp:
            bad("Vt100Parser._get_match", "complete CPR/mouse report not decoded to one key",
                f"report={stream!r} expected={exp!r} got={keys!r}")
    # a complete table sequence alone, then flush: exactly its keys, data on the first
    if only_feeds_then_flush and stream in ANSI_SEQUENCES:
        val = ANSI_SEQUENCES[stream]
        names = [key_name(x) for x in (val if isinstance(val, tuple) else (val,))]
        if Keys.BracketedPaste.value in names:
            exp = []
        else:
            exp = [(n, stream if i == 0 else "") for i, n in enumerate(names)]
        if keys != exp:
            bad("Vt100Parser._get_match", "table sequence not decoded to its keys",
                f"sequence={stream!r} expected={exp!r} got={keys!r}")


def oracle(case):
    v = []
    k = case["k"]
    if k == "re":
        return v
    if k == "pipe":
        steps = pipe_run(case)
        keys = [x for ks, _, _ in steps for x in ks]
        st2, buf2 = steps[-1][1], steps[-1][2]
        ref, rst, _ = run_real([["feed", case["s"]], ["flush"]])
        if keys != ref or st2 != rst or buf2 != b"":
            v.append({"signature": "Vt100Input.read_keys | byte chunking changes keys",
                      "msg": f"s={case['s']!r} cuts={case['cuts']} pipe={keys, st2, buf2} direct={ref, rst}"})
        if st2[2] != "":
            v.append({"signature": "Vt100Parser.flush | prefix left after flush", "msg": f"pipe state={st2!r}"})
        return v
    if k == "dec":
        # chunk independence of the reader: same text and same pending bytes as one read of everything
        chunks = case["chunks"]
        whole = [x for c in chunks for x in c]
        if 0 < len(whole) <= 1024:
            got = dec_run(chunks)
            one = dec_run([whole])
            if ("".join(t for t, _ in got), got[-1][1]) != one[0]:
                v.append({"signature": "PosixStdinReader.read | byte chunking changes text",
                          "msg": f"chunks={chunks} chunked={got!r} whole={one!r}"})
            # nothing is lost: text (surrogateescape round trip) + pending bytes == the bytes written
            back = "".join(t for t, _ in got).encode("utf-8", "surrogateescape") + got[-1][1]
            if back != bytes(whole):
                v.append({"signature": "PosixStdinReader.read | bytes lost or altered",
                          "msg": f"chunks={chunks} round trip={back!r}"})
        return v
    for ops in schedules(case):
        check_schedule(ops, v)
    seen, out = set(), []
    for x in v:
        if x["signature"] not in seen:
            seen.add(x["signature"])
            out.append(x)
    return out


# ------------------------------------------------------------------ generators
def all_strings(alpha, n):
    for tup in itertools.product(alpha, repeat=n):
        yield "".join(tup)


def batched(it, n):
    buf = []
    for x in it:
        buf.append(x)
        if len(buf) == n:
            yield buf
            buf = []
    if buf:
        yield buf


def rand_cpr(rng):
    d = lambda: "".join(rng.choice("0123456789") for _ in range(rng.randrange(1, 4)))
    return f"\x1b[{d()};{d()}R"


def rand_mouse(rng):
    k = rng.randrange(3)
    if k == 0:
        return "\x1b[M" + "".join(rng.choice(["a", " ", "!", "\x7f", "B", "*", "\x1b", "é", "\n"]) for _ in range(3))
    n = lambda: str(rng.randrange(0, 300))
    body = f"{n()};{n()};{n()}" + rng.choice("mM")
    return "\x1b[" + ("<" if k == 1 else "") + body


TABLE_KEYS = list(ANSI_SEQUENCES.keys())
PRINTABLE = list("abcXYZ019 ;[]<>~mMROP") + ["é", "世", "\U0001f600", "٣", "́", "\xa0", "\x9b", "\x7f"]
CONTROL = [chr(i) for i in range(32)]


def rand_token(rng):
    k = rng.randrange(16)
    if k <= 3:
        return rng.choice(TABLE_KEYS)
    if k == 4:
        return rand_cpr(rng)
    if k == 5:
        return rand_mouse(rng)
    if k == 6:  # truncated report / key
        t = rng.choice([rand_cpr(rng), rand_mouse(rng), rng.choice(TABLE_KEYS)])
        return t[: rng.randrange(0, len(t) + 1)]
    if k == 7:  # malformed: a report with a foreign character spliced in
        t = rng.choice([rand_cpr(rng), rand_mouse(rng), rng.choice(TABLE_KEYS)])
        i = rng.randrange(0, len(t) + 1)
        return t[:i] + rng.choice(PRINTABLE + CONTROL + [ESC]) + t[i:]
    if k == 8:  # complete paste block
        body = "".join(rng.choice(PRINTABLE + CONTROL + [ESC, "\x1b[201", "\x1b[200~", "\x1b[A"])
                       for _ in range(rng.randrange(0, 8)))
        return PASTE_START + body + PASTE_END
    if k == 9:
        return rng.choice([PASTE_START, PASTE_END, PASTE_START[:-1], PASTE_END[:-1], "\x1b[20", "\x1b[2"])
    if k == 10:
        return ESC
    if k == 11:
        return rng.choice(CONTROL)
    if k == 12:
        return rng.choice(["\x1b[", "\x1bO", "\x1b[1;", "\x1b[<", "\x1b[M", "\x1b\x1b", "\x1b[1", "\x1b[M\x1b", "\x1b[1;5"])
    return "".join(rng.choice(PRINTABLE) for _ in range(rng.randrange(1, 5)))


def rand_stream(rng, ntok):
    return "".join(rand_token(rng) for _ in range(ntok))


def rand_ops(rng, s):
    """cut s into random reads, with random flushes"""
    ops = []
    i = 0
    mode = rng.randrange(4)
    while i < len(s):
        if mode == 0:
            n = 1
        elif mode == 1:
            n = rng.randrange(1, 4)
        elif mode == 2:
            n = rng.randrange(1, 12)
        else:
            n = rng.choice([1, 2, 3, 5, 8, 40])
        ops.append(["feed", s[i:i + n]])
        i += n
        if rng.random() < 0.25:
            ops.append(["flush"])
    if rng.random() < 0.8:
        ops.append(["flush"])
    if rng.random() < 0.05:
        ops.insert(rng.randrange(0, len(ops) + 1), ["feed", ""])
    return ops


def cases(tier, rng):
    quick = tier == "quick"
    # 1. regex recognisers vs re, prefix-of-longer, get_match: all short strings
    nfull = 3 if quick else 4
    nbody = 4 if quick else 5
    strs = []
    for n in range(nfull + 1):
        strs += list(all_strings(RE_FULL, n))
    for n in range(nbody + 1):
        strs += ["\x1b[" + b for b in all_strings(RE_BODY, n)]
    for k in TABLE_KEYS:  # every table key, every proper prefix, every key + one symbol
        strs += [k[:i] for i in range(1, len(k) + 1)]
        strs += [k + a for a in ALPHA13]
    for b in batched(strs, 400):
        yield {"k": "re", "strs": b}
    # 2. parser, exhaustive small scope
    ncf = 4 if quick else 5
    nfs = 3 if quick else 4
    for n in range(ncf + 1):
        for s in all_strings(ALPHA13, n):
            yield {"k": "x", "s": s, "m": "cf"}
            if n <= nfs:
                yield {"k": "x", "s": s, "m": "fs"}
                if n >= 2:
                    yield {"k": "x", "s": s, "m": "ch"}
    if not quick:
        for s in all_strings(ALPHA6, 5):
            yield {"k": "x", "s": s, "m": "ch"}
        for s in all_strings(ALPHA4, 6):
            yield {"k": "x", "s": s, "m": "ch"}
    # paste blocks: every chunking of start+body+end+tail for short bodies
    for body in ["", "a", "\x1b", "\x1b[201", "a\x1b[200~"]:
        for tail in ["", "\x1b", "b"]:
            s = PASTE_START + body + PASTE_END + tail
            if len(s) <= (14 if quick else 18):
                yield {"k": "x", "s": s, "m": "ch"}
            yield {"k": "x", "s": s, "m": "fs"}
            yield {"k": "x", "s": s, "m": "cf"}
    # 3. every table key alone and followed by each alphabet symbol
    for k in TABLE_KEYS:
        yield {"k": "x", "s": k, "m": "cf"}
        yield {"k": "x", "s": k, "m": "fs"}
        yield {"k": "ops", "ops": [["feed", k], ["flush"]]}
        for a in ALPHA13 + ["\n"]:
            yield {"k": "x", "s": k + a, "m": "cf"}
            yield {"k": "ops", "ops": [["feed", k + a], ["flush"]]}
    # 3b. complete CPR / mouse reports alone: every chunking, flush at every split
    reports = ["\x1b[1;1R", "\x1b[24;80R", "\x1b[0;0R", "\x1b[Mabc", "\x1b[M !\x7f", "\x1b[M\x1b[M", "\x1b[MMMM",
               "\x1b[<0;1;2M", "\x1b[<64;85;12m", "\x1b[96;14;13M", "\x1b[1;2;3m", "\x1b[;M", "\x1b[<;m",
               "\x1b[1M", "\x1b[٣;٣R"]
    for s in reports:
        yield {"k": "x", "s": s, "m": "cf"}
        yield {"k": "x", "s": s, "m": "fs"}
        if len(s) <= (9 if quick else 13):
            yield {"k": "x", "s": s, "m": "ch"}
        for a in ALPHA13 + ["\n"]:
            yield {"k": "x", "s": s + a, "m": "cf"}
    for _ in range(200 if quick else 3000):
        s = rng.choice([rand_cpr, rand_mouse])(rng)
        yield {"k": "x", "s": s, "m": "cf"}
        yield {"k": "ops", "ops": [["feed", s], ["flush"]]}
    # 4. random streams, random reads and flushes
    nrand = 4000 if quick else 60000
    for _ in range(nrand):
        s = rand_stream(rng, rng.choice([1, 2, 3, 5, 8, 20]))
        yield {"k": "ops", "ops": rand_ops(rng, s)}
    # 4b. the incremental UTF-8 decoder under PosixStdinReader.read (arbitrary bytes)
    yield from dec_cases(tier, rng)
    # 5. through Vt100Input on a real pipe, bytes cut at random offsets (also inside UTF-8 sequences)
    npipe = 300 if quick else 6000
    for _ in range(npipe):
        s = rand_stream(rng, rng.choice([1, 2, 4, 8, 30]))
        nb = len(s.encode("utf-8"))
        cuts = sorted(rng.randrange(0, nb + 1) for _ in range(rng.choice([0, 1, 2, 5, nb])))
        yield {"k": "pipe", "s": s, "cuts": cuts}


U8_ALPHA = [0x41, 0x1b, 0x80, 0x8f, 0x90, 0x9f, 0xa0, 0xbf, 0xc1, 0xc2, 0xdf, 0xe0, 0xe1, 0xed, 0xee, 0xf0,
            0xf1, 0xf4, 0xf5, 0xff]


def dec_cases(tier, rng):
    """decoder level: every byte string over U8_ALPHA up to the bound, (a) in one read, (b) one
    byte per read; random longer byte strings with random cuts"""
    quick = tier == "quick"
    n1 = 3 if quick else 4
    for n in range(1, n1 + 1):
        for grp in batched(itertools.product(U8_ALPHA, repeat=n), 50):
            # several independent strings per case would share decoder state: one case per string
            for tup in grp:
                yield {"k": "dec", "chunks": [list(tup)]}
                if n >= 2:
                    yield {"k": "dec", "chunks": [[b] for b in tup]}
                    if n == 3:
                        yield {"k": "dec", "chunks": [list(tup[:1]), list(tup[1:])]}
                        yield {"k": "dec", "chunks": [list(tup[:2]), list(tup[2:])]}
    for _ in range(400 if quick else 20000):
        kind = rng.randrange(3)
        if kind == 0:  # valid text, cut anywhere
            data = list(rand_stream(rng, rng.choice([1, 3, 8])).encode("utf-8"))
        elif kind == 1:  # arbitrary bytes
            data = [rng.choice(U8_ALPHA + [rng.randrange(256)]) for _ in range(rng.randrange(1, 12))]
        else:  # valid text with damaged bytes
            data = list(rand_stream(rng, rng.choice([1, 3, 8])).encode("utf-8"))
            for _ in range(rng.randrange(1, 4)):
                if data:
                    data[rng.randrange(len(data))] = rng.choice(U8_ALPHA)
        if not data:
            continue
        cuts = sorted(set(rng.randrange(1, len(data) + 1) for _ in range(rng.choice([0, 1, 2, 5, len(data)]))))
        cs = [0] + [c for c in cuts if c < len(data)] + [len(data)]
        yield {"k": "dec", "chunks": [data[a:b] for a, b in zip(cs, cs[1:]) if b > a]}


def sample_view(case):
    if case["k"] == "re":
        return {"k": "re", "strs": case["strs"][:5] + [f"... {len(case['strs'])} strings"]}
    return case


def nontrivial(case):
    if case["k"] == "re":
        return True
    if case["k"] == "ops":
        return any(ESC in op[1] for op in case["ops"] if op[0] == "feed")
    if case["k"] == "dec":
        return any(b >= 0x80 for c in case["chunks"] for b in c)
    return ESC in case["s"]


def distribution(cases):
    d = {"kind": {}, "stream_len": {}, "flushes": {}, "re_strings": 0}
    for c in cases:
        kind = c["k"] + (":" + c["m"] if c["k"] == "x" else "")
        d["kind"][kind] = d["kind"].get(kind, 0) + 1
        if c["k"] == "re":
            d["re_strings"] += len(c["strs"])
            continue
        if c["k"] == "dec":
            n = sum(len(x) for x in c["chunks"])
        elif c["k"] == "ops":
            n = sum(len(op[1]) for op in c["ops"] if op[0] == "feed")
            f = sum(1 for op in c["ops"] if op[0] == "flush")
            fk = str(f) if f < 4 else "4+"
            d["flushes"][fk] = d["flushes"].get(fk, 0) + 1
        else:
            n = len(c["s"])
        key = str(n) if n < 8 else "8-31" if n < 32 else "32+"
        d["stream_len"][key] = d["stream_len"].get(key, 0) + 1
    return d


if __name__ == "__main__":
    sys.exit(core.main(sys.modules[__name__]))
