#!/venv/bin/python
"""C03 — terminal input decoding: correspondence with Ptk.Model.C03 + property oracle."""
from __future__ import annotations

import itertools
import os
import sys

sys.path.insert(0, os.path.dirname(os.path.abspath(__file__)))
import core
from core import enc_str

from prompt_toolkit.input import vt100_parser as VP
from prompt_toolkit.input.ansi_escape_sequences import ANSI_SEQUENCES
from prompt_toolkit.input.vt100_parser import Vt100Parser
from prompt_toolkit.keys import Keys

ID = "C03"
DRIVER = "drv_c03"
PROPS = ["Ptk.Props.C03"]  # imports (and so audits) C03Lemmas, C03Lossless, C03Decode, C03Utf8, C03Spec, C03Struct,
# C03Shift, C03Refine, C03Gen2
LEVEL_TEXT = ("Lean 4 theorems over an executable model of Vt100Parser (prefix/longest-match coroutine with its retry "
              "loop - a `for` without `break` - and persistent flush flag, prefix-of-longer-match predicate incl. CPR/"
              "mouse recognisers and the dict that caches it, _call_handler with tuple keys and data, paste fast path "
              "with re-feed), of the read path below it (incremental UTF-8 decoder with surrogateescape, "
              "PosixStdinReader.read with select / os.read of at most `count`=1024 bytes / EOF / OSError / `closed`, "
              "Vt100Input.read_keys / flush_keys / closed) and of the typeahead store. REFINEMENT: for every table "
              "satisfying two sets of decidable side conditions, every stream and every way of cutting it into reads, "
              "feed* + flush computes exactly a declarative maximal-munch tokenisation of the WHOLE stream (a plain "
              "recursive function: next token = the longest prefix of what is left that is a table sequence / CPR / "
              "mouse report, proved to be the longest; else one raw character; ESC[200~ ... ESC[201~ = one verbatim "
              "paste press; an unterminated paste stays open) - also segment by segment between flush timeouts, and "
              "end to end, for every codec modelled, from the bytes waiting on the descriptor through reads of at "
              "most 1024 bytes to the spec on the text these bytes spell in the encoding the input was created with, "
              "also up to EOF; for every single-byte table every byte is exactly one character and nothing is ever "
              "pending. Chunk independence (character and byte streams, flushes at fixed positions), losslessness "
              "(input = data of the key presses + pending prefix/paste), 'flush empties the prefix', 'every table "
              "sequence / CPR / mouse report decodes to its key(s) as one press, data on the first', the meta prefix "
              "(ESC + char = two presses) and raw / control characters inside a stream are proved directly and "
              "follow from the refinement; `closed` is set exactly on EOF or a dead descriptor and nothing is "
              "delivered after it; the prefix cache is a pure memo of the predicate; get_typeahead returns exactly "
              "what was stored for that input since its last get/clear, once. The side conditions are re-decided by "
              "the kernel on ANSI_SEQUENCES regenerated from /repo on every run; the regex patterns, the read count, "
              "the paste end mark and the decoder's error mode are pinned against the tree. The models are tied to "
              "/repo by a recogniser-vs-re differential and a differential correspondence (exhaustive small scope + "
              "seeded random) on Vt100Parser (state after every feed/flush), on the spec vs the real parser, on "
              "PosixStdinReader and Vt100Input over real pipes (inputs longer than 1024 bytes, every offset of the "
              "1024/2048 boundary inside characters / sequences / paste marks, EOF, descriptor closed under the "
              "reader), on typeahead.py and on _IsPrefixOfLongerMatchCache")
LEVEL_NOTE = ("trusted: Lean kernel, axioms propext/Classical.choice/Quot.sound only; the hand-written models "
              "(validated by the correspondence, not proved equal to the Python); the kernel side of the file "
              "descriptor is modelled as 'os.read hands out min(available, count) bytes' (pipe / tty semantics); "
              "CPython str/re/codecs/dict semantics")
RULE = ("exhaustive: every string over a 13-symbol alphabet {ESC [ 1 ; M < O A ~ 2 0 R a} up to the tier's bound, "
        "fed character by character with the full parser state compared after every character and after a final "
        "flush; for the shorter strings additionally a flush at every split point and every chunking; every "
        "ANSI_SEQUENCES key and sample CPR/mouse reports alone and followed by every alphabet symbol; the four "
        "regexes vs the recognisers on all short strings; the SPEC (maximal-munch tokenisation) and the longest "
        "recognised prefix vs the real parser / _get_match on every string over the 14-symbol alphabet (with "
        "newline) up to the bound, on ESC[M + every string over {ESC \\n a [ A TAB} up to length 4, on every table "
        "key followed by ESC..., and segment by segment on every random schedule; every byte string over 20 representative byte "
        "values up to the bound through the real PosixStdinReader (whole / per byte / len 3: every 2-split); 4 "
        "short valid streams cut into writes at every (pair of) byte offset(s) with reads interleaved in every "
        "pattern and 5 endings (drain / EOF / descriptor closed under the reader / mixed) plus a mid-stream flush; "
        "the 1024- and 2048-byte boundary at every offset inside 9 probe sequences and inside the paste start / "
        "end marks; every typeahead op sequence up to the bound over 2 inputs; every cache lookup sequence up to "
        "the bound over 8 prefixes; then seeded random streams mixing table keys, CPR / mouse reports (complete, "
        "truncated, malformed), paste blocks, control, printable, non-BMP characters, cut into random reads with "
        "random flushes, random (also invalid) byte strings with random cuts, valid streams (also > 1024 bytes, "
        "also inside long pastes) through Vt100Input on a real pipe with random writes / reads / flushes / EOF / "
        "closed descriptor; a real Vt100Input on a stdin object of each of 6 encodings over an os.pipe: 12 "
        "short byte streams with bytes 0x80-0xFF in every chunking plus random byte strings (streams with bytes "
        "that are not characters of the encoding go through the reader level), and an unknown encoding; random "
        "typeahead and cache op sequences. A case is non-trivial when its stream "
        "contains ESC (bytes: a byte >= 0x80; fd: something is written and read; ta: something is stored)")
EXHAUSTIVE = True
EXHAUSTIVE_SCOPE = {
    "quick": "13-symbol alphabet: len<=4 char-by-char+flush; len<=3 flush at every split and all chunkings; "
             "spec: 14-symbol alphabet len<=4, X10 payloads len<=4; regex differential: full alphabet len<=3, CSI "
             "bodies len<=4; bytes: 20 values, len<=3; fd: 4 streams x all 1-cuts (2-cuts for streams <= 8 bytes) x "
             "all read patterns x 5 endings, 1024/2048 boundary x 9 probes x every offset; typeahead: 8 ops, len<=4; "
             "cache: 8 prefixes, len<=3",
    "thorough": "13-symbol alphabet: len<=5 char-by-char+flush; len<=4 flush at every split and all chunkings; "
                "6-symbol alphabet len 5 and 4-symbol alphabet len 6 all chunkings; spec: 14-symbol alphabet len<=5; "
                "regex differential: full alphabet len<=4, CSI bodies len<=5; bytes: 20 values, len<=4; fd: all "
                "1- and 2-cuts; typeahead: len<=5; cache: len<=4"}
TRUSTED = ["harness/c03.py compares (key, data) of every KeyPress and (in_paste, paste_buffer, generator prefix, "
           "decoder buffer, closed) after every feed/flush/read",
           "Ptk/Model/C03.lean, C03Spec.lean, C03Utf8.lean, C03Read.lean are hand translations of vt100_parser.py / "
           "the read path / typeahead.py (correspondence-checked); C03Spec.lean is the SPEC and is read, not checked "
           "against anything but the real parser",
           "harness/gen_c03.py prints ANSI_SEQUENCES, the regex patterns, the \\d class, the read count, the ESC "
           "literals of Vt100Parser.feed and the reader's error mode faithfully"]
ASSUMPTIONS = ["CPython str / re / generator / dict semantics", "regex \\d class regenerated from the interpreter",
               "the incremental UTF-8 decoder is CPython runtime: modelled (utf8_decode error classes, "
               "surrogateescape, held-back truncated surrogate) and compared with the real one on every run",
               "os.read(fd, count) returns min(available, count) bytes, b'' at EOF; select reports a descriptor "
               "readable iff data is available or all writers are gone; both raise OSError on a closed descriptor "
               "(driven on real pipes on every run)",
               "lone surrogates (undecodable bytes under surrogateescape) reach the parser only in the decoder/"
               "reader-level model (code points as Nat); the parser model works on Unicode scalar values"]
PARTIAL_SCOPE = ["Win32 input, raw/cooked mode and the event-loop attachment (_attached_input, callback_wrapper "
                 "removing the reader once closed) are out of scope",
                 "the refinement theorem is stated for tables satisfying wf + wf2 (re-decided on the current table): "
                 "a table in which a multi-character sequence is a proper prefix of another one, contains a second "
                 "ESC, or in which ESC \\n is a sequence would make the parser deviate from maximal munch (its `for` "
                 "loop has no `break`) and is reported as a broken obligation, not as a theorem",
                 "OSError out of os.read on a healthy descriptor (EINTR/SIGWINCH: `data = b''`) is modelled only "
                 "together with the dead descriptor; the Application's use of the typeahead store (store on exit, "
                 "feed on start) is not modelled, only the store itself",
                 "encodings: UTF-8 and five single-byte code pages are modelled; other multi-byte encodings (utf-16, "
                 "gbk, shift_jis ...) are not (codecOf answers none, cases are not generated); the isatty warning "
                 "of Vt100Input.__init__ is not modelled",
                 "bytes that are still an incomplete UTF-8 sequence at EOF stay in the decoder and are never "
                 "delivered (modelled and driven as it is; they are not 'characters' in the property's sense)"]
ANCHORS = ["src/prompt_toolkit/input/vt100_parser.py", "src/prompt_toolkit/input/ansi_escape_sequences.py",
           "src/prompt_toolkit/input/vt100.py", "src/prompt_toolkit/input/posix_utils.py",
           "src/prompt_toolkit/input/typeahead.py"]
# functions whose bodies the Lean model follows line by line AND that the correspondence exercises
MODELLED = {
    "src/prompt_toolkit/input/vt100_parser.py": [
        "_IsPrefixOfLongerMatchCache.__missing__", "Vt100Parser._get_match", "Vt100Parser._input_parser_generator",
        "Vt100Parser._call_handler", "Vt100Parser.feed", "Vt100Parser.flush", "Vt100Parser.feed_and_flush",
        "Vt100Parser.reset", "Vt100Parser._start_parser"],
    "src/prompt_toolkit/input/posix_utils.py": ["PosixStdinReader.__init__", "PosixStdinReader.read"],
    "src/prompt_toolkit/input/vt100.py": ["Vt100Input.__init__", "Vt100Input.read_keys", "Vt100Input.flush_keys",
                                          "Vt100Input.closed"],
    "src/prompt_toolkit/input/typeahead.py": ["store_typeahead", "get_typeahead", "clear_typeahead"],
}

ESC = "\x1b"
PASTE_START = "\x1b[200~"
PASTE_END = "\x1b[201~"
ALPHA13 = [ESC, "[", "1", ";", "M", "<", "O", "A", "~", "2", "0", "R", "a"]
ALPHA14 = ALPHA13 + ["\n"]
X10_ALPHA = [ESC, "\n", "a", "[", "A", "\t"]
ALPHA6 = [ESC, "[", "2", "0", "~", "1"]
ALPHA4 = [ESC, "[", "1", "~"]
RE_FULL = [ESC, "[", "1", ";", "M", "m", "<", "R", "\n", "a", "٣", "~"]
RE_BODY = ["1", ";", "M", "m", "<", "R", "\n", "a", "٣", "~"]


# ------------------------------------------------------------------ real code
def key_name(k) -> str:
    return k.value if isinstance(k, Keys) else k


class Real:
    """A real Vt100Parser with a recording callback."""

    def __init__(self):
        self.keys = []
        self.p = Vt100Parser(self.keys.append)

    def take(self):
        out = [(key_name(k.key), k.data) for k in self.keys]
        del self.keys[:]
        return out

    def prefix(self) -> str:
        return self.p._input_parser.gi_frame.f_locals["prefix"]

    def state(self):
        return (bool(self.p._in_bracketed_paste), getattr(self.p, "_paste_buffer", ""), self.prefix())

    def apply(self, op):
        if op[0] == "feed":
            self.p.feed(op[1])
        elif op[0] == "flush":
            self.p.flush()
        else:
            raise ValueError(op)


def fmt(keys, st) -> str:
    ks = "".join(f" {enc_str(k)} {enc_str(d)}" for k, d in keys)
    return f"{len(keys)}{ks} | {int(st[0])} {enc_str(st[1])} {enc_str(st[2])}"


def compositions(s: str):
    """all ways of cutting s into non-empty successive chunks"""
    n = len(s)
    if n == 0:
        yield []
        return
    for mask in range(1 << (n - 1)):
        out, last = [], 0
        for i in range(1, n):
            if mask >> (i - 1) & 1:
                out.append(s[last:i])
                last = i
        out.append(s[last:])
        yield out


def schedules(case):
    """list of op lists (each run from a fresh parser) for a case"""
    k = case["k"]
    if k == "ops":
        return [case["ops"]]
    s = case["s"]
    m = case["m"]
    if m == "cf":
        return [[["feed", c] for c in s] + [["flush"]]]
    if m == "fs":
        return [[["feed", s[:i]], ["flush"], ["feed", s[i:]], ["flush"]] for i in range(len(s) + 1)]
    if m == "ch":
        return [[["feed", c] for c in comp] + [["flush"]] for comp in compositions(s)]
    raise ValueError(case)


def op_line(op) -> str:
    return "flush" if op[0] == "flush" else "feed " + enc_str(op[1])


RE_OPS = ["cpr", "mouse", "cprp", "mousep", "pfx", "match"]


def segments(ops):
    """the stream segments between the flushes of a schedule that is closed by a final flush"""
    segs, cur = [], ""
    for op in ops:
        if op[0] == "feed":
            cur += op[1]
        else:
            segs.append(cur)
            cur = ""
    segs.append(cur)
    return segs


def model_lines(case):
    k = case["k"]
    if k == "re":
        return [f"{o} {enc_str(s)}" for s in case["strs"] for o in RE_OPS]
    if k == "spec":
        return [f"{o} {enc_str(s)}" for s in case["strs"] for o in ("spec", "lm")]
    if k in ("fd", "rd"):
        new = []
        if "enc" in case:  # Vt100Input(stdin with .encoding) / PosixStdinReader(fd, encoding=…)
            new = [("inew " if k == "fd" else "rnew ") + enc_str(case["enc"])]
        return ["reset"] + new + [FD_LINE[op[0]] + (" " + enc_bytes(bytes(op[1])) if op[0] == "w" else "")
                                  for op in case["ops"]]
    if k == "ta":
        out = ["reset"]
        for op in case["ops"]:
            if op[0] == "store":
                out.append(f"tas {enc_str(op[1])} {enc_str(op[2])}")
            else:
                out.append(("tag " if op[0] == "take" else "tac ") + enc_str(op[1]))
        return out
    if k == "pc":
        return ["reset"] + ["pfxc " + enc_str(p) for p in case["strs"]]
    if k == "pipe":
        data = case["s"].encode("utf-8")
        return ["reset"] + ["read " + enc_bytes(p) for p in pipe_pieces(data, case["cuts"])] + ["bflush"]
    if k == "dec":
        return ["reset"] + ["dec " + enc_bytes(bytes(c)) for c in case["chunks"]]
    out = []
    for ops in schedules(case):
        out.append("reset")
        out += [op_line(op) for op in ops]
    if k == "ops":
        # the SPEC on the whole schedule (closed by a flush) vs the real parser (the exhaustive
        # strings of the "x" cases are covered by the "spec" cases, a superset)
        out.append("specsegs " + " ".join(enc_str(x) for x in segments(schedules(case)[0])))
    return out


FD_LINE = {"w": "fdw", "cw": "fdcw", "cr": "fdcr", "rk": "rk", "fk": "fk", "rr": "rr"}


def fd_run(case):
    """kind "fd": a real Vt100Input (PosixPipeInput) on a real pipe.
    ops: ["w", bytes] os.write on the write end; ["cw"] close the write end (EOF);
    ["cr"] close the read end under the reader (select / os.read raise OSError);
    ["rk"] read_keys(); ["fk"] flush_keys()
    -> one entry per op: "ok" or (keys, parser state, decoder buffer, closed)"""
    from prompt_toolkit.input import create_pipe_input

    if "enc" in case:
        return fd_run_enc(case)
    out = []
    with create_pipe_input() as inp:
        p = inp.vt100_parser

        def snap(keys):
            st = (bool(p._in_bracketed_paste), getattr(p, "_paste_buffer", ""),
                  p._input_parser.gi_frame.f_locals["prefix"])
            return ([(key_name(k.key), k.data) for k in keys], st,
                    bytes(inp.stdin_reader._stdin_decoder.getstate()[0]), bool(inp.closed))

        for op in case["ops"]:
            if op[0] == "w":
                inp.send_bytes(bytes(op[1]))
                out.append("ok")
            elif op[0] == "cw":
                inp.close()
                out.append("ok")
            elif op[0] == "cr":
                inp.pipe.close_read()
                out.append("ok")
            elif op[0] == "rk":
                out.append(snap(inp.read_keys()))
            elif op[0] == "fk":
                out.append(snap(inp.flush_keys()))
            else:
                raise ValueError(op)
    return out


class _FakeStdin:
    """a terminal's stdin object: an encoding and a file descriptor"""

    def __init__(self, fd, encoding):
        self._fd = fd
        self.encoding = encoding

    def isatty(self):
        return True

    def fileno(self):
        return self._fd


def fd_run_enc(case):
    """kind "fd" with "enc": a real Vt100Input constructed on a stdin object whose .encoding is
    case["enc"] and whose fileno() is the read end of an os.pipe.  First entry: "ok" or
    "err:LookupError" for the constructor; then as fd_run."""
    from prompt_toolkit.input.vt100 import Vt100Input

    r, w = os.pipe()
    open_r, open_w = True, True
    out = []
    try:
        try:
            inp = Vt100Input(_FakeStdin(r, case["enc"]))
        except LookupError:
            return ["err:LookupError"] + ["bad-op"] * 0
        out.append("ok")
        p = inp.vt100_parser

        def snap(keys):
            st = (bool(p._in_bracketed_paste), getattr(p, "_paste_buffer", ""),
                  p._input_parser.gi_frame.f_locals["prefix"])
            return ([(key_name(k.key), k.data) for k in keys], st,
                    bytes(inp.stdin_reader._stdin_decoder.getstate()[0]), bool(inp.closed))

        for op in case["ops"]:
            if op[0] == "w":
                os.write(w, bytes(op[1]))
                out.append("ok")
            elif op[0] == "cw":
                if open_w:
                    os.close(w)
                    open_w = False
                out.append("ok")
            elif op[0] == "cr":
                if open_r:
                    os.close(r)
                    open_r = False
                out.append("ok")
            elif op[0] == "rk":
                out.append(snap(inp.read_keys()))
            elif op[0] == "fk":
                out.append(snap(inp.flush_keys()))
            else:
                raise ValueError(op)
    finally:
        if open_r:
            os.close(r)
        if open_w:
            os.close(w)
    return out


def rd_run(case):
    """kind "rd": a real PosixStdinReader on a real pipe (arbitrary bytes).  ops w / cw / cr / rr
    -> "ok" or (text, decoder buffer, closed)"""
    from prompt_toolkit.input.posix_utils import PosixStdinReader

    r, w = os.pipe()
    open_r, open_w = True, True
    out = []
    try:
        if "enc" in case:
            reader = PosixStdinReader(r, encoding=case["enc"])
            out.append("ok")
        else:
            reader = PosixStdinReader(r)
        for op in case["ops"]:
            if op[0] == "w":
                os.write(w, bytes(op[1]))
                out.append("ok")
            elif op[0] == "cw":
                if open_w:
                    os.close(w)
                    open_w = False
                out.append("ok")
            elif op[0] == "cr":
                if open_r:
                    os.close(r)
                    open_r = False
                out.append("ok")
            elif op[0] == "rr":
                text = reader.read()
                out.append((text, bytes(reader._stdin_decoder.getstate()[0]), bool(reader.closed)))
            else:
                raise ValueError(op)
    finally:
        if open_r:
            os.close(r)
        if open_w:
            os.close(w)
    return out


class _TAInput:
    """just enough of an Input for typeahead.py"""

    def __init__(self, key):
        self.key = key

    def typeahead_hash(self):
        return self.key


def ta_run(case):
    """kind "ta": the real store_typeahead / get_typeahead / clear_typeahead"""
    from prompt_toolkit.input import typeahead as TA
    from prompt_toolkit.key_binding import KeyPress

    keys = sorted({op[1] for op in case["ops"]})
    for k in keys:
        TA.clear_typeahead(_TAInput(k))
    out = []
    try:
        for op in case["ops"]:
            inp = _TAInput(op[1])
            if op[0] == "store":
                TA.store_typeahead(inp, [KeyPress(c, c) for c in op[2]])
                out.append("ok")
            elif op[0] == "take":
                got = TA.get_typeahead(inp)
                out.append([(key_name(kp.key), kp.data) for kp in got])
            elif op[0] == "clear":
                TA.clear_typeahead(inp)
                out.append("ok")
            else:
                raise ValueError(op)
    finally:
        for k in keys:
            TA.clear_typeahead(_TAInput(k))
    return out


def fmt_presses(ks) -> str:
    return str(len(ks)) + "".join(f" {enc_str(k)} {enc_str(d)}" for k, d in ks)


def real_longest(s: str) -> int:
    """length of the longest prefix of s the real _get_match recognises (0 = none)"""
    p = Vt100Parser(lambda k: None)
    for i in range(len(s), 0, -1):
        if p._get_match(s[:i]):
            return i
    return 0


def real_flushed(ops):
    """a fresh real parser driven through ops + a final flush -> formatted keys / final state"""
    r = Real()
    if len(ops) == 1 and ops[0][0] == "feed":
        r.p.feed_and_flush(ops[0][1])
    else:
        for op in ops:
            r.apply(op)
        r.apply(["flush"])
    return fmt(r.take(), r.state())


def re_lines(s: str):
    m = Vt100Parser(lambda k: None)._get_match(s)
    if m is None:
        names = []
    elif isinstance(m, tuple):
        names = [key_name(x) for x in m]
    else:
        names = [key_name(m)]
    return [
        str(int(bool(VP._cpr_response_re.match(s)))),
        str(int(bool(VP._mouse_event_re.match(s)))),
        str(int(bool(VP._cpr_response_prefix_re.match(s)))),
        str(int(bool(VP._mouse_event_prefix_re.match(s)))),
        str(int(bool(VP._IS_PREFIX_OF_LONGER_MATCH_CACHE[s]))),
        " ".join([str(len(names))] + [enc_str(n) for n in names]),
    ]


def enc_bytes(b: bytes) -> str:
    return "s:" + ",".join(str(x) for x in b)


def pipe_pieces(data: bytes, cuts):
    """the successive os.read results: data cut at the given byte offsets (and at 1024, the size
    read_keys asks for)"""
    cs = [0] + sorted(set(c for c in cuts if 0 < c < len(data))) + [len(data)]
    out = []
    for a, b in zip(cs, cs[1:]):
        piece = data[a:b]
        for off in range(0, len(piece), 1024):
            out.append(piece[off:off + 1024])
    return out


def pipe_run(case):
    """Vt100Input over a real pipe: the UTF-8 bytes of the stream written in pieces cut at the
    given byte offsets, read_keys() after every piece, flush_keys() at the end.
    -> list of (keys, parser state, decoder buffer) per read, then the same for the flush"""
    from prompt_toolkit.input import create_pipe_input

    data = case["s"].encode("utf-8")
    steps = []
    with create_pipe_input() as inp:
        p = inp.vt100_parser

        def snap(keys):
            st = (bool(p._in_bracketed_paste), getattr(p, "_paste_buffer", ""),
                  p._input_parser.gi_frame.f_locals["prefix"])
            return ([(key_name(k.key), k.data) for k in keys], st,
                    bytes(inp.stdin_reader._stdin_decoder.getstate()[0]))

        for piece in pipe_pieces(data, case["cuts"]):
            inp.send_bytes(piece)
            steps.append(snap(inp.read_keys()))
        steps.append(snap(inp.flush_keys()))
    return steps


def dec_run(chunks):
    """the real PosixStdinReader on a real pipe: one os.write + one read() per chunk
    -> list of (text, decoder buffer)"""
    from prompt_toolkit.input.posix_utils import PosixStdinReader

    r, w = os.pipe()
    try:
        reader = PosixStdinReader(r)
        out = []
        for c in chunks:
            os.write(w, bytes(c))
            text = reader.read()
            out.append((text, bytes(reader._stdin_decoder.getstate()[0])))
        return out
    finally:
        os.close(r)
        os.close(w)


def impl_lines(case):
    k = case["k"]
    if k == "re":
        out = []
        for s in case["strs"]:
            out += re_lines(s)
        return out
    if k == "spec":
        out = []
        for s in case["strs"]:
            out += [real_flushed([["feed", s]]), str(real_longest(s))]
        return out
    if k == "fd":
        return ["ok"] + [x if isinstance(x, str) else fmt(x[0], x[1]) + " " + enc_bytes(x[2]) + " " + str(int(x[3]))
                         for x in fd_run(case)]
    if k == "rd":
        return ["ok"] + [x if isinstance(x, str) else enc_str(x[0]) + " " + enc_bytes(x[1]) + " " + str(int(x[2]))
                         for x in rd_run(case)]
    if k == "ta":
        return ["ok"] + [x if x == "ok" else fmt_presses(x) for x in ta_run(case)]
    if k == "pc":
        c = VP._IsPrefixOfLongerMatchCache()
        out = ["ok"]
        for p in case["strs"]:
            hit = p in c
            out.append(f"{int(bool(c[p]))} {int(hit)} {len(c)}")
        return out
    if k == "pipe":
        return ["ok"] + [fmt(keys, st) + " " + enc_bytes(buf) for keys, st, buf in pipe_run(case)]
    if k == "dec":
        return ["ok"] + [enc_str(t) + " " + enc_bytes(buf) for t, buf in dec_run(case["chunks"])]
    out = []
    for ops in schedules(case):
        r = Real()
        out.append("ok")
        for op in ops:
            r.apply(op)
            out.append(fmt(r.take(), r.state()))
    if k == "ops":
        out.append(real_flushed(schedules(case)[0]))
    return out


# ------------------------------------------------------------------ oracle
def run_real(ops):
    """-> (all key presses, final state, list of (prefix after each flush))"""
    r = Real()
    keys, after_flush = [], []
    for op in ops:
        r.apply(op)
        keys += r.take()
        if op[0] == "flush":
            after_flush.append(r.state())
    return keys, r.state(), after_flush


def normalise(ops):
    """same stream, same flush positions, but (a) one feed per run of feeds, (b) one feed per char"""
    merged, chars = [], []
    cur = None
    for op in ops:
        if op[0] == "feed":
            cur = (cur or "") + op[1]
        else:
            if cur is not None:
                merged.append(["feed", cur])
                chars += [["feed", c] for c in cur]
                cur = None
            merged.append(["flush"])
            chars.append(["flush"])
    if cur is not None:
        merged.append(["feed", cur])
        chars += [["feed", c] for c in cur]
    return merged, chars


def reconstruct(keys, st) -> str:
    """the stream the key presses + pending state account for (the property's 'every character is
    carried by exactly one key press, in order; paste content verbatim as one paste event')"""
    out = []
    for k, d in keys:
        if k == Keys.BracketedPaste.value:
            out.append(PASTE_START + d + PASTE_END)
        else:
            out.append(d)
    in_paste, paste, prefix = st
    if in_paste:
        out.append(PASTE_START + paste)
        out.append(prefix)  # must be empty; shows up as a difference otherwise
    else:
        out.append(prefix)
    return "".join(out)


import re as _re

# independent description of complete reports (ASCII digits only), not taken from the source
_CPR_RE = _re.compile(r"\x1b\[[0-9]+;[0-9]+R\Z")
_MOUSE_RE = _re.compile(r"\x1b\[(M[^\n]{3}|<?[0-9]+;[0-9]+;[0-9]+[mM])\Z")


# the recognisers of the SPEC, written down here independently of vt100_parser.py (same languages
# as the two report regexes there: Unicode digits, X10 payload = any three characters but newline)
_SPEC_CPR = _re.compile(r"\x1b\[\d+;\d+R\Z")
_SPEC_MOUSE = _re.compile(r"\x1b\[(?:<?[\d;]+[mM]|M[^\n][^\n][^\n])\Z")


def spec_match(p: str):
    """what a complete sequence decodes to: tuple of key names, () = not a sequence"""
    if _SPEC_CPR.match(p):
        return (Keys.CPRResponse.value,)
    if _SPEC_MOUSE.match(p):
        return (Keys.Vt100MouseEvent.value,)
    v = ANSI_SEQUENCES.get(p)
    if v is None:
        return ()
    return tuple(key_name(x) for x in (v if isinstance(v, tuple) else (v,)))


_MAXKEY = max(len(k) for k in ANSI_SEQUENCES)


def py_spec(s: str, paste=None):
    """maximal-munch tokenisation of a complete stream (the property's 'decode by longest match',
    'every character in exactly one key press', 'paste verbatim as one event').
    paste = text of a bracketed paste that is already open (None = normal mode)
    -> (key presses, open paste text or None)"""
    out = []
    while True:
        if paste is not None:
            buf = paste + s
            j = buf.find(PASTE_END)
            if j < 0:
                return out, buf
            out.append((Keys.BracketedPaste.value, buf[:j]))
            s, paste = buf[j + len(PASTE_END):], None
            continue
        if not s:
            return out, None
        n = 0
        for i in range(len(s), 0, -1):
            # only reports can be longer than the longest table sequence; they end in R, m, M or
            # are exactly 6 characters long
            if i > _MAXKEY and i != 6 and s[i - 1] not in "RmM":
                continue
            if spec_match(s[:i]):
                n = i
                break
        if n == 0:
            out.append((s[0], s[0]))
            s = s[1:]
            continue
        m = spec_match(s[:n])
        if m == (Keys.BracketedPaste.value,):
            s, paste = s[n:], ""
            continue
        out += [(k, s[:n] if i == 0 else "") for i, k in enumerate(m)]
        s = s[n:]


def py_spec_segs(segs):
    keys, paste = [], None
    for seg in segs:
        ks, paste = py_spec(seg, paste)
        keys += ks
    return keys, paste


def check_spec(ops, v):
    """the parser's output for the schedule (closed by a flush) is the maximal-munch tokenisation
    of its segments"""
    r = Real()
    keys = []
    for op in ops + [["flush"]]:
        r.apply(op)
        keys += r.take()
    st = r.state()
    exp_keys, exp_paste = py_spec_segs(segments(ops))
    exp_st = (exp_paste is not None, exp_paste or "", "")
    if keys != exp_keys or st != exp_st:
        v.append({"signature": "Vt100Parser | keys differ from the longest-match tokenisation of the stream",
                  "msg": f"ops={ops!r} (+ final flush): parser={keys, st} expected={exp_keys, exp_st}"})


def check_schedule(ops, v):
    def bad(site, cond, msg):
        v.append({"signature": f"{site} | {cond}", "msg": f"{msg}: ops={ops!r}"})

    stream = "".join(op[1] for op in ops if op[0] == "feed")
    keys, st, after_flush = run_real(ops)
    merged, chars = normalise(ops)
    k2, st2, _ = run_real(merged)
    k3, st3, _ = run_real(chars)
    if (keys, st) != (k2, st2) or (keys, st) != (k3, st3):
        bad("Vt100Parser.feed", "chunking changes keys",
            f"keys/state depend on the read boundaries: given={keys, st} merged={k2, st2} per-char={k3, st3}")
    rec = reconstruct(keys, st)
    if rec != stream:
        bad("Vt100Parser", "input not reconstructible from key data",
            f"stream={stream!r} reconstructed={rec!r} keys={keys!r} state={st!r}")
    for fs in after_flush:
        if fs[2] != "":
            bad("Vt100Parser.flush", "prefix left after flush", f"state after flush={fs!r}")
        if not fs[0] and fs[1] != "":
            bad("Vt100Parser.flush", "paste buffer outside paste mode", f"state after flush={fs!r}")
    if st[0] and st[2] != "":
        bad("Vt100Parser.feed", "prefix pending inside bracketed paste", f"state={st!r}")
    only_feeds_then_flush = (len(ops) >= 1 and ops[-1][0] == "flush" and all(o[0] == "feed" for o in ops[:-1]))
    if only_feeds_then_flush and stream not in ANSI_SEQUENCES:
        exp = None
        if _CPR_RE.match(stream):
            exp = [(Keys.CPRResponse.value, stream)]
        elif _MOUSE_RE.match(stream):
            exp = [(Keys.Vt100MouseEvent.value, stream)]
        if exp is not None and keys != exp:
            bad("Vt100Parser._get_match", "complete CPR/mouse report not decoded to one key",
                f"report={stream!r} expected={exp!r} got={keys!r}")
    # a complete table sequence alone, then flush: exactly its keys, data on the first
    if only_feeds_then_flush and stream in ANSI_SEQUENCES:
        val = ANSI_SEQUENCES[stream]
        names = [key_name(x) for x in (val if isinstance(val, tuple) else (val,))]
        if Keys.BracketedPaste.value in names:
            exp = []
        else:
            exp = [(n, stream if i == 0 else "") for i, n in enumerate(names)]
        if keys != exp:
            bad("Vt100Parser._get_match", "table sequence not decoded to its keys",
                f"sequence={stream!r} expected={exp!r} got={keys!r}")


def oracle(case):
    v = []
    k = case["k"]
    if k == "re":
        return v
    if k == "spec":
        for s in case["strs"]:
            check_spec([["feed", s]], v)
            if v:
                break
        return v
    if k == "fd":
        return oracle_fd(case)
    if k == "rd":
        return oracle_rd(case)
    if k == "ta":
        return oracle_ta(case)
    if k == "pc":
        for p in case["strs"]:
            c = VP._IsPrefixOfLongerMatchCache()
            first, again, fresh = c[p], c[p], VP._IsPrefixOfLongerMatchCache().__missing__(p)
            if not (bool(first) == bool(again) == bool(fresh)):
                v.append({"signature": "_IsPrefixOfLongerMatchCache | cached answer differs from the computed one",
                          "msg": f"prefix={p!r} first={first!r} cached={again!r} computed={fresh!r}"})
        return v
    if k == "pipe":
        steps = pipe_run(case)
        keys = [x for ks, _, _ in steps for x in ks]
        st2, buf2 = steps[-1][1], steps[-1][2]
        ref, rst, _ = run_real([["feed", case["s"]], ["flush"]])
        if keys != ref or st2 != rst or buf2 != b"":
            v.append({"signature": "Vt100Input.read_keys | byte chunking changes keys",
                      "msg": f"s={case['s']!r} cuts={case['cuts']} pipe={keys, st2, buf2} direct={ref, rst}"})
        if st2[2] != "":
            v.append({"signature": "Vt100Parser.flush | prefix left after flush", "msg": f"pipe state={st2!r}"})
        return v
    if k == "dec":
        # chunk independence of the reader: same text and same pending bytes as one read of everything
        chunks = case["chunks"]
        whole = [x for c in chunks for x in c]
        if 0 < len(whole) <= 1024:
            got = dec_run(chunks)
            one = dec_run([whole])
            if ("".join(t for t, _ in got), got[-1][1]) != one[0]:
                v.append({"signature": "PosixStdinReader.read | byte chunking changes text",
                          "msg": f"chunks={chunks} chunked={got!r} whole={one!r}"})
            # nothing is lost: text (surrogateescape round trip) + pending bytes == the bytes written
            back = "".join(t for t, _ in got).encode("utf-8", "surrogateescape") + got[-1][1]
            if back != bytes(whole):
                v.append({"signature": "PosixStdinReader.read | bytes lost or altered",
                          "msg": f"chunks={chunks} round trip={back!r}"})
        return v
    for ops in schedules(case):
        check_schedule(ops, v)
        if k == "ops" or (case.get("m") == "cf" and len(case["s"]) > 5):
            check_spec(ops, v)
    seen, out = set(), []
    for x in v:
        if x["signature"] not in seen:
            seen.add(x["signature"])
            out.append(x)
    return out


def oracle_fd(case):
    """everything written to the descriptor is accounted for: (a) LOSSLESS for every schedule of
    writes / reads / flushes — the data of the key presses (a paste press standing for its two
    marks and its text) plus what is still pending spell exactly the decoded text; (b) with a
    single final flush the keys are exactly those of ONE feed of the whole text + flush, however
    os.read (<= 1024 bytes a time) and the writes cut it.  Judged only when the reader certainly
    got the chance to drain the pipe (no close of the read end, enough reads after the last write)."""
    v = []
    ops = case["ops"]
    if not ops or any(op[0] == "cr" for op in ops) or ops[-1][0] != "fk":
        return v
    written = b"".join(bytes(op[1]) for op in ops if op[0] == "w")
    nreads_after = 0
    for op in reversed(ops[:-1]):
        if op[0] == "rk":
            nreads_after += 1
        elif op[0] == "w":
            break
    if nreads_after * 1024 < len(written):
        return v
    res = fd_run(case)
    if res and res[0] == "err:LookupError":
        return v
    keys = [x for r in res if not isinstance(r, str) for x in r[0]]
    import codecs
    # the text the terminal sent: the bytes in the encoding of the stdin object the input was
    # created with (PosixPipeInput: utf-8)
    dec = codecs.getincrementaldecoder(case.get("enc", "utf-8"))("surrogateescape")
    text = dec.decode(written)
    last = [r for r in res if not isinstance(r, str)][-1]
    rec = reconstruct(keys, last[1])
    if rec != text:
        i = next((j for j, (a, b) in enumerate(zip(rec, text)) if a != b), min(len(rec), len(text)))
        v.append({"signature": "Vt100Input.read_keys | input not reconstructible from key data",
                  "msg": f"ops={_short_ops(ops)}: first difference at character {i}: "
                         f"reconstructed …{rec[max(0, i - 10):i + 10]!r} written …{text[max(0, i - 10):i + 10]!r}"})
    if all(op[0] != "fk" for op in ops[:-1]):
        ref, rst, _ = run_real([["feed", text], ["flush"]])
        if keys != ref or last[1] != rst:
            v.append({"signature": "Vt100Input.read_keys | keys depend on how os.read cuts the byte stream",
                      "msg": f"ops={_short_ops(ops)} pipe={keys[-8:], last[1]} direct={ref[-8:], rst} (last 8 keys shown)"})
    if last[1][2] != "":
        v.append({"signature": "Vt100Parser.flush | prefix left after flush", "msg": f"pipe state={last[1]!r}"})
    return v


def _short_ops(ops):
    return [[op[0], (bytes(op[1]) if len(op[1]) <= 40 else f"<{len(op[1])} bytes: {bytes(op[1][:12])!r}…{bytes(op[1][-12:])!r}>")]
            if op[0] == "w" else op for op in ops]


def oracle_rd(case):
    """reader level: the texts returned, re-encoded, plus the pending bytes are exactly the bytes
    that were written and read (nothing lost, nothing altered, nothing invented)"""
    v = []
    ops = case["ops"]
    if any(op[0] == "cr" for op in ops):
        return v
    res = rd_run(case)
    written = b"".join(bytes(op[1]) for op in ops if op[0] == "w")
    reads = [r for r in res if not isinstance(r, str)]
    if not reads:
        return v
    back = "".join(t for t, _, _ in reads).encode(case.get("enc", "utf-8"), "surrogateescape") + reads[-1][1]
    if not written.startswith(back):
        v.append({"signature": "PosixStdinReader.read | bytes lost or altered",
                  "msg": f"ops={_short_ops(ops)} round trip={back[-40:]!r}"})
    return v


def oracle_ta(case):
    """get_typeahead returns exactly what was stored for that input since its last get/clear"""
    v = []
    exp = {}
    res = ta_run(case)
    for op, got in zip(case["ops"], res):
        if op[0] == "store":
            exp[op[1]] = exp.get(op[1], []) + [(c, c) for c in op[2]]
        elif op[0] == "clear":
            exp[op[1]] = []
        else:
            want = exp.get(op[1], [])
            exp[op[1]] = []
            if got != want:
                v.append({"signature": "get_typeahead | does not return exactly the stored key presses",
                          "msg": f"ops={case['ops']!r} got={got!r} expected={want!r}"})
                break
    return v


# ------------------------------------------------------------------ generators
def all_strings(alpha, n):
    for tup in itertools.product(alpha, repeat=n):
        yield "".join(tup)


def batched(it, n):
    buf = []
    for x in it:
        buf.append(x)
        if len(buf) == n:
            yield buf
            buf = []
    if buf:
        yield buf


def rand_cpr(rng):
    d = lambda: "".join(rng.choice("0123456789") for _ in range(rng.randrange(1, 4)))
    return f"\x1b[{d()};{d()}R"


def rand_mouse(rng):
    k = rng.randrange(3)
    if k == 0:
        return "\x1b[M" + "".join(rng.choice(["a", " ", "!", "\x7f", "B", "*", "\x1b", "é", "\n"]) for _ in range(3))
    n = lambda: str(rng.randrange(0, 300))
    body = f"{n()};{n()};{n()}" + rng.choice("mM")
    return "\x1b[" + ("<" if k == 1 else "") + body


TABLE_KEYS = list(ANSI_SEQUENCES.keys())
PRINTABLE = list("abcXYZ019 ;[]<>~mMROP") + ["é", "世", "\U0001f600", "٣", "́", "\xa0", "\x9b", "\x7f"]
CONTROL = [chr(i) for i in range(32)]


def rand_token(rng):
    k = rng.randrange(16)
    if k <= 3:
        return rng.choice(TABLE_KEYS)
    if k == 4:
        return rand_cpr(rng)
    if k == 5:
        return rand_mouse(rng)
    if k == 6:  # truncated report / key
        t = rng.choice([rand_cpr(rng), rand_mouse(rng), rng.choice(TABLE_KEYS)])
        return t[: rng.randrange(0, len(t) + 1)]
    if k == 7:  # malformed: a report with a foreign character spliced in
        t = rng.choice([rand_cpr(rng), rand_mouse(rng), rng.choice(TABLE_KEYS)])
        i = rng.randrange(0, len(t) + 1)
        return t[:i] + rng.choice(PRINTABLE + CONTROL + [ESC]) + t[i:]
    if k == 8:  # complete paste block
        body = "".join(rng.choice(PRINTABLE + CONTROL + [ESC, "\x1b[201", "\x1b[200~", "\x1b[A"])
                       for _ in range(rng.randrange(0, 8)))
        return PASTE_START + body + PASTE_END
    if k == 9:
        return rng.choice([PASTE_START, PASTE_END, PASTE_START[:-1], PASTE_END[:-1], "\x1b[20", "\x1b[2"])
    if k == 10:
        return ESC
    if k == 11:
        return rng.choice(CONTROL)
    if k == 12:
        return rng.choice(["\x1b[", "\x1bO", "\x1b[1;", "\x1b[<", "\x1b[M", "\x1b\x1b", "\x1b[1", "\x1b[M\x1b", "\x1b[1;5"])
    return "".join(rng.choice(PRINTABLE) for _ in range(rng.randrange(1, 5)))


def rand_stream(rng, ntok):
    return "".join(rand_token(rng) for _ in range(ntok))


def rand_ops(rng, s):
    """cut s into random reads, with random flushes"""
    ops = []
    i = 0
    mode = rng.randrange(4)
    while i < len(s):
        if mode == 0:
            n = 1
        elif mode == 1:
            n = rng.randrange(1, 4)
        elif mode == 2:
            n = rng.randrange(1, 12)
        else:
            n = rng.choice([1, 2, 3, 5, 8, 40])
        ops.append(["feed", s[i:i + n]])
        i += n
        if rng.random() < 0.25:
            ops.append(["flush"])
    if rng.random() < 0.8:
        ops.append(["flush"])
    if rng.random() < 0.05:
        ops.insert(rng.randrange(0, len(ops) + 1), ["feed", ""])
    return ops


def cases(tier, rng):
    quick = tier == "quick"
    # 1. regex recognisers vs re, prefix-of-longer, get_match: all short strings
    nfull = 3 if quick else 4
    nbody = 4 if quick else 5
    strs = []
    for n in range(nfull + 1):
        strs += list(all_strings(RE_FULL, n))
    for n in range(nbody + 1):
        strs += ["\x1b[" + b for b in all_strings(RE_BODY, n)]
    for k in TABLE_KEYS:  # every table key, every proper prefix, every key + one symbol
        strs += [k[:i] for i in range(1, len(k) + 1)]
        strs += [k + a for a in ALPHA13]
    for b in batched(strs, 400):
        yield {"k": "re", "strs": b}
    # 1b. the SPEC (maximal-munch tokenisation of the whole stream) vs the real parser, and the
    #     longest recognised prefix vs the real _get_match: all short strings, the X10 payload
    #     region (ESC / newline inside a truncated mouse report), every table key followed by ESC...
    strs = []
    for n in range((4 if quick else 5) + 1):
        strs += list(all_strings(ALPHA14, n))
    for n in range(5):
        strs += ["\x1b[M" + w for w in all_strings(X10_ALPHA, n)]
    for k in TABLE_KEYS:
        strs += [k + ESC, k + ESC + "[A", k + k, ESC + k, k + "\n" + ESC]
    for b in batched(strs, 500):
        yield {"k": "spec", "strs": b}
    # 2. parser, exhaustive small scope
    ncf = 4 if quick else 5
    nfs = 3 if quick else 4
    for n in range(ncf + 1):
        for s in all_strings(ALPHA13, n):
            yield {"k": "x", "s": s, "m": "cf"}
            if n <= nfs:
                yield {"k": "x", "s": s, "m": "fs"}
                if n >= 2:
                    yield {"k": "x", "s": s, "m": "ch"}
    if not quick:
        for s in all_strings(ALPHA6, 5):
            yield {"k": "x", "s": s, "m": "ch"}
        for s in all_strings(ALPHA4, 6):
            yield {"k": "x", "s": s, "m": "ch"}
    # paste blocks: every chunking of start+body+end+tail for short bodies
    for body in ["", "a", "\x1b", "\x1b[201", "a\x1b[200~"]:
        for tail in ["", "\x1b", "b"]:
            s = PASTE_START + body + PASTE_END + tail
            if len(s) <= (14 if quick else 18):
                yield {"k": "x", "s": s, "m": "ch"}
            yield {"k": "x", "s": s, "m": "fs"}
            yield {"k": "x", "s": s, "m": "cf"}
    # 3. every table key alone and followed by each alphabet symbol
    for k in TABLE_KEYS:
        yield {"k": "x", "s": k, "m": "cf"}
        yield {"k": "x", "s": k, "m": "fs"}
        yield {"k": "ops", "ops": [["feed", k], ["flush"]]}
        for a in ALPHA13 + ["\n"]:
            yield {"k": "x", "s": k + a, "m": "cf"}
            yield {"k": "ops", "ops": [["feed", k + a], ["flush"]]}
    # 3b. complete CPR / mouse reports alone: every chunking, flush at every split
    reports = ["\x1b[1;1R", "\x1b[24;80R", "\x1b[0;0R", "\x1b[Mabc", "\x1b[M !\x7f", "\x1b[M\x1b[M", "\x1b[MMMM",
               "\x1b[<0;1;2M", "\x1b[<64;85;12m", "\x1b[96;14;13M", "\x1b[1;2;3m", "\x1b[;M", "\x1b[<;m",
               "\x1b[1M", "\x1b[٣;٣R"]
    for s in reports:
        yield {"k": "x", "s": s, "m": "cf"}
        yield {"k": "x", "s": s, "m": "fs"}
        if len(s) <= (9 if quick else 13):
            yield {"k": "x", "s": s, "m": "ch"}
        for a in ALPHA13 + ["\n"]:
            yield {"k": "x", "s": s + a, "m": "cf"}
    for _ in range(200 if quick else 3000):
        s = rng.choice([rand_cpr, rand_mouse])(rng)
        yield {"k": "x", "s": s, "m": "cf"}
        yield {"k": "ops", "ops": [["feed", s], ["flush"]]}
    # 4. random streams, random reads and flushes
    nrand = 4000 if quick else 60000
    for _ in range(nrand):
        s = rand_stream(rng, rng.choice([1, 2, 3, 5, 8, 20]))
        yield {"k": "ops", "ops": rand_ops(rng, s)}
    # 4b. the incremental UTF-8 decoder under PosixStdinReader.read (arbitrary bytes)
    yield from dec_cases(tier, rng)
    # 5. through Vt100Input on a real pipe, bytes cut at random offsets (also inside UTF-8 sequences)
    npipe = 300 if quick else 6000
    for _ in range(npipe):
        s = rand_stream(rng, rng.choice([1, 2, 4, 8, 30]))
        nb = len(s.encode("utf-8"))
        cuts = sorted(rng.randrange(0, nb + 1) for _ in range(rng.choice([0, 1, 2, 5, nb])))
        yield {"k": "pipe", "s": s, "cuts": cuts}
    # 6. the read path as it is (1024-byte reads, EOF, OSError), 7. typeahead, 8. the prefix cache
    yield from fd_cases(tier, rng)
    yield from enc_cases(tier, rng)
    yield from ta_cases(tier, rng)
    yield from pc_cases(tier, rng)


FD_TEXTS = ["é\x1b[A", "\x1b[200~a\x1b[201~b", "a世\x1b", "\x1b[3;7R😀"]
FD_TAILS = [[["rk"], ["fk"]], [["cw"], ["rk"], ["rk"], ["fk"]], [["cr"], ["rk"], ["fk"]],
            [["rk"], ["cw"], ["rk"], ["rk"], ["fk"]], [["fk"], ["rk"], ["cw"], ["rk"], ["cr"], ["rk"], ["fk"]]]
FD_MID = [["rk"], ["rk"], ["fk"]]  # a read followed by the flush timeout, in the middle of the stream
FD_PROBES = ["é", "世", "😀", "\x1b[A", "\x1b[1;5C", "\x1b[24;80R", "\x1b[<64;85;12M", "\x1b[Mabc", "\x1bOP"]


def nreads(nbytes):
    return [["rk"]] * (nbytes // 1024 + 2)


def fd_cases(tier, rng):
    """the read path as it is: os.read hands out at most 1024 bytes per call; EOF; OSError.
    (a) short valid streams cut into writes at every (pair of) byte offset(s), reads interleaved
        in every pattern, followed by: drain+flush / EOF / dead descriptor;
    (b) the 1024- and 2048-byte boundaries falling at every offset inside a multi-byte character,
        an escape sequence, a CPR / mouse report, the paste start and end marks;
    (c) random streams (also longer than 1024 bytes), random writes, reads, EOF, dead descriptor"""
    quick = tier == "quick"
    for text in FD_TEXTS:
        data = text.encode("utf-8")
        pos = list(range(1, len(data)))
        cutsets = [()] + [(a,) for a in pos] + ([(a, b) for a in pos for b in pos if a < b] if not quick or len(data) <= 8 else [])
        for cuts in cutsets:
            cs = [0] + list(cuts) + [len(data)]
            pieces = [list(data[a:b]) for a, b in zip(cs, cs[1:])]
            for mask in range(1 << len(pieces)):
                ops = []
                for i, pc in enumerate(pieces):
                    ops.append(["w", pc])
                    if mask >> i & 1:
                        ops.append(["rk"])
                for tail in FD_TAILS:
                    yield {"k": "fd", "ops": ops + tail}
            # the flush timeout striking after each write (e.g. while a paste is open)
            if len(cuts) == 1:
                ops = [["w", pieces[0]], ["rk"], ["fk"], ["w", pieces[1]], ["rk"], ["rk"], ["fk"]]
                yield {"k": "fd", "ops": ops}
    # (b) boundaries
    for bound in (1024, 2048):
        for probe in FD_PROBES:
            pb = probe.encode("utf-8")
            for j in range(len(pb) + 1):
                data = b"x" * (bound - j) + pb + b"y"
                yield {"k": "fd", "ops": [["w", list(data)]] + nreads(len(data)) + [["fk"]]}
                if j % 2 == 0:
                    yield {"k": "fd", "ops": [["w", list(data)], ["cw"]] + nreads(len(data)) + [["fk"]]}
        for j in range(7):  # paste END mark across the boundary; paste START mark across the boundary
            body = "p" * (bound - 6 - j)
            data = (PASTE_START + body + PASTE_END + "z\x1b").encode()
            yield {"k": "fd", "ops": [["w", list(data)]] + nreads(len(data)) + [["fk"]]}
            data = ("x" * (bound - j) + PASTE_START + "pp" + PASTE_END + "z").encode()
            yield {"k": "fd", "ops": [["w", list(data)]] + nreads(len(data)) + [["fk"]]}
    # (c) random
    for _ in range(250 if quick else 5000):
        text = rand_stream(rng, rng.choice([1, 2, 4, 8, 30]))
        if rng.random() < 0.4:
            filler = rng.choice(["x", "é", "\x1b[A", "世"]) * rng.randrange(200, 1100)
            if rng.random() < 0.3:
                filler = PASTE_START + filler + (PASTE_END if rng.random() < 0.8 else "")
            i = rng.randrange(0, len(text) + 1)
            text = text[:i] + filler + text[i:]
        data = text.encode("utf-8")
        ops, i = [], 0
        while i < len(data):
            n = rng.choice([1, 2, 3, 7, 100, 1023, 1024, 1025, 3000])
            ops.append(["w", list(data[i:i + n])])
            i += n
            if rng.random() < 0.5:
                ops.append(["rk"])
                if rng.random() < 0.15:
                    ops.append(["fk"])
        kind = rng.random()
        if kind < 0.12 and ops:
            # dead descriptor at a random point: nothing is written after it
            k = rng.randrange(0, len(ops) + 1)
            ops = [op for op in ops[:k]] + [["cr"], ["rk"], ["rk"], ["fk"]]
        elif kind < 0.5:
            ops += [["cw"]] + nreads(len(data)) + [["fk"]]
        else:
            ops += nreads(len(data)) + [["fk"]]
        yield {"k": "fd", "ops": ops}
    # reader level, arbitrary (also invalid) bytes
    seqs = [[0xE4, 0xB8, 0x96], [0xF0, 0x9F, 0x98, 0x80], [0xED, 0xA0, 0x80], [0xE0, 0x80], [0xC3], [0xC3, 0xA9],
            [0xF4, 0x90, 0x80, 0x80], [0xFF]]
    for sq in seqs:
        for j in range(len(sq) + 1):
            data = [0x78] * (1024 - j) + sq + [0x79]
            yield {"k": "rd", "ops": [["w", data], ["rr"], ["rr"], ["rr"], ["cw"], ["rr"], ["rr"]]}
    for _ in range(250 if quick else 5000):
        n = rng.choice([1, 3, 10, 1000, 1030, 2500])
        data = [rng.choice(U8_ALPHA + [rng.randrange(256)]) for _ in range(n)] if rng.random() < 0.5 \
            else list(rand_stream(rng, rng.choice([1, 3, 8])).encode("utf-8") * rng.choice([1, 1, 40]))
        ops, i = [], 0
        while i < len(data):
            m = rng.choice([1, 2, 5, 500, 1024, 1025, 4000])
            ops.append(["w", data[i:i + m]])
            i += m
            if rng.random() < 0.6:
                ops.append(["rr"])
        kind = rng.random()
        if kind < 0.15:
            k = rng.randrange(0, len(ops) + 1)
            ops = ops[:k] + [["cr"], ["rr"], ["rr"]]
        elif kind < 0.6:
            ops += [["rr"]] * rng.randrange(0, 4) + [["cw"]] + [["rr"]] * (len(data) // 1024 + 3)
        else:
            ops += [["rr"]] * (len(data) // 1024 + 2)
        yield {"k": "rd", "ops": ops}


ENCODINGS = ["latin-1", "cp1252", "iso8859-15", "koi8-r", "ascii", "utf-8"]
ENC_STREAMS = [[0xE9], [0xC3, 0xA9], [0x9B], [0x9B, 0x41], [0x1B, 0x5B, 0x41, 0xE9], [0x1B, 0xE9], [0xE4, 0xB8, 0x96],
               [0xA4, 0xFF, 0x80], [0x80, 0x9B, 0xFF, 0x41], [0x81, 0x41, 0x8D], [0xE9, 0x1B, 0x4F, 0x50, 0xC0],
               [0x1B, 0x5B, 0xC3, 0xA9, 0x41]]


def decodable(data: bytes, enc: str) -> bool:
    try:
        data.decode(enc)
        return True
    except UnicodeDecodeError:
        return False


def enc_case(enc, data, pieces):
    """Vt100Input level when every byte is a character of the encoding; otherwise (lone surrogates,
    which the parser model cannot hold) reader level"""
    if decodable(bytes(data), enc):
        ops = []
        for pc in pieces:
            ops += [["w", list(pc)], ["rk"]]
        return {"k": "fd", "enc": enc, "ops": ops + [["rk"], ["fk"]]}
    ops = []
    for pc in pieces:
        ops += [["w", list(pc)], ["rr"]]
    return {"k": "rd", "enc": enc, "ops": ops + [["rr"]]}


def enc_cases(tier, rng):
    """the ENCODING of the input: Vt100Input on a stdin object with each encoding; short byte
    streams with bytes 0x80-0xFF in every chunking; random byte strings with random cuts; an
    unknown encoding"""
    quick = tier == "quick"
    yield {"k": "fd", "enc": "no-such-codec", "ops": []}
    for enc in ENCODINGS:
        for data in ENC_STREAMS:
            for comp in compositions(bytes(data)):
                yield enc_case(enc, data, comp)
        for _ in range(40 if quick else 600):
            n = rng.randrange(1, 14)
            data = bytes(rng.choice([0x1B, 0x5B, 0x41, 0x4F, 0x50, 0x32, 0x30, 0x7E, 0x3B, 0x52, 0x9B, 0xE9, 0xC3, 0xA9,
                                     0x80, 0xFF, rng.randrange(256)]) for _ in range(n))
            if enc == "utf-8" and rng.random() < 0.7:
                data = rand_stream(rng, rng.choice([1, 2, 4])).encode("utf-8")
            cuts = sorted(set(rng.randrange(1, len(data) + 1) for _ in range(rng.choice([0, 1, 2, 5])))) if data else []
            cs = [0] + [c for c in cuts if c < len(data)] + [len(data)]
            yield enc_case(enc, data, [data[a:b] for a, b in zip(cs, cs[1:]) if b > a] or [b""])


TA_KEYS = ["fd-0", "pipe-input-1"]


def ta_cases(tier, rng):
    """typeahead store: every op sequence up to the bound over 2 inputs, then random ones over 3"""
    quick = tier == "quick"
    alpha = []
    for k in TA_KEYS:
        alpha += [["store", k, "a"], ["store", k, "bc"], ["take", k], ["clear", k]]
    for n in range(1, (4 if quick else 5) + 1):
        for tup in itertools.product(alpha, repeat=n):
            if tup[-1][0] == "take":  # sequences ending in a get are the informative ones
                yield {"k": "ta", "ops": [list(x) for x in tup]}
    keys3 = TA_KEYS + ["dummy-3"]
    for _ in range(200 if quick else 3000):
        ops = []
        for _ in range(rng.randrange(1, 30)):
            k = rng.choice(keys3)
            r = rng.random()
            if r < 0.5:
                ops.append(["store", k, "".join(rng.choice("abcé\x1b") for _ in range(rng.randrange(0, 4)))])
            elif r < 0.9:
                ops.append(["take", k])
            else:
                ops.append(["clear", k])
        yield {"k": "ta", "ops": ops}


PC_STRS = [ESC, "\x1b[", "\x1b[1;5", "a", "\x1b[A", "\x1b[<64;100;100", "\x1b[M\x1b\n", "\x1b[1234567890;123"]


def pc_cases(tier, rng):
    """_IsPrefixOfLongerMatchCache as a dict: every lookup sequence up to the bound over 8 prefixes
    (repeats = cache hits), then random sequences over the regex-differential strings"""
    quick = tier == "quick"
    for n in range(1, (3 if quick else 4) + 1):
        for tup in itertools.product(PC_STRS, repeat=n):
            yield {"k": "pc", "strs": list(tup)}
    for _ in range(200 if quick else 3000):
        pool = [rand_token(rng)[: rng.randrange(0, 16)] for _ in range(rng.randrange(1, 6))]
        yield {"k": "pc", "strs": [rng.choice(pool) for _ in range(rng.randrange(1, 12))]}


U8_ALPHA = [0x41, 0x1b, 0x80, 0x8f, 0x90, 0x9f, 0xa0, 0xbf, 0xc1, 0xc2, 0xdf, 0xe0, 0xe1, 0xed, 0xee, 0xf0,
            0xf1, 0xf4, 0xf5, 0xff]


def dec_cases(tier, rng):
    """decoder level: every byte string over U8_ALPHA up to the bound, (a) in one read, (b) one
    byte per read; random longer byte strings with random cuts"""
    quick = tier == "quick"
    n1 = 3 if quick else 4
    for n in range(1, n1 + 1):
        for grp in batched(itertools.product(U8_ALPHA, repeat=n), 50):
            # several independent strings per case would share decoder state: one case per string
            for tup in grp:
                yield {"k": "dec", "chunks": [list(tup)]}
                if n >= 2:
                    yield {"k": "dec", "chunks": [[b] for b in tup]}
                    if n == 3:
                        yield {"k": "dec", "chunks": [list(tup[:1]), list(tup[1:])]}
                        yield {"k": "dec", "chunks": [list(tup[:2]), list(tup[2:])]}
    for _ in range(400 if quick else 20000):
        kind = rng.randrange(3)
        if kind == 0:  # valid text, cut anywhere
            data = list(rand_stream(rng, rng.choice([1, 3, 8])).encode("utf-8"))
        elif kind == 1:  # arbitrary bytes
            data = [rng.choice(U8_ALPHA + [rng.randrange(256)]) for _ in range(rng.randrange(1, 12))]
        else:  # valid text with damaged bytes
            data = list(rand_stream(rng, rng.choice([1, 3, 8])).encode("utf-8"))
            for _ in range(rng.randrange(1, 4)):
                if data:
                    data[rng.randrange(len(data))] = rng.choice(U8_ALPHA)
        if not data:
            continue
        cuts = sorted(set(rng.randrange(1, len(data) + 1) for _ in range(rng.choice([0, 1, 2, 5, len(data)]))))
        cs = [0] + [c for c in cuts if c < len(data)] + [len(data)]
        yield {"k": "dec", "chunks": [data[a:b] for a, b in zip(cs, cs[1:]) if b > a]}


def sample_view(case):
    if case["k"] in ("fd", "rd"):
        return {"k": case["k"], "ops": _short_ops(case["ops"])}
    if case["k"] in ("re", "spec"):
        return {"k": case["k"], "strs": case["strs"][:5] + [f"... {len(case['strs'])} strings"]}
    return case


def nontrivial(case):
    if case["k"] in ("re", "spec"):
        return True
    if case["k"] == "ops":
        return any(ESC in op[1] for op in case["ops"] if op[0] == "feed")
    if case["k"] == "dec":
        return any(b >= 0x80 for c in case["chunks"] for b in c)
    if case["k"] in ("fd", "rd"):
        return any(op[0] in ("rk", "rr") for op in case["ops"]) and any(op[0] == "w" for op in case["ops"])
    if case["k"] == "ta":
        return any(op[0] == "store" for op in case["ops"])
    if case["k"] == "pc":
        return True
    return ESC in case["s"]


def distribution(cases):
    d = {"kind": {}, "stream_len": {}, "flushes": {}, "re_strings": 0}
    for c in cases:
        kind = c["k"] + (":" + c["m"] if c["k"] == "x" else "")
        d["kind"][kind] = d["kind"].get(kind, 0) + 1
        if c["k"] in ("re", "spec"):
            d["re_strings" if c["k"] == "re" else "spec_strings"] = \
                d.get("re_strings" if c["k"] == "re" else "spec_strings", 0) + len(c["strs"])
            continue
        if c["k"] in ("ta", "pc"):
            continue
        if c["k"] in ("fd", "rd"):
            n = sum(len(op[1]) for op in c["ops"] if op[0] == "w")
            for tag in ("cw", "cr"):
                if any(op[0] == tag for op in c["ops"]):
                    d.setdefault("fd_events", {})
                    d["fd_events"][tag] = d["fd_events"].get(tag, 0) + 1
            if n > 1024:
                d["over_1024_bytes"] = d.get("over_1024_bytes", 0) + 1
        elif c["k"] == "dec":
            n = sum(len(x) for x in c["chunks"])
        elif c["k"] == "ops":
            n = sum(len(op[1]) for op in c["ops"] if op[0] == "feed")
            f = sum(1 for op in c["ops"] if op[0] == "flush")
            fk = str(f) if f < 4 else "4+"
            d["flushes"][fk] = d["flushes"].get(fk, 0) + 1
        else:
            n = len(c["s"])
        key = str(n) if n < 8 else "8-31" if n < 32 else "32+"
        d["stream_len"][key] = d["stream_len"].get(key, 0) + 1
    return d


if __name__ == "__main__":
    sys.exit(core.main(sys.modules[__name__]))
