#!/venv/bin/python
"""
C16 data re-extracted from the CURRENT tree / the running interpreter on every run
-> lean/Ptk/Gen/C16.lean:

  bindTable : which handler the real key bindings (`load_key_bindings()`: basic + emacs + vi +
      their search bindings, merged and filtered exactly as `KeyProcessor._get_matches` does) run
      for every search-related key in every search-related state
          (editing mode) x (searching? / control searchable? / buffer read-only? / search field empty?)
      The table is obtained by asking a real Application's key processor, not by reading source
      text.  The model (`Ptk.Model.C16Keys.rawStep`) dispatches raw keys through this table; the
      hand-written part is only handler name -> model key.
  currentWordRe : the pattern of `document._FIND_CURRENT_WORD_RE` (pinned by the model of Vi * / #).

Must stay fast (every ./check of every property regenerates all tables) and must never raise.
"""
from __future__ import annotations

import gen_tables as G

# physical keys of the table; c16.py imports these so that generators only press keys that are in it
NAMED = {"c-r": "\x12", "c-s": "\x13", "up": "\x1b[A", "down": "\x1b[B", "enter": "\r", "escape": "\x1b",
         "c-g": "\x07", "c-c": "\x03", "backspace": "\x7f", "c-p": "\x10", "c-n": "\x0e"}
CHARS = "abABxzq.* nN/?#é"

# state bits
SEARCHING, SEARCHABLE, READONLY, FIELD_EMPTY = 1, 2, 4, 8


def states():
    """the meaningful combinations: while searching the focused buffer is the search field (never
    read-only, and it is a BufferControl without a search field of its own)"""
    out = []
    for searchable in (0, 1):
        for ro in (0, 1):
            out.append(SEARCHABLE * searchable + READONLY * ro)
    out.append(SEARCHING + SEARCHABLE)
    out.append(SEARCHING + SEARCHABLE + FIELD_EMPTY)
    return out


def extract():
    import asyncio
    from prompt_toolkit.application import Application
    from prompt_toolkit.application.current import set_app
    from prompt_toolkit.buffer import Buffer
    from prompt_toolkit.enums import EditingMode
    from prompt_toolkit.filters import Condition
    from prompt_toolkit.input import DummyInput
    from prompt_toolkit.input.vt100_parser import Vt100Parser
    from prompt_toolkit.key_binding.defaults import load_key_bindings
    from prompt_toolkit.key_binding.vi_state import InputMode
    from prompt_toolkit.layout import HSplit, Layout, Window
    from prompt_toolkit.layout.controls import BufferControl, SearchBufferControl
    from prompt_toolkit.output import DummyOutput
    from prompt_toolkit.search import SearchDirection, start_search

    def parse(data):
        out = []
        p = Vt100Parser(out.append)
        p.feed(data)
        p.flush()
        return out

    rows = []

    async def main():
        for vi in (False, True):
            ro = [False]
            b = Buffer(read_only=Condition(lambda: ro[0]))
            b2 = Buffer(read_only=Condition(lambda: ro[0]))
            sb = Buffer()
            f = SearchBufferControl(buffer=sb)
            c1 = BufferControl(b, search_buffer_control=f)
            c2 = BufferControl(b2)
            app = Application(layout=Layout(HSplit([Window(c1), Window(c2), Window(f)]), focused_element=c1),
                              key_bindings=load_key_bindings(),
                              editing_mode=EditingMode.VI if vi else EditingMode.EMACS,
                              reverse_vi_search_direction=True, input=DummyInput(), output=DummyOutput())
            with set_app(app):
                kp = app.key_processor
                for st in states():
                    ro[0] = bool(st & READONLY)
                    app.layout.search_links.clear()
                    sb.reset()
                    app.layout.focus(c1 if st & SEARCHABLE else c2)
                    app.vi_state.input_mode = InputMode.NAVIGATION
                    if st & SEARCHING:
                        start_search(c1, SearchDirection.FORWARD)
                        if not st & FIELD_EMPTY:
                            sb.insert_text("a")
                    for name, raw in list(NAMED.items()) + [("ch:%d" % ord(ch), ch) for ch in CHARS]:
                        m = kp._get_matches(parse(raw))
                        rows.append((vi, st, name, m[-1].handler.__qualname__ if m else ""))

    loop = asyncio.new_event_loop()
    try:
        loop.run_until_complete(main())
    finally:
        loop.close()
    return rows


def pattern():
    from prompt_toolkit import document
    return document._FIND_CURRENT_WORD_RE.pattern


# ------------------------------------------------------------------ re.IGNORECASE folding classes
def fold_classes():
    """{c: representative} for every BMP character that `re` (str pattern, re.IGNORECASE) lets match
    anything but itself: for every character c that has case, the set
    {d in BMP | re matches the escaped literal c against d, ignoring case} is computed by RUNNING re
    over a string of all BMP characters; representative = smallest member.
    Returns (mapping, is_partition, uncased_ok)."""
    import re
    import random

    allc = [chr(c) for c in range(0x10000) if not 0xD800 <= c <= 0xDFFF]
    sall = "".join(allc)
    try:
        import _sre
        iscased = lambda ch: _sre.unicode_iscased(ord(ch))      # noqa: E731
    except Exception:                                          # pragma: no cover
        iscased = lambda ch: False                             # noqa: E731
    cand = [c for c in allc if c.lower() != c or c.upper() != c or iscased(c)]
    cls = {c: frozenset(re.findall(re.escape(c), sall, re.I)) for c in cand}
    cset = set(cand)
    # the relation is an equivalence whose classes stay inside the candidates
    part = all(c in cls[c] and cls[c] <= cset and all(cls[d] == cls[c] for d in cls[c]) for c in cand)
    # characters without case match only themselves (sampled: the rest of the table relies on it)
    rnd = random.Random(16)
    unc = [c for c in allc if c not in cset]
    unc_ok = all(re.findall(re.escape(c), sall, re.I) == [c] for c in rnd.sample(unc, 200))
    rep = {c: min(cls[c]) for c in cand if len(cls[c]) > 1 and min(cls[c]) != c}
    return rep, part, unc_ok


def fold_ranges(rep):
    """[(lo, hi, delta)] ascending: code points lo..hi fold to (code point - delta)"""
    out = []
    for c in sorted(rep):
        n, d = ord(c), ord(c) - ord(rep[c])
        if out and out[-1][1] == n - 1 and out[-1][2] == d:
            out[-1][1] = n
        else:
            out.append([n, n, d])
    return [tuple(x) for x in out]


def fold_table():
    """cached per interpreter / Unicode version (the table comes from the interpreter, not from /repo)"""
    import json
    import os
    import sys
    import unicodedata
    key = sys.version + "|" + unicodedata.unidata_version
    path = os.path.join(G.ROOT, ".work", "c16", "fold_cache.json")
    try:
        d = json.load(open(path))
        if d["key"] == key:
            return [tuple(x) for x in d["ranges"]], d["part"], d["unc"]
    except Exception:
        pass
    rep, part, unc_ok = fold_classes()
    rs = fold_ranges(rep)

    def fold(n):          # the algorithm of Ptk.C16.foldWith
        for (lo, hi, d) in rs:
            if n < lo:
                return n
            if n <= hi:
                return n - d
        return n

    # the range table read the way the model reads it gives back exactly the classes
    part = part and all(fold(ord(c)) == ord(r) for c, r in rep.items()) \
        and all(fold(ord(r)) == ord(r) for r in set(rep.values())) \
        and all(fold(n) == n for n in range(0, 0x10000, 7) if chr(n) not in rep)
    try:
        os.makedirs(os.path.dirname(path), exist_ok=True)
        tmp = path + ".tmp%d" % os.getpid()
        json.dump({"key": key, "ranges": rs, "part": part, "unc": unc_ok}, open(tmp, "w"))
        os.replace(tmp, path)
    except Exception:
        pass
    return rs, part, unc_ok


def generate_fold() -> None:
    try:
        rs, part, unc_ok = fold_table()
    except Exception:
        rs, part, unc_ok = [], False, False
    body = "namespace Ptk.Gen.C16Fold\n\n"
    body += ("/-- `re.IGNORECASE` (str patterns) on the BMP, from the running interpreter: code points lo..hi\n"
             "    match exactly the characters that fold to the same value, fold c = c - delta for lo ≤ c ≤ hi\n"
             "    (ascending, disjoint), fold c = c otherwise.  Obtained by running `re` on every character\n"
             "    that has case against all BMP characters. -/\n")
    body += "def foldRanges : List (Nat × Nat × Nat) := [\n"
    body += ",\n".join("  " + ", ".join(f"({a}, {b}, {d})" for (a, b, d) in rs[i:i + 6]) for i in range(0, len(rs), 6))
    body += "]\n\n"
    body += ("/-- generation-time checks: `re`'s relation is an equivalence whose classes contain only characters\n"
             "    with case (so one representative per class describes it exactly) -/\n")
    body += f"def isPartition : Bool := {'true' if part else 'false'}\n\n"
    body += "/-- 200 sampled characters without case match only themselves under re.IGNORECASE -/\n"
    body += f"def uncasedSampleOk : Bool := {'true' if unc_ok else 'false'}\n\n"
    body += "end Ptk.Gen.C16Fold\n"
    G.write("C16Fold.lean", body)


def generate() -> None:
    generate_fold()
    try:
        rows = extract()
    except Exception:  # broken tree: keep everything compilable; the side conditions / correspondence report it
        rows = []
    try:
        pat = pattern()
    except Exception:
        pat = ""
    body = "namespace Ptk.Gen.C16\n\n"
    body += ("/-- (Vi mode?, state bits searching=1 searchable=2 read-only=4 field-empty=8, key, qualname of the\n"
             "    handler `KeyProcessor` would call; \"\" = no binding) -/\n")
    body += "def bindTable : List (Bool × Nat × String × String) := [\n"
    body += ",\n".join(f"  ({'true' if vi else 'false'}, {st}, {G.lstr(name)}, {G.lstr(h)})" for (vi, st, name, h) in rows)
    body += "]\n\n"
    body += "/-- `document._FIND_CURRENT_WORD_RE.pattern` -/\n"
    body += f"def currentWordRe : String := {G.lstr(pat)}\n\n"
    body += "end Ptk.Gen.C16\n"
    G.write("C16.lean", body)


if __name__ == "__main__":
    generate()
    for r in extract():
        print(r)
