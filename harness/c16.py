#!/venv/bin/python
"""C16 — search lands on a real, nearest occurrence: correspondence with Ptk.Model.C16 + property oracle.

Two kinds of cases:
  kind "api"  : Buffer._search / apply_search / document_for_search / get_search_position and
                Document.find / find_backwards called directly on the real objects
  kind "keys" : a real PromptSession driven key by key (emacs: C-r C-s Up Down Enter Esc C-g C-c,
                vi: / ? C-r C-s n N with counts), observed after every key, including the Document that
                BufferControl.create_content displays (the incremental-search preview)
  kind "motion": oracle only — Vi `n` / `N` used as a motion (`v n`, `d n`: get_search_position end to end)
"""
from __future__ import annotations

import asyncio
import itertools
import os
import sys
from collections import deque

sys.path.insert(0, os.path.dirname(os.path.abspath(__file__)))
import core
from core import enc_str, enc_list

from prompt_toolkit.buffer import Buffer
from prompt_toolkit.document import Document
from prompt_toolkit.layout.controls import BufferControl
from prompt_toolkit.search import SearchDirection, SearchState

ID = "C16"
DRIVER = "drv_c16"
PROPS = ["Ptk.Props.C16Scan", "Ptk.Props.C16Search", "Ptk.Props.C16"]
LEVEL_TEXT = ("Lean 4 theorems over an executable model of Document.find/find_backwards, Buffer._search (with the "
              "wrap-around loops and count iteration as written), apply_search, document_for_search, "
              "get_search_position and the incremental-search session (start / type / next / previous / accept / "
              "abort, vi n/N): soundness, nearest-in-travel-order, completeness ahead, preview = accept, typing "
              "never touches the searched buffer, for all histories, texts, cursors, needles, directions, case "
              "settings, counts and key sequences; the model is tied to /repo on every run by a differential "
              "correspondence (exhaustive small scope + random, API level and key-by-key through a real "
              "PromptSession) and the property oracle")
LEVEL_NOTE = ("trusted: Lean kernel, axioms propext/Classical.choice/Quot.sound only; the hand-written model "
              "(validated by the correspondence, not proved equal to the Python); `re` finditer on an escaped "
              "literal = leftmost literal occurrence; re.IGNORECASE = ASCII case folding on ASCII inputs")
RULE = ("exhaustive: every history of 1-3 short entries over a small alphabet (with newline, upper/lower case, regex "
        "metacharacters) x every needle up to the tier's bound x every working index x every cursor x both "
        "directions x include_current_position x counts 1..3 (API level), scripted key sessions over small "
        "states; then seeded random larger histories/needles (needles biased to substrings that occur) and "
        "random state-aware key sequences in emacs and vi mode; a case is non-trivial when the needle occurs "
        "somewhere in the history (api) / when a search key is applied with a needle that occurs (keys)")
EXHAUSTIVE = True
EXHAUSTIVE_SCOPE = {
    "quick": "api: 1 entry len<=4 over {a,b,\\n} x needles len<=2; 2 entries len<=2 / 3 entries len<=1 over {a,b} x "
             "6 needles x counts 1..3; {a,A} len<=3 x case on/off; {a,.,*} len<=3 x metachar needles; all "
             "widx/cursors/directions/include_current; keys: scripted sessions over 2-entry histories",
    "thorough": "api: 1 entry len<=5 over {a,b,\\n} x needles len<=2 (+len 3 over {a,b}); 2 entries len<=3 / 3 entries "
                "len<=2 over {a,b} x 6 needles x counts 1..3; {a,A} len<=4 x case on/off; {a,.,*} len<=4 x metachar "
                "needles; all widx/cursors/directions/include_current; keys: scripted sessions over 2-3-entry histories",
}
TRUSTED = ["harness/c16.py compares _search result, apply_search state, document_for_search, get_search_position, "
           "find/find_backwards, and after every key: working lines, working_index, cursor, search field, "
           "SearchState text/direction, is_searching and the displayed (preview) Document",
           "Ptk/Model/C16.lean is a hand translation of the anchored search code (correspondence-checked)"]
ASSUMPTIONS = ["CPython str semantics; re.finditer(re.escape(sub), t) yields the leftmost literal occurrence first",
               "re.IGNORECASE equals ASCII case folding: generators use ASCII-only text and needle when ignore_case is on",
               "count >= 1 (Buffer._search asserts it; key bindings pass event.arg)",
               "key sessions: PromptSession defaults (reverse_vi_search_direction=True, preview_search=True), "
               "search field cursor stays at its end (only typing / backspace in the field)"]
PARTIAL_SCOPE = ["Document.find/find_backwards with in_current_line=True or count>1 (used by vi f/F/t/T, not by search) "
                 "are not modelled",
                 "non-ASCII case folding under ignore_case is not modelled",
                 "backward search only sees occurrences that END at or before the cursor (an occurrence that starts "
                 "before the cursor and extends past it is not 'between' old and new position); modelled as is",
                 "wrap-around (DESIGN O2) revisits only entry 0 (forward) / the last entry (backward); modelled as is, "
                 "theorems characterise it exactly but 'nearest' is claimed only for occurrences ahead",
                 "accepting with an EMPTY search field re-applies the previous needle while the preview shows the "
                 "unmoved document (needle empty: outside the property's quantifier); modelled as is",
                 "selection kept/dropped by document_for_search, search-field history, multiple BufferControls sharing "
                 "one search field, emacs read-only n/N bindings, vi * and # are not modelled",
                 "Vi `n`/`N` as a motion after an operator / in visual mode: get_search_position is modelled and proved, "
                 "the selection / deletion around it is exercised by the oracle only (single-line entries for `d`)"]
TECHNIQUE = "lean-proof+correspondence"
ANCHORS = ["src/prompt_toolkit/buffer.py", "src/prompt_toolkit/document.py", "src/prompt_toolkit/search.py",
           "src/prompt_toolkit/key_binding/bindings/search.py", "src/prompt_toolkit/layout/controls.py"]

F, B = "F", "B"


# ------------------------------------------------------------------ real-code helpers
def mk_buffer(lines, widx, cur) -> Buffer:
    b = Buffer()
    b._working_lines = deque(lines)
    b._Buffer__working_index = widx
    b._Buffer__cursor_position = cur
    return b


def mk_state(sub, d, ic) -> SearchState:
    return SearchState(text=sub, direction=SearchDirection.FORWARD if d == F else SearchDirection.BACKWARD,
                       ignore_case=bool(ic))


def occs(t: str, sub: str, ic) -> list[int]:
    """all start positions of `sub` in `t` (independent of the code under test)"""
    n = len(sub)
    if ic:
        t, sub = t.lower(), sub.lower()
    return [p for p in range(len(t) - n + 1) if t[p:p + n] == sub]


# ------------------------------------------------------------------ queries of an api case
def api_queries(case):
    """[(widx, cur, dir, incl, count)]"""
    lines = case["lines"]
    qs = []
    counts = case.get("counts", [1])
    if "queries" in case:
        return [tuple(q) for q in case["queries"]]
    for w in range(len(lines)):
        for c in range(len(lines[w]) + 1):
            for d in (F, B):
                for incl in (0, 1):
                    for k in counts:
                        qs.append((w, c, d, incl, k))
    return qs


def find_queries(case):
    """[(line index, cur)] for Document-level find / find_backwards lines"""
    if not case.get("finds"):
        return []
    return [(i, c) for i, t in enumerate(case["lines"]) for c in range(len(t) + 1)]


def model_lines_api(case):
    lines, sub, ic = case["lines"], case["sub"], case["ic"]
    head = "api " + enc_list(lines, enc_str)
    out = []
    for (w, c, d, incl, k) in api_queries(case):
        out.append(f"{head} {w} {c} {enc_str(sub)} {d} {incl} {ic} {k}")
    for (i, c) in find_queries(case):
        t = enc_str(lines[i])
        out.append(f"find {t} {c} {enc_str(sub)} 0 {ic}")
        out.append(f"find {t} {c} {enc_str(sub)} 1 {ic}")
        out.append(f"findb {t} {c} {enc_str(sub)} {ic}")
    return out


def impl_lines_api(case):
    lines, sub, ic = case["lines"], case["sub"], case["ic"]
    out = []
    for (w, c, d, incl, k) in api_queries(case):
        ss = mk_state(sub, d, ic)
        b = mk_buffer(lines, w, c)
        r = b._search(ss, include_current_position=bool(incl), count=k)
        b2 = mk_buffer(lines, w, c)
        b2.apply_search(ss, include_current_position=bool(incl), count=k)
        dd = mk_buffer(lines, w, c).document_for_search(ss)
        g = mk_buffer(lines, w, c).get_search_position(ss, include_current_position=bool(incl), count=k)
        rs = "N" if r is None else f"{r[0]},{r[1]}"
        out.append(f"search={rs} apply={b2.working_index},{b2.cursor_position} "
                   f"dfs={enc_str(dd.text)},{dd.cursor_position} gsp={g}")
    for (i, c) in find_queries(case):
        doc = Document(lines[i], c)
        for incl in (False, True):
            r = doc.find(sub, include_current_position=incl, ignore_case=bool(ic))
            out.append(core.enc_opt_int(r))
        out.append(core.enc_opt_int(doc.find_backwards(sub, ignore_case=bool(ic))))
    return out


# ------------------------------------------------------------------ key sessions on the real editor
EMACS_KEYS = {
    ("start", B): ["\x12"], ("start", F): ["\x13"],
    ("incr", B): ["\x12", "\x1b[A"], ("incr", F): ["\x13", "\x1b[B"],
    ("accept", None): ["\r", "\x1b"], ("abort", None): ["\x07", "\x03"], ("bs", None): ["\x7f"],
}
VI_KEYS = {
    ("start", B): ["/", "\x12"], ("start", F): ["?", "\x13"],
    ("incr", B): ["\x12"], ("incr", F): ["\x13"],
    ("accept", None): ["\r", "\x1b"], ("abort", None): ["\x07", "\x03"], ("bs", None): ["\x7f"],
}


def raw_key(vi, op):
    name = op[0]
    var = op[2] if len(op) > 2 else 0
    if name == "type":
        return op[1]
    if name in ("next", "prev"):
        assert vi
        k = int(op[1])
        ch = "n" if name == "next" else "N"
        return ch if (k == 1 and not var) else str(k) + ch
    table = VI_KEYS if vi else EMACS_KEYS
    alts = table[(name, op[1] if name in ("start", "incr") else None)]
    return alts[var % len(alts)]


class Session:
    """a real PromptSession whose main buffer is put into a given (working lines, index, cursor) state"""

    def __init__(self, ed, vi, lines, widx, cur):
        self.ed, self.vi = ed, vi
        b = ed.buffer
        self.b = b

        async def load():
            b.load_history_if_not_yet_loaded()
            for _ in range(4):
                await asyncio.sleep(0)

        ed._loop.run_until_complete(load())
        if vi:
            ed.feed("\x1b")  # insert -> navigation mode
        b._working_lines = deque(lines)
        b._Buffer__working_index = widx
        b._Buffer__cursor_position = cur
        if vi:
            ed.feed("\x1b")  # a handler call in navigation mode applies the vi cursor fix
        self.ctl = [c for c in ed.app.layout.find_all_controls()
                    if isinstance(c, BufferControl) and c.buffer is b][0]
        self.shown = None
        orig = self.ctl._create_get_processed_line_func

        def spy(document, width, height):
            self.shown = (document.text, document.cursor_position)
            return orig(document, width, height)

        self.ctl._create_get_processed_line_func = spy

    def displayed(self):
        """(text, cursor) of the Document BufferControl.create_content renders for the main buffer"""
        self.shown = None
        self.ctl.create_content(80, 10)
        return self.shown

    def obs(self):
        b = self.b
        ss = self.ctl.search_state
        return {
            "lines": list(b._working_lines), "widx": b.working_index, "cur": b.cursor_position,
            "field": self.ed.session.search_buffer.text, "stext": ss.text,
            "sdir": F if ss.direction == SearchDirection.FORWARD else B,
            "searching": bool(self.ed.app.layout.is_searching), "shown": self.displayed(),
        }

    def feed(self, op):
        self.ed.feed(raw_key(self.vi, op))


def obs_line(o) -> str:
    return (f"{enc_list(o['lines'], enc_str)} {o['widx']} {o['cur']} | {enc_str(o['field'])} {enc_str(o['stext'])} "
            f"{o['sdir']} {int(o['searching'])} | {enc_str(o['shown'][0])} {o['shown'][1]}")


_LAST = [None, None]


def run_session(case):
    """observations: [after init, after key 1, ...] (the last case is cached: impl_lines and oracle
    are evaluated one after the other on the same case in the same worker)"""
    import json
    key = json.dumps(case, sort_keys=True)
    if _LAST[0] == key:
        return _LAST[1]
    out = _run_session(case)
    _LAST[0], _LAST[1] = key, out
    return out


def _run_session(case):
    from editor import editor
    out = []
    with editor(text="", vi=bool(case["vi"]), search_ignore_case=bool(case["ic"])) as ed:
        s = Session(ed, bool(case["vi"]), case["lines"], case["widx"], case["cur"])
        out.append(s.obs())
        for op in case["ops"]:
            s.feed(op)
            out.append(s.obs())
            if ed.done:
                raise RuntimeError("session ended by key " + repr(op))
    return out


def key_line(op):
    name = op[0]
    if name == "type":
        return f"key type {enc_str(op[1])}"
    if name in ("start", "incr", "next", "prev"):
        return f"key {name} {op[1]}"
    return f"key {name}"


def model_lines_keys(case):
    out = [f"init {case['vi']} {case['ic']} {enc_list(case['lines'], enc_str)} {case['widx']} {case['cur']}"]
    out += [key_line(op) for op in case["ops"]]
    return out


def impl_lines_keys(case):
    return [obs_line(o) for o in run_session(case)]


def run_motion(case):
    """Vi `n` / `N` used as a motion: `v n` (visual) or `d n` (operator) on the real editor, with the
    SearchState of the main buffer set directly.  Returns (before, after) observations."""
    from editor import editor
    with editor(text="", vi=True, search_ignore_case=bool(case["ic"])) as ed:
        s = Session(ed, True, case["lines"], case["widx"], case["cur"])
        ss = s.ctl.search_state
        ss.text = case["sub"]
        ss.direction = SearchDirection.FORWARD if case["dir"] == F else SearchDirection.BACKWARD
        o0 = s.obs()
        k = case["count"]
        ed.feed(case["op"])
        ed.feed(("" if k == 1 else str(k)) + case["key"])
        o1 = s.obs()
    return o0, o1


def model_lines(case):
    if case["kind"] == "motion":
        return []          # oracle only: selection / deletion are outside the model
    return model_lines_api(case) if case["kind"] == "api" else model_lines_keys(case)


def impl_lines(case):
    if case["kind"] == "motion":
        return []
    return impl_lines_api(case) if case["kind"] == "api" else impl_lines_keys(case)


# ------------------------------------------------------------------ oracle
def ahead(lines, w, c, sub, ic, d, incl):
    """occurrences (entry, position) that lie ahead of (w, c) in the direction of travel, nearest first.
    forward: in the current entry from the cursor (behind it when the current position is excluded),
    then the later entries; backward: in the current entry ending at or before the cursor, then the
    earlier entries."""
    res = []
    n = len(sub)
    if d == F:
        lo = c if incl else c + 1
        res += [(w, p) for p in occs(lines[w], sub, ic) if p >= lo]
        for j in range(w + 1, len(lines)):
            res += [(j, p) for p in occs(lines[j], sub, ic)]
    else:
        res += [(w, p) for p in reversed(occs(lines[w], sub, ic)) if p + n <= c]
        for j in range(w - 1, -1, -1):
            res += [(j, p) for p in reversed(occs(lines[j], sub, ic))]
    return res


def vifix_text(t, c):
    """Vi navigation mode: the cursor does not rest behind the last character of a non-empty line"""
    a = t.rfind("\n", 0, c) + 1
    e = t.find("\n", c)
    e = len(t) if e < 0 else e
    return c - 1 if (c == e and e > a) else c


def vifix(lines, w, c):
    return vifix_text(lines[w], c)


def check_move(site, lines, w, c, sub, ic, d, incl, count, nw, nc, vi_fix=False):
    """the C16 statement for one applied search that took (w, c) to (nw, nc).
    vi_fix: the key returns to Vi navigation mode, where an unmoved cursor that sits behind the last
    character of a line is pulled back by one (not a search move)."""
    v = []

    def bad(cond, msg):
        v.append({"signature": f"{site} | {cond}",
                  "msg": f"{msg}: lines={lines!r} widx={w} cur={c} needle={sub!r} dir={d} incl={incl} ic={ic} "
                         f"count={count} -> widx={nw} cur={nc}"})

    if not (0 <= nw < len(lines) and 0 <= nc <= len(lines[nw])):
        bad("position out of range", "result outside the history / text")
        return v
    stays = {(w, c)}
    if vi_fix:
        stays.add((w, vifix(lines, w, c)))
    moved = (nw, nc) not in stays
    if moved and nc not in occs(lines[nw], sub, ic):
        bad("lands where the needle does not occur", "moved to a position without an occurrence")
    if sub and count == 1:
        a = ahead(lines, w, c, sub, ic, d, incl)
        if a and (nw, nc) != a[0]:
            if not moved:
                bad("occurrence ahead not found", "an occurrence lies ahead but the position did not change")
            else:
                bad("skips a nearer occurrence", f"nearest occurrence ahead is {a[0]}")
    return v


def oracle_api(case):
    lines, sub, ic = case["lines"], case["sub"], case["ic"]
    v = []
    for (w, c, d, incl, k) in api_queries(case):
        ss = mk_state(sub, d, ic)
        b = mk_buffer(lines, w, c)
        b.apply_search(ss, include_current_position=bool(incl), count=k)
        if list(b._working_lines) != list(lines):
            v.append({"signature": "Buffer.apply_search | text changed", "msg": f"{case} {w} {c}"})
        nw, nc = b.working_index, b.cursor_position
        v += check_move("Buffer.apply_search", lines, w, c, sub, ic, d, incl, k, nw, nc)
        # count = k is k single searches, or nothing at all
        if k > 1:
            bb = mk_buffer(lines, w, c)
            ok = True
            for _ in range(k):
                pw, pc = bb.working_index, bb.cursor_position
                r = bb._search(ss, include_current_position=bool(incl), count=1)
                if r is None:
                    ok = False
                    break
                bb.apply_search(ss, include_current_position=bool(incl), count=1)
            exp = (bb.working_index, bb.cursor_position) if ok else (w, c)
            if (nw, nc) != exp:
                v.append({"signature": "Buffer.apply_search | count is not iterated single search",
                          "msg": f"lines={lines!r} widx={w} cur={c} needle={sub!r} dir={d} incl={incl} count={k}: "
                                 f"{(nw, nc)} vs iterated {exp}"})
        # preview = accept
        if k == 1 and incl:
            bp = mk_buffer(lines, w, c)
            dd = bp.document_for_search(ss)
            if (bp.working_index, bp.cursor_position, list(bp._working_lines)) != (w, c, list(lines)):
                v.append({"signature": "Buffer.document_for_search | mutates the buffer", "msg": f"{case} {w} {c}"})
            if (dd.text, dd.cursor_position) != (lines[nw], nc):
                v.append({"signature": "Buffer.document_for_search | preview differs from accept",
                          "msg": f"lines={lines!r} widx={w} cur={c} needle={sub!r} dir={d} ic={ic}: preview "
                                 f"{(dd.text, dd.cursor_position)} vs applied {(lines[nw], nc)}"})
        # get_search_position: a position in THIS text, unchanged or on an occurrence
        bg = mk_buffer(lines, w, c)
        g = bg.get_search_position(ss, include_current_position=bool(incl), count=k)
        if (bg.working_index, bg.cursor_position) != (w, c):
            v.append({"signature": "Buffer.get_search_position | mutates the buffer", "msg": f"{case} {w} {c}"})
        if g != c and not (0 <= g <= len(lines[w]) and g in occs(lines[w], sub, ic)):
            v.append({"signature": "Buffer.get_search_position | match in another history entry",
                      "msg": f"lines={lines!r} widx={w} cur={c} needle={sub!r} dir={d} incl={incl} count={k}: "
                             f"returns {g}, not an occurrence in {lines[w]!r}"})
        if sub and k == 1:
            a = ahead(lines, w, c, sub, ic, d, incl)
            if a and a[0][0] == w and g != a[0][1]:
                v.append({"signature": "Buffer.get_search_position | nearest occurrence in this entry missed",
                          "msg": f"lines={lines!r} widx={w} cur={c} needle={sub!r} dir={d} incl={incl}: {g} vs {a[0]}"})
    for (i, c) in find_queries(case):
        t = lines[i]
        doc = Document(t, c)
        oc = occs(t, sub, ic)
        for incl in (False, True):
            r = doc.find(sub, include_current_position=incl, ignore_case=bool(ic))
            lo = c if incl else c + 1
            cand = [p for p in oc if p >= lo and (incl or c < len(t))]
            exp = (cand[0] - c) if cand else None
            if r != exp:
                v.append({"signature": "Document.find | not the nearest occurrence after the cursor",
                          "msg": f"Document({t!r},{c}).find({sub!r}, include_current_position={incl}, ignore_case={ic}) "
                                 f"= {r}, expected {exp}"})
        r = doc.find_backwards(sub, ignore_case=bool(ic))
        cand = [p for p in oc if p + len(sub) <= c]
        exp = (cand[-1] - c) if cand else None
        if r != exp:
            v.append({"signature": "Document.find_backwards | not the nearest occurrence before the cursor",
                      "msg": f"Document({t!r},{c}).find_backwards({sub!r}, ignore_case={ic}) = {r}, expected {exp}"})
    return v


def oracle_keys(case):
    v = []
    ic, vi = case["ic"], case["vi"]
    obs = run_session(case)
    for i, op in enumerate(case["ops"]):
        o0, o1 = obs[i], obs[i + 1]
        name = op[0]
        tag = f"keys {'vi' if vi else 'emacs'} {name}"

        def bad(cond, msg):
            v.append({"signature": f"{tag} | {cond}",
                      "msg": f"{msg}: step {i} {op} of {case}: before={o0} after={o1}"})

        main0 = (o0["lines"], o0["widx"], o0["cur"])
        main1 = (o1["lines"], o1["widx"], o1["cur"])
        searchkey = name != "type" or o0["searching"]
        if searchkey and o1["lines"] != o0["lines"]:
            bad("text changed", "a search key changed the text of the buffer / history")
        leaves = vi and o0["searching"] and not o1["searching"]   # back to Vi navigation mode: cursor fix
        same = main0 if not leaves else (o0["lines"], o0["widx"], vifix(o0["lines"], o0["widx"], o0["cur"]))
        if name in ("type", "bs") and o0["searching"] and same != main1:
            bad("typing moved the real cursor", "typing in the search field changed the searched buffer")
        if name in ("start", "abort") and same != main1:
            bad("start/abort moved the cursor", "start/abort changed the searched buffer")
        if name == "accept" and o0["searching"]:
            if o0["field"]:
                # what was shown is where accepting goes (Vi: then the navigation-mode cursor fix)
                exp = o0["shown"] if not vi else (o0["shown"][0], vifix_text(*o0["shown"]))
                if exp != (o1["lines"][o1["widx"]], o1["cur"]):
                    bad("preview differs from accept", "displayed preview != position after accepting")
                if o1["shown"] != (o1["lines"][o1["widx"]], o1["cur"]):
                    bad("display after accept", "after accepting the real document must be displayed")
                v.extend(check_move(tag, o0["lines"], o0["widx"], o0["cur"], o0["field"], ic, o0["sdir"], 1, 1,
                                    o1["widx"], o1["cur"], vi_fix=bool(vi)))
            if o1["searching"]:
                bad("still searching", "accept did not leave the search field")
        if name == "incr" and o0["searching"] and o0["sdir"] == op[1]:
            v.extend(check_move(tag, o0["lines"], o0["widx"], o0["cur"], o0["field"], ic, op[1], 0, 1,
                                o1["widx"], o1["cur"]))
        if name == "incr" and o0["searching"] and o0["sdir"] != op[1] and main0 != main1:
            bad("direction change moved", "changing direction must not move")
        if name in ("next", "prev") and not o0["searching"]:
            d = o0["sdir"] if name == "next" else (B if o0["sdir"] == F else F)
            v.extend(check_move(tag, o0["lines"], o0["widx"], o0["cur"], o0["stext"], ic, d, 0, int(op[1]),
                                o1["widx"], o1["cur"], vi_fix=True))
        if not o1["searching"] and o1["shown"] != (o1["lines"][o1["widx"]], o1["cur"]):
            bad("display when not searching", "the real document must be displayed when not searching")
    return v


def oracle_motion(case):
    v = []
    o0, o1 = run_motion(case)
    lines, w, c = o0["lines"], o0["widx"], o0["cur"]
    sub, ic = case["sub"], case["ic"]
    d = case["dir"] if case["key"] == "n" else (B if case["dir"] == F else F)
    t = lines[w]
    oc = occs(t, sub, ic)
    tag = f"keys vi {case['op']}{case['key']}"

    def bad(cond, msg):
        v.append({"signature": f"{tag} | {cond}", "msg": f"{msg}: {case}: before={o0} after={o1}"})

    if o1["widx"] != w or [x for i, x in enumerate(o1["lines"]) if i != w] != [x for i, x in enumerate(lines) if i != w]:
        bad("left the entry", "a search motion changed the history entry / other entries")
        return v
    near = None
    if sub and case["count"] == 1:
        a = ahead(lines, w, c, sub, ic, d, 0)
        if a and a[0][0] == w:
            near = a[0][1]
    if case["op"] == "v":
        g = o1["cur"]
        if o1["lines"][w] != t:
            bad("text changed", "visual-mode search motion changed the text")
        if g != c and g not in oc:
            bad("match in another history entry", "cursor moved to a position without an occurrence")
        if near is not None and g != near:
            bad("nearest occurrence in this entry missed", f"nearest is {near}")
    else:
        t1 = o1["lines"][w]
        cands = [g for g in oc if g != c]
        if t1 != t and not any(t1 == t[:min(c, g)] + t[max(c, g):] for g in cands):
            bad("match in another history entry", "deleted up to a position without an occurrence")
        if near is not None and near != c and t1 != t[:min(c, near)] + t[max(c, near):]:
            bad("nearest occurrence in this entry missed", f"nearest is {near}")
    return v


def oracle(case):
    if case["kind"] == "motion":
        v = oracle_motion(case)
    else:
        v = oracle_api(case) if case["kind"] == "api" else oracle_keys(case)
    seen, out = set(), []
    for x in v:
        if x["signature"] not in seen:
            seen.add(x["signature"])
            out.append(x)
    return out


# ------------------------------------------------------------------ generators
def strings(alpha, maxlen):
    for n in range(maxlen + 1):
        for tup in itertools.product(alpha, repeat=n):
            yield "".join(tup)


def api_case(lines, sub, ic, counts=(1,), finds=False):
    return {"kind": "api", "lines": list(lines), "sub": sub, "ic": int(ic), "counts": list(counts), "finds": finds}


def exhaustive_api(tier):
    q = tier == "quick"
    # E1: one entry, newline in alphabet, all needles up to 2
    e1_len = 4 if q else 5
    needles1 = [s for s in strings("ab\n", 2) if s]
    if not q:
        needles1 += [s for s in strings("ab", 3) if len(s) == 3]
    for t in strings("ab\n", e1_len):
        for sub in needles1:
            yield api_case([t], sub, 0, finds=True)
    # E2: several entries, counts
    needles2 = ["a", "b", "ab", "aa", "ba", "bb"]
    two = list(strings("ab", 2 if q else 3))
    three = list(strings("ab", 1 if q else 2))
    for l0 in two:
        for l1 in two:
            for sub in needles2:
                yield api_case([l0, l1], sub, 0, counts=(1, 2, 3))
    for ls in itertools.product(three, repeat=3):
        for sub in needles2:
            yield api_case(ls, sub, 0, counts=(1, 2, 3))
    # E3: case
    for t in strings("aA", 3 if q else 4):
        for sub in ["a", "A", "aA", "Aa", "aa", "AA"]:
            for ic in (0, 1):
                yield api_case([t], sub, ic, finds=True)
                yield api_case(["Aa", t], sub, ic)
    # E4: regex metacharacters are literal
    for t in strings("a.*", 3 if q else 4):
        for sub in [".", "*", ".*", "a.", "a*", ".a", "**"]:
            yield api_case([t], sub, 0, finds=True)
    # E5: the empty needle (outside the property; correspondence only matters)
    for t in strings("a\n", 2):
        yield api_case([t], "", 0, finds=True)
        yield api_case(["a", t], "", 0, counts=(1, 2))


RAND_ALPHA = ["a", "a", "b", "b", "A", "B", "\n", ".", "*", "(", "[", "\\", "$", "^", "+", "?", " ", "é", "世", "ß"]
ASCII_ALPHA = ["a", "a", "b", "b", "A", "B", "\n", ".", "*", "(", "[", "\\", "$", " ", "k", "K", "s", "S"]


def rand_text(rng, alpha, maxlen):
    return "".join(rng.choice(alpha) for _ in range(rng.randrange(0, maxlen + 1)))


def rand_needle(rng, lines, alpha, maxlen=3):
    if rng.random() < 0.7:
        t = rng.choice(lines)
        if t:
            a = rng.randrange(len(t))
            sub = t[a:a + rng.randrange(1, maxlen + 1)]
            if sub:
                return sub
    return rand_text(rng, alpha, maxlen) or rng.choice(alpha)


def random_api(tier, rng):
    n = 1500 if tier == "quick" else 40000
    for _ in range(n):
        ic = rng.random() < 0.4
        alpha = ASCII_ALPHA if ic else RAND_ALPHA
        nl = rng.choice([1, 1, 2, 3, 4, 5])
        lines = [rand_text(rng, alpha, rng.choice([0, 2, 4, 8, 12])) for _ in range(nl)]
        sub = rand_needle(rng, lines, alpha)
        if ic and rng.random() < 0.5:
            sub = sub.swapcase()
        qs = []
        for _ in range(8):
            w = rng.randrange(nl)
            c = rng.choice([0, len(lines[w]), rng.randrange(len(lines[w]) + 1)])
            qs.append([w, c, rng.choice([F, B]), rng.randrange(2), rng.choice([1, 1, 1, 2, 3, 4])])
        case = api_case(lines, sub, ic, finds=rng.random() < 0.3)
        case["queries"] = qs
        yield case


def keys_case(vi, ic, lines, widx, cur, ops):
    return {"kind": "keys", "vi": int(vi), "ic": int(ic), "lines": list(lines), "widx": widx, "cur": cur,
            "ops": [list(o) for o in ops]}


def scripted_keys(tier):
    q = tier == "quick"
    hists = [["ab", "xab ab"], ["ba", "aab"], ["a\nab", "b"]]
    if not q:
        hists += [["ab", "b", "abab"], ["aa", "", "aaa"], ["b", "ab\nab"]]
    needles = ["a", "ab"] if q else ["a", "ab", "b", "aa"]
    for lines in hists:
        for w in range(len(lines)):
            for c in range(len(lines[w]) + 1):
                for sub in needles:
                    ty = [["type", ch] for ch in sub]
                    for d in (B, F):
                        o = F if d == B else B
                        for var in (0, 1):
                            # emacs: start, type, (next)*, accept / abort ; direction change ; empty accept
                            for k in range(3):
                                yield keys_case(0, 0, lines, w, c,
                                                [["start", d]] + ty + [["incr", d, var]] * k + [["accept", None, var]])
                            yield keys_case(0, 0, lines, w, c,
                                            [["start", d]] + ty + [["incr", d, var], ["abort", None, var]])
                            yield keys_case(0, 0, lines, w, c,
                                            [["start", d]] + ty + [["incr", o, var], ["incr", o, var],
                                                                   ["accept", None, var], ["start", d],
                                                                   ["accept", None, var]])
                            yield keys_case(0, 0, lines, w, c,
                                            [["start", d]] + ty + [["bs"], ["type", "b"], ["accept", None, var]])
                            # vi: start, type, accept, n / N with counts
                            for k in (1, 2, 3):
                                yield keys_case(1, 0, lines, w, c,
                                                [["start", d, var]] + ty + [["accept", None, var], ["next", k, var],
                                                                            ["prev", k, var], ["prev", 1], ["next", 1]])
                            yield keys_case(1, 0, lines, w, c,
                                            [["start", d, var]] + ty + [["bs"]] * (len(sub) + 1) + [["next", 1]])


KEY_ALPHA = ["a", "a", "b", "A", ".", "*", " ", "n", "/"]


def random_keys(tier, rng):
    n = 700 if tier == "quick" else 16000
    for _ in range(n):
        vi = rng.random() < 0.5
        ic = rng.random() < 0.4
        alpha = ["a", "a", "b", "A", "B", "\n", ".", "*", " ", "n"] + ([] if ic else ["é"])
        nl = rng.choice([1, 2, 2, 3, 4])
        lines = [rand_text(rng, alpha, rng.choice([0, 2, 4, 8])) for _ in range(nl)]
        w = rng.randrange(nl)
        c = rng.choice([0, len(lines[w]), rng.randrange(len(lines[w]) + 1)])
        ops = []
        searching, flen = False, 0
        for _ in range(rng.randrange(2, 14)):
            if not searching:
                r = rng.random()
                if vi and r < 0.45:
                    ops.append([rng.choice(["next", "prev"]), rng.choice([1, 1, 1, 2, 3]), rng.randrange(2)])
                elif not vi and r < 0.25:
                    ops.append(["type", rng.choice(KEY_ALPHA)])
                else:
                    ops.append(["start", rng.choice([F, B]), rng.randrange(2)])
                    searching, flen = True, 0
            else:
                r = rng.random()
                if r < 0.4:
                    # bias towards characters of the history so that needles occur
                    pool = [ch for t in lines for ch in t if ch != "\n"] or KEY_ALPHA
                    ch = rng.choice(pool if rng.random() < 0.7 else KEY_ALPHA)
                    if ic and not ch.isascii():
                        ch = "a"
                    ops.append(["type", ch])
                    flen += 1
                elif r < 0.5:
                    ops.append(["bs"])
                    if flen == 0 and vi:
                        searching = False
                    flen = max(0, flen - 1)
                elif r < 0.75:
                    ops.append(["incr", rng.choice([F, B]), rng.randrange(2)])
                elif r < 0.92:
                    ops.append(["accept", None, rng.randrange(2)])
                    searching, flen = False, 0
                else:
                    ops.append(["abort", None, rng.randrange(2)])
                    searching, flen = False, 0
        yield keys_case(vi, ic, lines, w, c, ops)


def motion_cases(tier, rng):
    """Vi `n`/`N` as a motion (get_search_position end to end): oracle only"""
    hists = [["xxxxab", "ab hello"], ["ab", "xab ab"], ["b", "aab\nab"]]
    for lines in hists:
        for w in range(len(lines)):
            for c in range(len(lines[w]) + 1):
                for sub in ["ab", "a"]:
                    for d in (F, B):
                        for op in ("v", "d"):
                            if op == "d" and "\n" in lines[w]:
                                continue   # operator ranges that cross a line end follow Vi's own rules (C08)
                            for key in ("n", "N"):
                                yield {"kind": "motion", "ic": 0, "lines": lines, "widx": w, "cur": c, "sub": sub,
                                       "dir": d, "op": op, "key": key, "count": 1}
    n = 150 if tier == "quick" else 2000
    for _ in range(n):
        ic = rng.random() < 0.3
        alpha = ["a", "a", "b", "A", "\n", " ", "."]
        nl = rng.choice([1, 2, 3])
        lines = [rand_text(rng, alpha, rng.choice([0, 3, 6, 9])) for _ in range(nl)]
        w = rng.randrange(nl)
        op = rng.choice(["v", "d"])
        if op == "d":
            lines[w] = lines[w].replace("\n", " ")
        yield {"kind": "motion", "ic": int(ic), "lines": lines, "widx": w,
               "cur": rng.randrange(len(lines[w]) + 1), "sub": rand_needle(rng, lines, alpha, 2).replace("\n", "a"),
               "dir": rng.choice([F, B]), "op": op, "key": rng.choice(["n", "N"]),
               "count": rng.choice([1, 1, 1, 2])}


def cases(tier, rng):
    yield from exhaustive_api(tier)
    yield from scripted_keys(tier)
    yield from motion_cases(tier, rng)
    yield from random_api(tier, rng)
    yield from random_keys(tier, rng)


# ------------------------------------------------------------------ evidence helpers
def sample_view(case):
    return case


def nontrivial(case):
    if case["kind"] == "motion":
        return any(occs(t, case["sub"], case["ic"]) for t in case["lines"])
    if case["kind"] == "api":
        return bool(case["sub"]) and any(occs(t, case["sub"], case["ic"]) for t in case["lines"])
    return any(op[0] in ("incr", "accept", "next", "prev") for op in case["ops"]) and \
        any(op[0] == "type" for op in case["ops"])


def distribution(cases_):
    d = {"kind": {}, "entries": {}, "needle_len": {}, "ignore_case": {}, "mode": {}, "ops": {}, "api_queries": 0}
    for c in cases_:
        d["kind"][c["kind"]] = d["kind"].get(c["kind"], 0) + 1
        k = str(len(c["lines"]))
        d["entries"][k] = d["entries"].get(k, 0) + 1
        d["ignore_case"][str(c["ic"])] = d["ignore_case"].get(str(c["ic"]), 0) + 1
        if c["kind"] == "motion":
            d["ops"][c["op"] + c["key"]] = d["ops"].get(c["op"] + c["key"], 0) + 1
        elif c["kind"] == "api":
            k = str(len(c["sub"]))
            d["needle_len"][k] = d["needle_len"].get(k, 0) + 1
            d["api_queries"] += len(api_queries(c))
        else:
            m = "vi" if c["vi"] else "emacs"
            d["mode"][m] = d["mode"].get(m, 0) + 1
            for op in c["ops"]:
                d["ops"][op[0]] = d["ops"].get(op[0], 0) + 1
    return d


if __name__ == "__main__":
    sys.exit(core.main(sys.modules[__name__]))
