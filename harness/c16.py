#!/venv/bin/python
"""C16 — search lands on a real, nearest occurrence: correspondence with Ptk.Model.C16 + property oracle.

Two kinds of cases:
  kind "api"  : Buffer._search / apply_search / document_for_search / get_search_position and
                Document.find / find_backwards called directly on the real objects
  kind "keys" : a real PromptSession driven key by key (emacs: C-r C-s Up Down Enter Esc C-g C-c,
                vi: / ? C-r C-s n N with counts), observed after every key, including the Document that
                BufferControl.create_content displays (the incremental-search preview)
  kind "motion": oracle only — Vi `n` / `N` used as a motion (`v n`, `d n`: get_search_position end to end)
  kind "find" : Document.find / find_backwards with in_current_line / include_current_position / count
  kind "world": a real Application whose layout has several BufferControls (sharing a search field, with a
                field of their own, not searchable), several SearchBufferControls and a non-buffer control,
                driven by keys, focus changes and start_search() calls; every buffer, field, link and the
                Document every control displays are observed after every step
Keys of "keys" cases reach the model as PHYSICAL keys (`raw <key> <arg>`): which handler they run is looked
up in the binding table that harness/gen_c16.py extracts from the real key bindings on every run.
"""
from __future__ import annotations

import asyncio
import itertools
import os
import sys
from collections import deque

sys.path.insert(0, os.path.dirname(os.path.abspath(__file__)))
import core
from core import enc_str, enc_list

from prompt_toolkit.buffer import Buffer
from prompt_toolkit.document import Document
from prompt_toolkit.layout.controls import BufferControl
from prompt_toolkit.search import SearchDirection, SearchState

ID = "C16"
DRIVER = "drv_c16"
PROPS = ["Ptk.Props.C16Scan", "Ptk.Props.C16Search", "Ptk.Props.C16", "Ptk.Props.C16Keys", "Ptk.Props.C16World", "Ptk.Props.C16Dispatch", "Ptk.Props.C16Spec", "Ptk.Props.C16Fold", "Ptk.Props.C16Find"]
LEVEL_TEXT = ("Lean 4 theorems over an executable model that follows, line by line, Document.find / find_backwards "
              "(all parameters: in_current_line, include_current_position, count), Buffer._search (wrap-around loops, "
              "count iteration), apply_search, document_for_search, get_search_position, SearchState.__invert__, "
              "search.start_search / stop_search / do_incremental_search / accept_search, the search field as a buffer "
              "of its own (typing, backspace, history recall via auto_up / auto_down, append_to_history, reset + reload), "
              "Vi n N * # (word under the cursor), Emacs n / N on a read-only buffer (negative / zero arguments), "
              "the BufferControl preview, layouts with several BufferControls / search fields / SearchStates "
              "(search_links, current_search_state, not searchable controls), and the dispatch of physical keys through "
              "a binding table regenerated from the real key bindings on every run. Proved for all histories, texts, "
              "cursors, needles, directions, counts, comparisons (case-sensitive, ASCII folding, the interpreter's "
              "re.IGNORECASE classes regenerated from the running Python) and key sequences: a declarative visit-order "
              "SPEC with model = spec (refinement) from which soundness, nearest-first and completeness follow, the "
              "exact set of occurrences the wrap-around can never reach, preview = accept (single control and over "
              "a layout), typing / recalling never touches any buffer, abort restores exactly after field keys, accept "
              "with no match, only the searched control's buffer ever moves, safety for every binding table; the model "
              "is tied to /repo on every run by generated tables with kernel-decided side conditions, a differential "
              "correspondence (exhaustive small scope + random; API level, key by key through a real PromptSession, and "
              "through a real multi-control Application) and the property oracle")
LEVEL_NOTE = ("trusted: Lean kernel, axioms propext/Classical.choice/Quot.sound only; the hand-written model "
              "(validated by the correspondence, not proved equal to the Python); `re` finditer on an escaped "
              "literal = leftmost non-overlapping literal occurrences; the folding table is what `re` did on the BMP "
              "when gen_c16.py ran it (characters without case: sampled); handler name -> model key map is hand-written, "
              "(state, key) -> handler name is generated")
RULE = ("exhaustive: every history of 1-3 short entries over a small alphabet (with newline, upper/lower case, regex "
        "metacharacters, accented / Turkish-i / sigma letters) x every needle up to the tier's bound x every working "
        "index x every cursor x both directions x include_current_position x counts 1..3 (API level); Document.find / "
        "find_backwards x in_current_line x include_current_position x counts 0..4 x all cursors; scripted key sessions "
        "over small states (start, type, next, previous, accept, abort, field history, Vi n N * #, Emacs read-only n N "
        "with signed arguments) and scripted multi-control sessions; then seeded random larger histories / needles "
        "(needles biased to substrings that occur), random state-aware key sequences in emacs and vi mode and random "
        "layouts (1-3 buffers, 2-4 controls, 1-2 search fields, focus changes, start_search API calls); a case is "
        "non-trivial when the needle occurs somewhere (api, find) / when a search key is applied with a needle that "
        "occurs (keys, world)")
EXHAUSTIVE = True
EXHAUSTIVE_SCOPE = {
    "quick": "api: 1 entry len<=4 over {a,b,\\n} x needles len<=2; 2 entries len<=2 / 3 entries len<=1 over {a,b} x "
             "6 needles x counts 1..3; {a,A} len<=3 x case on/off; {é,É,e} / {i,I,ı,İ} / {σ,ς,Σ,s,ſ} len<=2 x case on/off; "
             "{a,.,*} len<=3 x metachar needles; all widx/cursors/directions/include_current; find: texts len<=4 over "
             "{a,b,\\n} x 6 needles x counts 0..4 x in_current_line x include_current x all cursors; keys: scripted "
             "sessions over 2-entry histories, * / # at every cursor of 2 histories; world: scripted 4-control layout",
    "thorough": "api: 1 entry len<=5 over {a,b,\\n} x needles len<=2 (+len 3 over {a,b}); 2 entries len<=3 / 3 entries "
                "len<=2 over {a,b} x 6 needles x counts 1..3; {a,A} len<=4 x case on/off; non-ASCII case alphabets "
                "len<=3; {a,.,*} len<=4 x metachar needles; find: texts len<=5; keys: scripted sessions over 2-3-entry "
                "histories, * / # at every cursor of 4 histories with counts 1..3; world: scripted layouts incl. two "
                "views of one buffer",
}
TRUSTED = ["harness/c16.py compares _search result, apply_search state, document_for_search, get_search_position, "
           "find/find_backwards (all parameters), and after every key: working lines, working_index, cursor, search "
           "field text + working lines + index + history, SearchState text/direction, is_searching and the displayed "
           "(preview) Document; in multi-control layouts additionally focus, every buffer, every search field with "
           "its search link, and the Document every control displays",
           "Ptk/Model/C16.lean, C16World.lean, C16Keys.lean are hand translations of the anchored code "
           "(correspondence-checked); harness/gen_c16.py is trusted to print the binding table / folding classes it "
           "obtains from the live objects faithfully"]
ASSUMPTIONS = ["CPython str semantics; re.finditer(re.escape(sub), t) yields the leftmost literal occurrence first and "
               "then non-overlapping ones",
               "re.IGNORECASE on str = the folding classes gen_c16.py observed by running re on every BMP character that "
               "has case (cached per interpreter + Unicode version); characters without case match only themselves "
               "(200 sampled); characters outside the BMP are not generated under ignore_case",
               "count >= 1 for Buffer._search (asserted there; key bindings pass event.arg, Emacs jump guards it)",
               "key sessions: PromptSession defaults (reverse_vi_search_direction=True, preview_search=True), the "
               "search field's cursor stays at its end (only typing / backspace / history recall in the field), no "
               "newline is typed into the field, the focused search field is rendered (its history load completes) "
               "after every key, keys outside the generated binding table's key set are not pressed",
               "multi-control layouts: static search_buffer_control per control; in Vi mode the focus does not leave a "
               "focused search field except through accept / abort; numeric arguments only where the key processor "
               "accepts them (Vi navigation mode, Emacs outside the search field)"]
PARTIAL_SCOPE = ["backward search only sees occurrences that END at or before the cursor, also for the preview / Enter "
                 "after C-r (so Enter after C-r moves one occurrence further back); modelled as is, stated in the SPEC "
                 "(visitBwd) and proved; 'nearest' is relative to that visit order",
                 "wrap-around revisits only entry 0 (forward) / the last entry (backward): the never-visited region is "
                 "characterised exactly (never_visited_fwd/bwd); those occurrences are not 'ahead', no violation",
                 "abort (C-g / C-c) keeps what C-r / C-s already applied: it restores the original position only if "
                 "nothing but field keys were pressed (abort_restores); the property does not speak about abort: "
                 "recorded as an observation with a Lean witness replayed on the real editor",
                 "accepting with an EMPTY search field re-applies the previous needle while the preview shows the "
                 "unmoved document (needle empty: outside the property's quantifier); modelled as is",
                 "ignore-case with the 103 BMP characters whose lower / upper case is not a single character (ß, İ, ŉ, …): "
                 "model and correspondence cover them, the independent oracle abstains; non-BMP characters under "
                 "ignore_case: not modelled",
                 "selection kept/dropped by document_for_search, Vi `n`/`N` as a motion after an operator / in visual "
                 "mode (get_search_position is modelled and proved, the selection / deletion around it is exercised by "
                 "the oracle only), the key processor's numeric-argument and escape-prefix handling, enable_history_search "
                 "in the search field, a callable search_buffer_control that changes over time, mouse handling: not modelled",
                 "Vi f F t T ; , themselves (only Document.find / find_backwards, which they call, are modelled)"]
MODELLED = {
    "src/prompt_toolkit/document.py": [
        "Document.find", "Document.find_backwards", "Document.find_boundaries_of_current_word",
        "Document.get_word_under_cursor", "Document.text_before_cursor", "Document.text_after_cursor",
        "Document.current_line_before_cursor", "Document.current_line_after_cursor",
        "Document.is_cursor_at_the_end_of_line"],
    "src/prompt_toolkit/buffer.py": [
        "Buffer._search", "Buffer._search.search_once", "Buffer.apply_search", "Buffer.document_for_search",
        "Buffer.get_search_position", "Buffer.append_to_history", "Buffer.history_backward", "Buffer.history_forward",
        "Buffer.auto_up", "Buffer.auto_down", "Buffer.working_index", "Buffer.cursor_position",
        "Buffer.load_history_if_not_yet_loaded", "Buffer.load_history_if_not_yet_loaded.load_history"],
    "src/prompt_toolkit/search.py": [
        "SearchState.__init__", "SearchState.__invert__", "start_search", "stop_search", "do_incremental_search",
        "accept_search", "_get_reverse_search_links"],
    "src/prompt_toolkit/key_binding/bindings/search.py": [
        "abort_search", "accept_search", "start_reverse_incremental_search", "start_forward_incremental_search",
        "reverse_incremental_search", "forward_incremental_search"],
    "src/prompt_toolkit/key_binding/bindings/vi.py": [
        "search_buffer_is_empty", "load_vi_bindings._prev_occurrence", "load_vi_bindings._next_occurrence",
        "load_vi_bindings._search_next2", "load_vi_bindings._search_previous2", "load_vi_search_bindings"],
    "src/prompt_toolkit/key_binding/bindings/emacs.py": [
        "load_emacs_search_bindings", "load_emacs_search_bindings.jump", "load_emacs_search_bindings._jump_next",
        "load_emacs_search_bindings._jump_prev"],
    "src/prompt_toolkit/layout/controls.py": [
        "BufferControl.search_buffer_control", "BufferControl.search_state", "BufferControl.create_content"],
    "src/prompt_toolkit/layout/layout.py": ["Layout.is_searching", "Layout.search_target_buffer_control"],
    "src/prompt_toolkit/application/application.py": ["Application.current_search_state"],
    "src/prompt_toolkit/filters/app.py": ["is_searching", "control_is_searchable"],
    "src/prompt_toolkit/key_binding/key_processor.py": ["KeyProcessor._fix_vi_cursor_position"],
}
TECHNIQUE = "lean-proof+correspondence"
ANCHORS = ["src/prompt_toolkit/buffer.py", "src/prompt_toolkit/document.py", "src/prompt_toolkit/search.py",
           "src/prompt_toolkit/key_binding/bindings/search.py", "src/prompt_toolkit/layout/controls.py"]

F, B = "F", "B"


# ------------------------------------------------------------------ real-code helpers
def mk_buffer(lines, widx, cur) -> Buffer:
    b = Buffer()
    b._working_lines = deque(lines)
    b._Buffer__working_index = widx
    b._Buffer__cursor_position = cur
    return b


def mk_state(sub, d, ic) -> SearchState:
    return SearchState(text=sub, direction=SearchDirection.FORWARD if d == F else SearchDirection.BACKWARD,
                       ignore_case=bool(ic))


_CASESET = {}


def _caseset(c):
    """c together with its single-character lower / upper case forms (and theirs)"""
    r = _CASESET.get(c)
    if r is None:
        r = {c}
        for f in (c.lower(), c.upper()):
            if len(f) == 1:
                r.add(f)
                for g in (f.lower(), f.upper()):
                    if len(g) == 1:
                        r.add(g)
        _CASESET[c] = r
    return r


def ceq(a, b):
    """the same letter ignoring case, stated with str.lower / str.upper only (no regular expressions):
    the two characters share a lower / upper case form"""
    return a == b or bool(_caseset(a) & _caseset(b))


def ambiguous(c):
    """characters whose lower or upper case form is not a single character (ß, İ, ŉ, ǰ, ΐ, …): what
    "the same letter ignoring case" means for them is not defined by str.lower / str.upper alone;
    the oracle does not judge ignore-case searches that involve them (the correspondence does)"""
    return len(c.lower()) != 1 or len(c.upper()) != 1


def occs(t: str, sub: str, ic) -> list[int]:
    """all start positions of `sub` in `t` (independent of the code under test)"""
    n = len(sub)
    if not ic:
        return [p for p in range(len(t) - n + 1) if t[p:p + n] == sub]
    return [p for p in range(len(t) - n + 1) if all(ceq(sub[i], t[p + i]) for i in range(n))]


# ------------------------------------------------------------------ queries of an api case
def api_queries(case):
    """[(widx, cur, dir, incl, count)]"""
    lines = case["lines"]
    qs = []
    counts = case.get("counts", [1])
    if "queries" in case:
        return [tuple(q) for q in case["queries"]]
    for w in range(len(lines)):
        for c in range(len(lines[w]) + 1):
            for d in (F, B):
                for incl in (0, 1):
                    for k in counts:
                        qs.append((w, c, d, incl, k))
    return qs


def find_queries(case):
    """[(line index, cur)] for Document-level find / find_backwards lines"""
    if not case.get("finds"):
        return []
    return [(i, c) for i, t in enumerate(case["lines"]) for c in range(len(t) + 1)]


def model_lines_api(case):
    lines, sub, ic = case["lines"], case["sub"], case["ic"]
    head = "api " + enc_list(lines, enc_str)
    out = []
    for (w, c, d, incl, k) in api_queries(case):
        out.append(f"{head} {w} {c} {enc_str(sub)} {d} {incl} {ic} {k}")
    for (i, c) in find_queries(case):
        t = enc_str(lines[i])
        out.append(f"find {t} {c} {enc_str(sub)} 0 {ic}")
        out.append(f"find {t} {c} {enc_str(sub)} 1 {ic}")
        out.append(f"findb {t} {c} {enc_str(sub)} {ic}")
    return out


def impl_lines_api(case):
    lines, sub, ic = case["lines"], case["sub"], case["ic"]
    out = []
    for (w, c, d, incl, k) in api_queries(case):
        ss = mk_state(sub, d, ic)
        b = mk_buffer(lines, w, c)
        r = b._search(ss, include_current_position=bool(incl), count=k)
        b2 = mk_buffer(lines, w, c)
        b2.apply_search(ss, include_current_position=bool(incl), count=k)
        dd = mk_buffer(lines, w, c).document_for_search(ss)
        g = mk_buffer(lines, w, c).get_search_position(ss, include_current_position=bool(incl), count=k)
        rs = "N" if r is None else f"{r[0]},{r[1]}"
        out.append(f"search={rs} apply={b2.working_index},{b2.cursor_position} "
                   f"dfs={enc_str(dd.text)},{dd.cursor_position} gsp={g}")
    for (i, c) in find_queries(case):
        doc = Document(lines[i], c)
        for incl in (False, True):
            r = doc.find(sub, include_current_position=incl, ignore_case=bool(ic))
            out.append(core.enc_opt_int(r))
        out.append(core.enc_opt_int(doc.find_backwards(sub, ignore_case=bool(ic))))
    return out


# ------------------------------------------------------------------ key sessions on the real editor
import gen_c16

# op -> the physical key (name of gen_c16.NAMED or "ch:<code point>") that is pressed for it; WHICH handler
# that key runs in the current state is decided by the real bindings on one side and by the binding
# table generated from them (Ptk.Gen.C16.bindTable) on the model side
EMACS_KEYS = {
    ("start", B): ["c-r"], ("start", F): ["c-s"],
    ("incr", B): ["c-r", "up"], ("incr", F): ["c-s", "down"],
    ("accept", None): ["enter", "escape"], ("abort", None): ["c-g", "c-c"], ("bs", None): ["backspace"],
}
VI_KEYS = {
    ("start", B): ["ch:47", "c-r"], ("start", F): ["ch:63", "c-s"],       # `/` `?` (directions reversed)
    ("incr", B): ["c-r"], ("incr", F): ["c-s"],
    ("accept", None): ["enter", "escape"], ("abort", None): ["c-g", "c-c"], ("bs", None): ["backspace"],
}


def arg_prefix(vi, k):
    """the keys that give a handler the numeric argument k (Vi navigation mode: digits;
    Emacs: Esc-digits, Esc-minus for a negative one)"""
    k = int(k)
    if vi:
        assert k >= 1
        return "" if k == 1 else str(k)
    if k == 1:
        return ""
    if k == -1:
        return "\x1b-"
    return "\x1b" + ("-" + str(-k) if k < 0 else str(k))


def op_key(vi, op):
    """(key name, numeric argument) pressed for an op"""
    name = op[0]
    var = op[2] if len(op) > 2 else 0
    if name == "type":
        return "ch:%d" % ord(op[1]), 1
    if name == "hup":
        return ("up" if vi else "c-p"), 1       # Buffer.auto_up in the search field
    if name == "hdown":
        return ("down" if vi else "c-n"), 1
    if name in ("star", "hash"):
        assert vi
        return ("ch:42" if name == "star" else "ch:35"), int(op[1])
    if name in ("jn", "jp"):
        assert not vi
        return ("ch:110" if name == "jn" else "ch:78"), int(op[1])
    if name in ("next", "prev"):
        assert vi
        return ("ch:110" if name == "next" else "ch:78"), int(op[1])
    table = VI_KEYS if vi else EMACS_KEYS
    alts = table[(name, op[1] if name in ("start", "incr") else None)]
    if name == "start" and not vi and var >= 2:
        # Emacs, read-only buffer: `/` and `?` start a search like in Vi (directions reversed by
        # PromptSession's reverse_vi_search_direction=True)
        return ("ch:47" if op[1] == B else "ch:63"), 1
    return alts[var % len(alts)], 1


def raw_key(vi, op):
    name, arg = op_key(vi, op)
    return arg_prefix(vi, arg) + (gen_c16.NAMED[name] if name in gen_c16.NAMED else chr(int(name[3:])))


class Session:
    """a real PromptSession whose main buffer is put into a given (working lines, index, cursor) state"""

    def __init__(self, ed, vi, lines, widx, cur, fhist=()):
        self.ed, self.vi = ed, vi
        b = ed.buffer
        self.b = b
        self.sb = ed.session.search_buffer
        for x in fhist:                       # the search field's own history (oldest first)
            self.sb.history.append_string(x)

        async def load():
            b.load_history_if_not_yet_loaded()
            for _ in range(4):
                await asyncio.sleep(0)

        ed._loop.run_until_complete(load())
        if vi:
            ed.feed("\x1b")  # insert -> navigation mode
        b._working_lines = deque(lines)
        b._Buffer__working_index = widx
        b._Buffer__cursor_position = cur
        if vi:
            ed.feed("\x1b")  # a handler call in navigation mode applies the vi cursor fix
        self.ctl = [c for c in ed.app.layout.find_all_controls()
                    if isinstance(c, BufferControl) and c.buffer is b][0]
        self.shown = None
        orig = self.ctl._create_get_processed_line_func

        def spy(document, width, height):
            self.shown = (document.text, document.cursor_position)
            return orig(document, width, height)

        self.ctl._create_get_processed_line_func = spy

    def displayed(self):
        """(text, cursor) of the Document BufferControl.create_content renders for the main buffer"""
        self.shown = None
        self.ctl.create_content(80, 10)
        return self.shown

    def obs(self):
        b = self.b
        ss = self.ctl.search_state
        return {
            "lines": list(b._working_lines), "widx": b.working_index, "cur": b.cursor_position,
            "field": self.ed.session.search_buffer.text, "stext": ss.text,
            "sdir": F if ss.direction == SearchDirection.FORWARD else B,
            "searching": bool(self.ed.app.layout.is_searching), "shown": self.displayed(),
            "fl": list(self.sb._working_lines), "fi": self.sb.working_index,
            "fh": list(self.sb.history.get_strings()),
        }

    def render_field(self):
        """what the renderer does after every key: a focused search field is visible, its
        BufferControl.create_content loads the field's history (async task, run to completion)"""
        lay = self.ed.app.layout
        if not lay.is_searching:
            return
        sc = lay.current_control

        async def go():
            sc.create_content(80, 1)
            for _ in range(6):
                await asyncio.sleep(0)

        self.ed._loop.run_until_complete(go())

    def feed(self, op):
        self.ed.feed(raw_key(self.vi, op))
        self.render_field()


def obs_line(o) -> str:
    return (f"{enc_list(o['lines'], enc_str)} {o['widx']} {o['cur']} | {enc_str(o['field'])} {enc_str(o['stext'])} "
            f"{o['sdir']} {int(o['searching'])} | {enc_str(o['shown'][0])} {o['shown'][1]} | "
            f"{enc_list(o['fl'], enc_str)} {o['fi']} {enc_list(o['fh'], enc_str)}")


_LAST = [None, None]


def run_session(case):
    """observations: [after init, after key 1, ...] (the last case is cached: impl_lines and oracle
    are evaluated one after the other on the same case in the same worker)"""
    import json
    key = json.dumps(case, sort_keys=True)
    if _LAST[0] == key:
        return _LAST[1]
    out = _run_session(case)
    _LAST[0], _LAST[1] = key, out
    return out


def _run_session(case):
    from editor import editor
    out = []
    with editor(text="", vi=bool(case["vi"]), search_ignore_case=bool(case["ic"]),
                read_only=bool(case.get("ro", 0))) as ed:
        s = Session(ed, bool(case["vi"]), case["lines"], case["widx"], case["cur"], case.get("fhist", ()))
        out.append(s.obs())
        for op in case["ops"]:
            s.feed(op)
            out.append(s.obs())
            if ed.done:
                raise RuntimeError("session ended by key " + repr(op))
    return out


def key_line(op):
    name = op[0]
    if name == "type":
        return f"key type {enc_str(op[1])}"
    if name in ("start", "incr", "next", "prev", "star", "hash", "jn", "jp"):
        return f"key {name} {op[1]}"
    return f"key {name}"


def model_lines_keys(case):
    out = [f"initx {case['vi']} {case['ic']} {int(case.get('ro', 0))} {enc_list(case['lines'], enc_str)} "
           f"{case['widx']} {case['cur']} {enc_list(case.get('fhist', []), enc_str)}"]
    for op in case["ops"]:
        name, arg = op_key(case["vi"], op)
        out.append(f"raw {name} {arg}")
    return out


def impl_lines_keys(case):
    return [obs_line(o) for o in run_session(case)]


def run_motion(case):
    """Vi `n` / `N` used as a motion: `v n` (visual) or `d n` (operator) on the real editor, with the
    SearchState of the main buffer set directly.  Returns (before, after) observations."""
    from editor import editor
    with editor(text="", vi=True, search_ignore_case=bool(case["ic"])) as ed:
        s = Session(ed, True, case["lines"], case["widx"], case["cur"])
        ss = s.ctl.search_state
        ss.text = case["sub"]
        ss.direction = SearchDirection.FORWARD if case["dir"] == F else SearchDirection.BACKWARD
        o0 = s.obs()
        k = case["count"]
        ed.feed(case["op"])
        ed.feed(("" if k == 1 else str(k)) + case["key"])
        o1 = s.obs()
        o1["clip"] = ed.app.clipboard.get_data().text
    return o0, o1




# ------------------------------------------------------------------ Document.find / find_backwards in full
def find_queries_x(case):
    """[(cursor, in_current_line, include_current_position, count)]"""
    t = case["text"]
    return [(c, inl, incl, k) for c in range(len(t) + 1) for inl in (0, 1) for incl in (0, 1)
            for k in case["counts"]]


def model_lines_find(case):
    t, sub, ic = enc_str(case["text"]), enc_str(case["sub"]), case["ic"]
    out = []
    for (c, inl, incl, k) in find_queries_x(case):
        out.append(f"findx {t} {c} {sub} {inl} {incl} {ic} {k}")
        if incl:
            out.append(f"findbx {t} {c} {sub} {inl} {ic} {k}")
    return out


def impl_lines_find(case):
    out = []
    for (c, inl, incl, k) in find_queries_x(case):
        doc = Document(case["text"], c)
        out.append(core.enc_opt_int(doc.find(case["sub"], in_current_line=bool(inl),
                                             include_current_position=bool(incl),
                                             ignore_case=bool(case["ic"]), count=k)))
        if incl:
            out.append(core.enc_opt_int(doc.find_backwards(case["sub"], in_current_line=bool(inl),
                                                           ignore_case=bool(case["ic"]), count=k)))
    return out


def oracle_find(case):
    """the count-th occurrence, counting occurrences that do not overlap an earlier counted one, inside
    the region (rest of the text / of the line; text / line before the cursor), nearest first"""
    v = []
    t, sub, ic = case["text"], case["sub"], case["ic"]
    n = len(sub)
    oc = occs(t, sub, ic)
    for (c, inl, incl, k) in find_queries_x(case):
        doc = Document(t, c)
        a = t.rfind("\n", 0, c) + 1 if inl else 0
        e = t.find("\n", c) if inl else -1
        e = len(t) if e < 0 else e
        # forward
        r = doc.find(sub, in_current_line=bool(inl), include_current_position=bool(incl),
                     ignore_case=bool(ic), count=k)
        exp = None
        if k >= 1 and (incl or c < e):
            pos, got = (c if incl else c + 1), []
            while len(got) < k:
                nxt = [p for p in oc if p >= pos and p + n <= e]
                if not nxt:
                    break
                got.append(nxt[0])
                pos = nxt[0] + max(n, 1)
            if len(got) == k:
                exp = got[-1] - c
        if r != exp:
            v.append({"signature": "Document.find | not the count-th occurrence after the cursor",
                      "msg": f"Document({t!r},{c}).find({sub!r}, in_current_line={inl}, include_current_position={incl}, "
                             f"ignore_case={ic}, count={k}) = {r}, expected {exp}"})
        if not incl:
            continue
        r = doc.find_backwards(sub, in_current_line=bool(inl), ignore_case=bool(ic), count=k)
        exp = None
        if k >= 1:
            lim, got = c, []
            while len(got) < k:
                prv = [p for p in oc if p >= a and p + n <= lim]
                if not prv:
                    break
                got.append(prv[-1])
                lim = prv[-1] if n else prv[-1] - 1
            if len(got) == k:
                exp = got[-1] - c
        if r != exp:
            v.append({"signature": "Document.find_backwards | not the count-th occurrence before the cursor",
                      "msg": f"Document({t!r},{c}).find_backwards({sub!r}, in_current_line={inl}, ignore_case={ic}, "
                             f"count={k}) = {r}, expected {exp}"})
    return v


def find_cases(tier, rng):
    q = tier == "quick"
    for t in strings("ab\n", 4 if q else 5):
        for sub in ["a", "b", "ab", "aa", "\n", ""]:
            yield {"kind": "find", "text": t, "sub": sub, "ic": 0, "counts": [0, 1, 2, 3, 4]}
    for t in strings("aA", 4):
        for sub in ["a", "aA", "AA"]:
            yield {"kind": "find", "text": t, "sub": sub, "ic": 1, "counts": [1, 2, 3]}
    for _ in range(150 if q else 3000):
        ic = rng.random() < 0.3
        alpha = (ASCII_ALPHA if rng.random() < 0.5 else UNI_ALPHA) if ic else RAND_ALPHA
        t = rand_text(rng, alpha, rng.choice([3, 6, 10, 16]))
        sub = rand_needle(rng, [t], alpha, 2)
        yield {"kind": "find", "text": t, "sub": sub, "ic": int(ic), "counts": [1, 2, rng.choice([3, 4, 7])]}


# ------------------------------------------------------------------ several controls / search fields
class RealWorld:
    """an Application whose layout has several BufferControls (some sharing a search field, some with
    a field of their own, some not searchable), several SearchBufferControls and one focusable
    control that is not a BufferControl; default key bindings (`load_key_bindings()`)"""

    def __init__(self, case):
        from prompt_toolkit.application import Application
        from prompt_toolkit.enums import EditingMode
        from prompt_toolkit.input import DummyInput
        from prompt_toolkit.output import DummyOutput
        from prompt_toolkit.key_binding.defaults import load_key_bindings
        from prompt_toolkit.layout import Layout, HSplit, Window
        from prompt_toolkit.layout.controls import SearchBufferControl, FormattedTextControl

        self.vi = bool(case["vi"])
        self.bufs = []
        for i, (lines, w, c) in enumerate(case["bufs"]):
            b = Buffer(name=f"b{i}")
            b._working_lines = deque(lines)
            b._Buffer__working_index = w
            b._Buffer__cursor_position = c
            self.bufs.append(b)
        self.sbufs, self.fields = [], []
        for k, (ic, hist) in enumerate(case["fields"]):
            sb = Buffer(name=f"s{k}")
            for x in hist:
                sb.history.append_string(x)
            self.sbufs.append(sb)
            self.fields.append(SearchBufferControl(buffer=sb, ignore_case=bool(ic)))
        self.ctrls = [BufferControl(self.bufs[b], search_buffer_control=(self.fields[f] if f >= 0 else None),
                                    preview_search=True) for (b, f) in case["ctrls"]]
        self.other = FormattedTextControl("not a buffer", focusable=True)
        root = HSplit([Window(c) for c in self.ctrls] + [Window(self.other)] + [Window(f) for f in self.fields])
        self.app = Application(layout=Layout(root, focused_element=self.target(case["focus"])),
                               key_bindings=load_key_bindings(),
                               editing_mode=EditingMode.VI if self.vi else EditingMode.EMACS,
                               reverse_vi_search_direction=True,     # like PromptSession: `/` backward, `?` forward
                               input=DummyInput(), output=DummyOutput())
        self.app.timeoutlen = None
        self.app.ttimeoutlen = None

    def target(self, f):
        return self.other if f[0] == "o" else (self.ctrls[f[1]] if f[0] == "c" else self.fields[f[1]])


class WorldRun:
    def __init__(self, case):
        self.case = case
        self.loop = asyncio.new_event_loop()
        asyncio.set_event_loop(self.loop)

        async def mk():
            return RealWorld(case)

        self.w = self.loop.run_until_complete(mk())
        self.w.app._is_running = True

    def close(self):
        try:
            pending = asyncio.all_tasks(self.loop)
            for t in pending:
                t.cancel()
            if pending:
                self.loop.run_until_complete(asyncio.gather(*pending, return_exceptions=True))
        except Exception:
            pass
        self.loop.close()
        asyncio.set_event_loop(None)

    def run(self, fn):
        async def go():
            r = fn()
            for _ in range(6):
                await asyncio.sleep(0)
            return r
        return self.loop.run_until_complete(go())

    def feed(self, keys):
        from editor import parse_keys
        kp = self.w.app.key_processor

        def go():
            for k in parse_keys(keys):
                kp.feed(k)
                kp.process_keys()
        self.run(go)

    def shown(self, ctl):
        got = {}
        orig = ctl._create_get_processed_line_func

        def spy(document, width, height):
            got["d"] = (document.text, document.cursor_position)
            return orig(document, width, height)

        ctl._create_get_processed_line_func = spy
        try:
            self.run(lambda: ctl.create_content(80, 10))
        finally:
            ctl._create_get_processed_line_func = orig
        return got["d"]

    def obs(self):
        w = self.w
        lay = w.app.layout
        cur = lay.current_control
        if lay.is_searching:           # a focused search field is rendered: its history gets loaded
            self.run(lambda: cur.create_content(80, 1))
        if cur is w.other:
            foc = "o"
        elif cur in w.ctrls:
            foc = f"c{w.ctrls.index(cur)}"
        else:
            foc = f"f{w.fields.index(cur)}"
        fields = []
        for f, sb in zip(w.fields, w.sbufs):
            ss = f.searcher_search_state
            tgt = lay.search_links.get(f)
            fields.append({"text": sb.text, "stext": ss.text,
                           "sdir": F if ss.direction == SearchDirection.FORWARD else B,
                           "link": None if tgt is None else w.ctrls.index(tgt),
                           "fl": list(sb._working_lines), "fi": sb.working_index,
                           "fh": list(sb.history.get_strings())})
        return {"focus": foc, "searching": bool(lay.is_searching),
                "bufs": [(list(b._working_lines), b.working_index, b.cursor_position) for b in w.bufs],
                "fields": fields, "shown": [self.shown(c) for c in w.ctrls]}

    def apply(self, op):
        from prompt_toolkit import search as S
        w = self.w
        if op[0] == "focus":
            self.run(lambda: w.app.layout.focus(w.target(op[1:])))
        elif op[0] == "startfor":
            d = SearchDirection.FORWARD if op[2] == F else SearchDirection.BACKWARD
            self.run(lambda: S.start_search(w.ctrls[op[1]], direction=d))
        else:
            self.feed(raw_key(w.vi, op))


def _run_world(case):
    from prompt_toolkit.application.current import set_app
    from prompt_toolkit.key_binding.vi_state import InputMode
    wr = WorldRun(case)
    out = []
    try:
        with set_app(wr.w.app):
            if wr.w.vi:
                # navigation mode; a key press on every control applies the Vi cursor fix to its buffer
                wr.w.app.vi_state.input_mode = InputMode.NAVIGATION
                start = wr.w.app.layout.current_control
                for c in wr.w.ctrls:
                    wr.run(lambda c=c: wr.w.app.layout.focus(c))
                    wr.feed("\x1b")
                wr.run(lambda: wr.w.app.layout.focus(start))
            out.append(wr.obs())
            for op in case["ops"]:
                wr.apply(op)
                out.append(wr.obs())
    finally:
        wr.close()
    return out


def run_world(case):
    import json
    key = json.dumps(case, sort_keys=True)
    if _LAST[0] == key:
        return _LAST[1]
    out = _run_world(case)
    _LAST[0], _LAST[1] = key, out
    return out


def world_obs_line(o) -> str:
    bs = " ; ".join(f"{enc_list(l, enc_str)} {w} {c}" for (l, w, c) in o["bufs"])
    fs = " ; ".join(f"{enc_str(f['text'])} {enc_str(f['stext'])} {f['sdir']} "
                    f"{'-' if f['link'] is None else f['link']} {enc_list(f['fl'], enc_str)} {f['fi']} "
                    f"{enc_list(f['fh'], enc_str)}" for f in o["fields"])
    ps = " ; ".join(f"{enc_str(t)} {c}" for (t, c) in o["shown"])
    return f"{o['focus']} {int(o['searching'])} | {bs} | {fs} | {ps}"


def model_lines_world(case):
    bs = " ".join(f"{enc_list(l, enc_str)} {w} {c}" for (l, w, c) in case["bufs"])
    cs = " ".join(f"{b} {f}" for (b, f) in case["ctrls"])
    fs = " ".join(f"{ic} {enc_list(h, enc_str)}" for (ic, h) in case["fields"])
    foc = " ".join(str(x) for x in case["focus"])
    out = [f"winit {case['vi']} {len(case['bufs'])} {bs} {len(case['ctrls'])} {cs} {len(case['fields'])} {fs} {foc}"]
    for op in case["ops"]:
        if op[0] == "focus":
            out.append("wkey focus " + " ".join(str(x) for x in op[1:]))
        elif op[0] == "startfor":
            out.append(f"wkey startfor {op[1]} {op[2]}")
        else:
            out.append("wkey " + key_line(op))
    return out


def impl_lines_world(case):
    return [world_obs_line(o) for o in run_world(case)]


def oracle_world(case):
    """C16 over several controls: a search key only ever moves the buffer of the control being
    searched; typing in a search field moves nothing; only the searched control shows a preview and
    it shows where Enter then goes; accept / next land on a real, nearest occurrence"""
    v = []
    vi = case["vi"]
    obs = run_world(case)
    for i, op in enumerate(case["ops"]):
        o0, o1 = obs[i], obs[i + 1]
        name = op[0]
        tag = f"world {'vi' if vi else 'emacs'} {name}"

        def bad(cond, msg):
            v.append({"signature": f"{tag} | {cond}", "msg": f"{msg}: step {i} {op} of {case}: before={o0} after={o1}"})

        # which control / buffer / field is being searched before the key
        tgt = fld = None
        if o0["focus"][0] == "f":
            fld = int(o0["focus"][1:])
            tgt = o0["fields"][fld]["link"]
        elif o0["focus"][0] == "c":
            tgt = int(o0["focus"][1:])
            fld = case["ctrls"][tgt][1] if case["ctrls"][tgt][1] >= 0 else None
        tb = None if tgt is None else case["ctrls"][tgt][0]
        for j, (b0, b1) in enumerate(zip(o0["bufs"], o1["bufs"])):
            if b0[0] != b1[0] and not (name == "type" and not o0["searching"] and j == tb):
                bad("text changed", f"buffer {j}: a search key changed text")
            if j != tb and b0 != b1:
                bad("moved a buffer that is not searched", f"buffer {j} changed although control {tgt} is searched")
        if name in ("focus", "startfor"):
            if [b for b in o0["bufs"]] != [b for b in o1["bufs"]]:
                bad("focus / start moved a cursor", "focus / start_search changed a buffer")
            continue
        if tb is None:
            if o0["bufs"] != o1["bufs"] or o0["focus"] != o1["focus"]:
                bad("key without a buffer control changed something", "no BufferControl has the focus")
            continue
        b0, b1 = o0["bufs"][tb], o1["bufs"][tb]
        leaves = vi and o0["searching"] and not o1["searching"]
        same = b0 if not leaves else (b0[0], b0[1], vifix(b0[0], b0[1], b0[2]))
        if name in ("type", "bs", "hup", "hdown") and o0["searching"] and tuple(same) != tuple(b1):
            bad("typing moved the real cursor", "typing in the search field changed the searched buffer")
        if name in ("start", "abort") and tuple(same) != tuple(b1):
            bad("start/abort moved the cursor", "start/abort changed the searched buffer")
        if name == "start" and fld is None and (o1["searching"] or o1["focus"] != o0["focus"]):
            bad("search started from a control that is not searchable", "start must do nothing here")
        # previews: only the searched control, and only while its field is non-empty
        for j, sh in enumerate(o1["shown"]):
            bj = o1["bufs"][case["ctrls"][j][0]]
            real = (bj[0][bj[1]], bj[2])
            is_target = o1["searching"] and o1["fields"][int(o1["focus"][1:])]["link"] == j
            if not is_target and sh != real:
                bad("preview in a control that is not searched", f"control {j} shows {sh}, real document {real}")
        if fld is not None and name == "accept" and o0["searching"]:
            f0 = o0["fields"][fld]
            ic = case["fields"][fld][0]
            if f0["text"]:
                exp = o0["shown"][tgt] if not vi else (o0["shown"][tgt][0], vifix_text(*o0["shown"][tgt]))
                if exp != (b1[0][b1[1]], b1[2]):
                    bad("preview differs from accept", "displayed preview != position after accepting")
                v.extend(check_move(tag, b0[0], b0[1], b0[2], f0["text"], ic, f0["sdir"], 1, 1, b1[1], b1[2],
                                    vi_fix=bool(vi)))
            if o1["searching"] or o1["focus"] != f"c{tgt}":
                bad("still searching", "accept did not return to the searched control")
        if fld is not None and name == "incr" and o0["searching"]:
            f0 = o0["fields"][fld]
            ic = case["fields"][fld][0]
            # requested direction: the same direction key twice in a row (same focus) asks for a move
            again = (i > 0 and case["ops"][i - 1][0] == "incr" and case["ops"][i - 1][1] == op[1]
                     and obs[i - 1]["searching"] and obs[i - 1]["focus"] == o0["focus"])
            if f0["sdir"] == op[1] or again:
                v.extend(check_move(tag, b0[0], b0[1], b0[2], f0["text"], ic, op[1], 0, 1, b1[1], b1[2]))
            elif tuple(b0) != tuple(b1):
                bad("direction change moved", "changing direction must not move")
        if name in ("next", "prev") and not o0["searching"] and vi:
            if fld is not None:
                f0 = o0["fields"][fld]
                ic, needle, d0 = case["fields"][fld][0], f0["stext"], f0["sdir"]
            else:
                ic, needle, d0 = 0, "", F          # Application.current_search_state: a dummy SearchState()
            d = d0 if name == "next" else (B if d0 == F else F)
            v.extend(check_move(tag, b0[0], b0[1], b0[2], needle, ic, d, 0, int(op[1]), b1[1], b1[2], vi_fix=True))
        if name in ("star", "hash") and not o0["searching"] and vi:
            ic = case["fields"][fld][0] if fld is not None else 0
            word = word_under(b0[0][b0[1]], b0[2])
            v.extend(check_move(tag, b0[0], b0[1], b0[2], word, ic, F if name == "star" else B, 0, int(op[1]),
                                b1[1], b1[2], vi_fix=True))
    return v


def model_lines(case):
    if case["kind"] == "find":
        return model_lines_find(case)
    if case["kind"] == "world":
        return model_lines_world(case)
    if case["kind"] == "motion":
        return []          # oracle only: selection / deletion are outside the model
    return model_lines_api(case) if case["kind"] == "api" else model_lines_keys(case)


def impl_lines(case):
    if case["kind"] == "find":
        return impl_lines_find(case)
    if case["kind"] == "world":
        return impl_lines_world(case)
    if case["kind"] == "motion":
        return []
    return impl_lines_api(case) if case["kind"] == "api" else impl_lines_keys(case)


# ------------------------------------------------------------------ oracle
def ahead(lines, w, c, sub, ic, d, incl):
    """occurrences (entry, position) that lie ahead of (w, c) in the direction of travel, nearest first.
    forward: in the current entry from the cursor (behind it when the current position is excluded),
    then the later entries; backward: in the current entry ending at or before the cursor, then the
    earlier entries."""
    res = []
    n = len(sub)
    if d == F:
        lo = c if incl else c + 1
        res += [(w, p) for p in occs(lines[w], sub, ic) if p >= lo]
        for j in range(w + 1, len(lines)):
            res += [(j, p) for p in occs(lines[j], sub, ic)]
    else:
        res += [(w, p) for p in reversed(occs(lines[w], sub, ic)) if p + n <= c]
        for j in range(w - 1, -1, -1):
            res += [(j, p) for p in reversed(occs(lines[j], sub, ic))]
    return res


def steps_in_entry(lines, w, c, sub, ic, d, incl, k):
    """where k single-step searches, counted one by one on the independent occurrence list, end when
    every step finds its nearest occurrence ahead inside the current entry; None when some step has
    to leave the entry (then other entries / the wrap-around decide)"""
    pos = c
    for _ in range(k):
        a = ahead(lines, w, pos, sub, ic, d, incl)
        if not a or a[0][0] != w:
            return None
        pos = a[0][1]
    return pos


def vifix_text(t, c):
    """Vi navigation mode: the cursor does not rest behind the last character of a non-empty line"""
    a = t.rfind("\n", 0, c) + 1
    e = t.find("\n", c)
    e = len(t) if e < 0 else e
    return c - 1 if (c == e and e > a) else c


def vifix(lines, w, c):
    return vifix_text(lines[w], c)


_WS = __import__("re").compile(r"\s")


def _kind(ch):
    if ch.isascii() and (ch.isalnum() or ch == "_"):
        return "w"
    return "s" if _WS.match(ch) else "p"


def word_under(t, c):
    """the word under the cursor, restated without regular expressions: the maximal run of
    same-kind (word / punctuation) characters around the cursor within the line; the part before the
    cursor only counts when it is of the same kind as the character under the cursor"""
    a = t.rfind("\n", 0, c) + 1
    e = t.find("\n", c)
    e = len(t) if e < 0 else e
    hi = c
    if c < e and _kind(t[c]) != "s":
        while hi < e and _kind(t[hi]) == _kind(t[c]):
            hi += 1
    lo = c
    if c > a and _kind(t[c - 1]) != "s":
        while lo > a and _kind(t[lo - 1]) == _kind(t[c - 1]):
            lo -= 1
    if lo < c and hi > c and _kind(t[c - 1]) != _kind(t[c]):
        lo = c
    return t[lo:hi]


def check_move(site, lines, w, c, sub, ic, d, incl, count, nw, nc, vi_fix=False):
    """the C16 statement for one applied search that took (w, c) to (nw, nc).
    vi_fix: the key returns to Vi navigation mode, where an unmoved cursor that sits behind the last
    character of a line is pulled back by one (not a search move)."""
    v = []

    def bad(cond, msg):
        v.append({"signature": f"{site} | {cond}",
                  "msg": f"{msg}: lines={lines!r} widx={w} cur={c} needle={sub!r} dir={d} incl={incl} ic={ic} "
                         f"count={count} -> widx={nw} cur={nc}"})

    if not (0 <= nw < len(lines) and 0 <= nc <= len(lines[nw])):
        bad("position out of range", "result outside the history / text")
        return v
    stays = {(w, c)}
    if vi_fix:
        stays.add((w, vifix(lines, w, c)))
    moved = (nw, nc) not in stays
    if moved and nc not in occs(lines[nw], sub, ic):
        bad("lands where the needle does not occur", "moved to a position without an occurrence")
    if sub and count == 1:
        a = ahead(lines, w, c, sub, ic, d, incl)
        if a and (nw, nc) != a[0]:
            if not moved:
                bad("occurrence ahead not found", "an occurrence lies ahead but the position did not change")
            else:
                bad("skips a nearer occurrence", f"nearest occurrence ahead is {a[0]}")
    return v


def oracle_api(case):
    lines, sub, ic = case["lines"], case["sub"], case["ic"]
    v = []
    for (w, c, d, incl, k) in api_queries(case):
        ss = mk_state(sub, d, ic)
        b = mk_buffer(lines, w, c)
        b.apply_search(ss, include_current_position=bool(incl), count=k)
        if list(b._working_lines) != list(lines):
            v.append({"signature": "Buffer.apply_search | text changed", "msg": f"{case} {w} {c}"})
        nw, nc = b.working_index, b.cursor_position
        v += check_move("Buffer.apply_search", lines, w, c, sub, ic, d, incl, k, nw, nc)
        # count = k is k single searches, or nothing at all
        if k > 1:
            bb = mk_buffer(lines, w, c)
            ok = True
            for _ in range(k):
                pw, pc = bb.working_index, bb.cursor_position
                r = bb._search(ss, include_current_position=bool(incl), count=1)
                if r is None:
                    ok = False
                    break
                bb.apply_search(ss, include_current_position=bool(incl), count=1)
            exp = (bb.working_index, bb.cursor_position) if ok else (w, c)
            if (nw, nc) != exp:
                v.append({"signature": "Buffer.apply_search | count is not iterated single search",
                          "msg": f"lines={lines!r} widx={w} cur={c} needle={sub!r} dir={d} incl={incl} count={k}: "
                                 f"{(nw, nc)} vs iterated {exp}"})
        # preview = accept
        if k == 1 and incl:
            bp = mk_buffer(lines, w, c)
            dd = bp.document_for_search(ss)
            if (bp.working_index, bp.cursor_position, list(bp._working_lines)) != (w, c, list(lines)):
                v.append({"signature": "Buffer.document_for_search | mutates the buffer", "msg": f"{case} {w} {c}"})
            if (dd.text, dd.cursor_position) != (lines[nw], nc):
                v.append({"signature": "Buffer.document_for_search | preview differs from accept",
                          "msg": f"lines={lines!r} widx={w} cur={c} needle={sub!r} dir={d} ic={ic}: preview "
                                 f"{(dd.text, dd.cursor_position)} vs applied {(lines[nw], nc)}"})
        # get_search_position: a position in THIS text, unchanged or on an occurrence
        bg = mk_buffer(lines, w, c)
        g = bg.get_search_position(ss, include_current_position=bool(incl), count=k)
        if (bg.working_index, bg.cursor_position) != (w, c):
            v.append({"signature": "Buffer.get_search_position | mutates the buffer", "msg": f"{case} {w} {c}"})
        if g != c and not (0 <= g <= len(lines[w]) and g in occs(lines[w], sub, ic)):
            v.append({"signature": "Buffer.get_search_position | match in another history entry",
                      "msg": f"lines={lines!r} widx={w} cur={c} needle={sub!r} dir={d} incl={incl} count={k}: "
                             f"returns {g}, not an occurrence in {lines[w]!r}"})
        if sub and k == 1:
            a = ahead(lines, w, c, sub, ic, d, incl)
            if a and a[0][0] == w and g != a[0][1]:
                v.append({"signature": "Buffer.get_search_position | nearest occurrence in this entry missed",
                          "msg": f"lines={lines!r} widx={w} cur={c} needle={sub!r} dir={d} incl={incl}: {g} vs {a[0]}"})
        # the position apply_search with the same arguments moves to, if that stays in this entry
        exp = nc if nw == w else c
        if g != exp:
            v.append({"signature": "Buffer.get_search_position | differs from where apply_search lands",
                      "msg": f"lines={lines!r} widx={w} cur={c} needle={sub!r} dir={d} incl={incl} ic={ic} count={k}: "
                             f"get_search_position = {g}, apply_search goes to {(nw, nc)}"})
        # a repeat count counts occurrences step by step: none between old and new position is skipped
        if sub and k > 1:
            st = steps_in_entry(lines, w, c, sub, ic, d, incl, k)
            if st is not None and g != st:
                v.append({"signature": "Buffer.get_search_position | count-th occurrence counted step by step missed",
                          "msg": f"lines={lines!r} widx={w} cur={c} needle={sub!r} dir={d} incl={incl} ic={ic} "
                                 f"count={k}: returns {g}, {k} single steps end at {st}"})
    for (i, c) in find_queries(case):
        t = lines[i]
        doc = Document(t, c)
        oc = occs(t, sub, ic)
        for incl in (False, True):
            r = doc.find(sub, include_current_position=incl, ignore_case=bool(ic))
            lo = c if incl else c + 1
            cand = [p for p in oc if p >= lo and (incl or c < len(t))]
            exp = (cand[0] - c) if cand else None
            if r != exp:
                v.append({"signature": "Document.find | not the nearest occurrence after the cursor",
                          "msg": f"Document({t!r},{c}).find({sub!r}, include_current_position={incl}, ignore_case={ic}) "
                                 f"= {r}, expected {exp}"})
        r = doc.find_backwards(sub, ignore_case=bool(ic))
        cand = [p for p in oc if p + len(sub) <= c]
        exp = (cand[-1] - c) if cand else None
        if r != exp:
            v.append({"signature": "Document.find_backwards | not the nearest occurrence before the cursor",
                      "msg": f"Document({t!r},{c}).find_backwards({sub!r}, ignore_case={ic}) = {r}, expected {exp}"})
    return v


def oracle_keys(case):
    v = []
    ic, vi = case["ic"], case["vi"]
    obs = run_session(case)
    for i, op in enumerate(case["ops"]):
        o0, o1 = obs[i], obs[i + 1]
        name = op[0]
        tag = f"keys {'vi' if vi else 'emacs'} {name}"

        def bad(cond, msg):
            v.append({"signature": f"{tag} | {cond}",
                      "msg": f"{msg}: step {i} {op} of {case}: before={o0} after={o1}"})

        main0 = (o0["lines"], o0["widx"], o0["cur"])
        main1 = (o1["lines"], o1["widx"], o1["cur"])
        searchkey = name != "type" or o0["searching"]
        if searchkey and o1["lines"] != o0["lines"]:
            bad("text changed", "a search key changed the text of the buffer / history")
        leaves = vi and o0["searching"] and not o1["searching"]   # back to Vi navigation mode: cursor fix
        same = main0 if not leaves else (o0["lines"], o0["widx"], vifix(o0["lines"], o0["widx"], o0["cur"]))
        if name in ("type", "bs", "hup", "hdown") and o0["searching"] and same != main1:
            bad("typing moved the real cursor", "typing in the search field changed the searched buffer")
        if name in ("star", "hash") and vi and not o0["searching"]:
            word = word_under(o0["lines"][o0["widx"]], o0["cur"])
            d = F if name == "star" else B
            if (o1["stext"], o1["sdir"]) != (word, d):
                bad("word under cursor not searched", f"search state should be ({word!r}, {d})")
            v.extend(check_move(tag, o0["lines"], o0["widx"], o0["cur"], word, ic, d, 0, int(op[1]),
                                o1["widx"], o1["cur"], vi_fix=True))
        if name in ("jn", "jp") and not vi and not o0["searching"] and case.get("ro"):
            k = int(op[1])
            d = o0["sdir"] if name == "jn" else (B if o0["sdir"] == F else F)
            if k < 0:
                d, k = (B if d == F else F), -k
            if k == 0:
                if main0 != main1:
                    bad("zero count moved", "a zero repeat count must not search")
            else:
                v.extend(check_move(tag, o0["lines"], o0["widx"], o0["cur"], o0["stext"], ic, d, 0, k,
                                    o1["widx"], o1["cur"]))
        if name in ("start", "abort") and same != main1:
            bad("start/abort moved the cursor", "start/abort changed the searched buffer")
        if name == "accept" and o0["searching"]:
            if o0["field"]:
                # what was shown is where accepting goes (Vi: then the navigation-mode cursor fix)
                exp = o0["shown"] if not vi else (o0["shown"][0], vifix_text(*o0["shown"]))
                if exp != (o1["lines"][o1["widx"]], o1["cur"]):
                    bad("preview differs from accept", "displayed preview != position after accepting")
                if o1["shown"] != (o1["lines"][o1["widx"]], o1["cur"]):
                    bad("display after accept", "after accepting the real document must be displayed")
                v.extend(check_move(tag, o0["lines"], o0["widx"], o0["cur"], o0["field"], ic, o0["sdir"], 1, 1,
                                    o1["widx"], o1["cur"], vi_fix=bool(vi)))
            if o1["searching"]:
                bad("still searching", "accept did not leave the search field")
        # the direction REQUESTED by the user: a direction key pressed for the second time in a row asks
        # for the next occurrence in that direction whatever the code remembers as its direction (the
        # first press turned the search around); on the code as it is the two conditions coincide
        again = (name == "incr" and i > 0 and case["ops"][i - 1][0] == "incr" and case["ops"][i - 1][1] == op[1]
                 and obs[i - 1]["searching"] and o0["searching"])
        if name == "incr" and o0["searching"] and (o0["sdir"] == op[1] or again):
            v.extend(check_move(tag, o0["lines"], o0["widx"], o0["cur"], o0["field"], ic, op[1], 0, 1,
                                o1["widx"], o1["cur"]))
        if name == "incr" and o0["searching"] and o0["sdir"] != op[1] and not again and main0 != main1:
            bad("direction change moved", "changing direction must not move")
        if name in ("next", "prev") and not o0["searching"]:
            d = o0["sdir"] if name == "next" else (B if o0["sdir"] == F else F)
            v.extend(check_move(tag, o0["lines"], o0["widx"], o0["cur"], o0["stext"], ic, d, 0, int(op[1]),
                                o1["widx"], o1["cur"], vi_fix=True))
        if not o1["searching"] and o1["shown"] != (o1["lines"][o1["widx"]], o1["cur"]):
            bad("display when not searching", "the real document must be displayed when not searching")
    return v


def oracle_motion(case):
    v = []
    o0, o1 = run_motion(case)
    lines, w, c = o0["lines"], o0["widx"], o0["cur"]
    sub, ic = case["sub"], case["ic"]
    d = case["dir"] if case["key"] == "n" else (B if case["dir"] == F else F)
    t = lines[w]
    oc = occs(t, sub, ic)
    tag = f"keys vi {case['op']}{case['key']}"

    def bad(cond, msg):
        v.append({"signature": f"{tag} | {cond}", "msg": f"{msg}: {case}: before={o0} after={o1}"})

    if o1["widx"] != w or [x for i, x in enumerate(o1["lines"]) if i != w] != [x for i, x in enumerate(lines) if i != w]:
        bad("left the entry", "a search motion changed the history entry / other entries")
        return v
    # the target: count single steps, each to the nearest occurrence ahead in this entry
    near = steps_in_entry(lines, w, c, sub, ic, d, 0, case["count"]) if sub else None
    if case["op"] == "y":
        if o1["lines"][w] != t:
            bad("text changed", "yanking up to a search match changed the text")
        if near is not None and near != c and o1["clip"] != t[min(c, near):max(c, near)]:
            bad("nearest occurrence in this entry missed",
                f"yanked {o1['clip']!r}, the span to the count-th occurrence ({near}) is {t[min(c, near):max(c, near)]!r}")
    elif case["op"] == "v":
        g = o1["cur"]
        if o1["lines"][w] != t:
            bad("text changed", "visual-mode search motion changed the text")
        if g != c and g not in oc:
            bad("match in another history entry", "cursor moved to a position without an occurrence")
        if near is not None and g != near:
            bad("nearest occurrence in this entry missed", f"nearest is {near}")
    else:
        t1 = o1["lines"][w]
        cands = [g for g in oc if g != c]
        if t1 != t and not any(t1 == t[:min(c, g)] + t[max(c, g):] for g in cands):
            bad("match in another history entry", "deleted up to a position without an occurrence")
        if near is not None and near != c and t1 != t[:min(c, near)] + t[max(c, near):]:
            bad("nearest occurrence in this entry missed", f"nearest is {near}")
    return v


def case_strings(case):
    if case["kind"] == "find":
        return [case["text"], case["sub"]]
    if case["kind"] == "world":
        out = [t for (ls, _w, _c) in case["bufs"] for t in ls] + [h for (_ic, hs) in case["fields"] for h in hs]
    else:
        out = list(case["lines"]) + [case.get("sub", "")] + list(case.get("fhist", []))
    out += [op[1] for op in case.get("ops", []) if op[0] == "type"]
    return out


def oracle(case):
    ic_on = any(ic for (ic, _h) in case["fields"]) if case["kind"] == "world" else case.get("ic")
    if ic_on and any(ambiguous(ch) for t in case_strings(case) for ch in t):
        return []          # see `ambiguous`: correspondence only
    if case["kind"] == "world":
        v = oracle_world(case)
    elif case["kind"] == "find":
        v = oracle_find(case)
    elif case["kind"] == "motion":
        v = oracle_motion(case)
    else:
        v = oracle_api(case) if case["kind"] == "api" else oracle_keys(case)
    seen, out = set(), []
    for x in v:
        if x["signature"] not in seen:
            seen.add(x["signature"])
            out.append(x)
    return out


# ------------------------------------------------------------------ generators
def strings(alpha, maxlen):
    for n in range(maxlen + 1):
        for tup in itertools.product(alpha, repeat=n):
            yield "".join(tup)


def api_case(lines, sub, ic, counts=(1,), finds=False):
    return {"kind": "api", "lines": list(lines), "sub": sub, "ic": int(ic), "counts": list(counts), "finds": finds}


def exhaustive_api(tier):
    q = tier == "quick"
    # E1: one entry, newline in alphabet, all needles up to 2
    e1_len = 4 if q else 5
    needles1 = [s for s in strings("ab\n", 2) if s]
    if not q:
        needles1 += [s for s in strings("ab", 3) if len(s) == 3]
    for t in strings("ab\n", e1_len):
        for sub in needles1:
            yield api_case([t], sub, 0, finds=True)
    # E2: several entries, counts
    needles2 = ["a", "b", "ab", "aa", "ba", "bb"]
    two = list(strings("ab", 2 if q else 3))
    three = list(strings("ab", 1 if q else 2))
    for l0 in two:
        for l1 in two:
            for sub in needles2:
                yield api_case([l0, l1], sub, 0, counts=(1, 2, 3))
    for ls in itertools.product(three, repeat=3):
        for sub in needles2:
            yield api_case(ls, sub, 0, counts=(1, 2, 3))
    # E3: case
    for t in strings("aA", 3 if q else 4):
        for sub in ["a", "A", "aA", "Aa", "aa", "AA"]:
            for ic in (0, 1):
                yield api_case([t], sub, ic, finds=True)
                yield api_case(["Aa", t], sub, ic)
    # E3b: case beyond ASCII (é / É / e; the four i's; sigma forms), on and off
    for alpha, needles in (("éÉe", ["é", "É", "e", "éÉ", "Ée"]),
                           ("iI\u0131\u0130", ["i", "I", "\u0131", "\u0130", "i\u0131"]),
                           ("\u03c3\u03c2\u03a3s\u017f", ["\u03c3", "\u03a3", "s", "\u017f", "\u03c2s"])):
        for t in strings(alpha, 2 if q else 3):
            for sub in needles:
                for ic in (0, 1):
                    yield api_case([t], sub, ic, finds=True)
    # E6: overlapping occurrences x repeat counts 1..4 (a count is count single steps, not the count-th hit
    #     of one non-overlapping scan): 'aa' / 'aaa' in runs of a, '.*.' style, case-insensitive 'aa' in 'AaAa'
    for t in strings("ax", 5 if q else 6):
        if "aaa" in t:
            for sub in ["aa", "aaa"]:
                yield api_case([t], sub, 0, counts=(1, 2, 3, 4))
    for t in ["xaaaab", "xaaaaab", "aaaaaa"]:
        yield api_case([t], "aa", 0, counts=(1, 2, 3, 4))
        yield api_case(["aa", t, "aaa"], "aa", 0, counts=(1, 2, 3, 4))
    for t in ["x.*.*.*", ".*.*.", "*.*.*.*"]:
        for sub in [".*.", "*.*"]:
            yield api_case([t], sub, 0, counts=(1, 2, 3, 4))
    for t in ["xAaAay", "AaAaA", "aAAa"] + ([] if q else list(strings("aA", 5))):
        yield api_case([t], "aa", 1, counts=(1, 2, 3, 4))
        yield api_case([t], "Aa", 1, counts=(1, 2, 3, 4))
    # E4: regex metacharacters are literal
    for t in strings("a.*", 3 if q else 4):
        for sub in [".", "*", ".*", "a.", "a*", ".a", "**"]:
            yield api_case([t], sub, 0, finds=True)
    # E5: the empty needle (outside the property; correspondence only matters)
    for t in strings("a\n", 2):
        yield api_case([t], "", 0, finds=True)
        yield api_case(["a", t], "", 0, counts=(1, 2))


RAND_ALPHA = ["a", "a", "b", "b", "A", "B", "\n", ".", "*", "(", "[", "\\", "$", "^", "+", "?", " ", "é", "世", "ß"]
ASCII_ALPHA = ["a", "a", "b", "b", "A", "B", "\n", ".", "*", "(", "[", "\\", "$", " ", "k", "K", "s", "S"]
# ignore-case beyond ASCII: accented pairs, ß / ẞ, the Turkish i's, Kelvin sign, long s, the sigmas,
# micro / mu, a titlecase digraph, Cyrillic, a character without case
UNI_ALPHA = ["a", "A", "é", "É", "é", "ß", "\u1e9e", "i", "I", "\u0131", "\u0130", "k", "K", "\u212a", "s", "S",
             "\u017f", "\u03c3", "\u03c2", "\u03a3", "\u00b5", "\u03bc", "\u039c", "\u01c5", "\u01c6", "\u01c4",
             "\u044f", "\u042f", "\n", ".", "世"]


def rand_text(rng, alpha, maxlen):
    return "".join(rng.choice(alpha) for _ in range(rng.randrange(0, maxlen + 1)))


def rand_needle(rng, lines, alpha, maxlen=3):
    if rng.random() < 0.7:
        t = rng.choice(lines)
        if t:
            a = rng.randrange(len(t))
            sub = t[a:a + rng.randrange(1, maxlen + 1)]
            if sub:
                return sub
    return rand_text(rng, alpha, maxlen) or rng.choice(alpha)


def random_api(tier, rng):
    n = 1500 if tier == "quick" else 25000
    for _ in range(n):
        ic = rng.random() < 0.4
        alpha = (ASCII_ALPHA if rng.random() < 0.5 else UNI_ALPHA) if ic else RAND_ALPHA
        nl = rng.choice([1, 1, 2, 3, 4, 5])
        lines = [rand_text(rng, alpha, rng.choice([0, 2, 4, 8, 12])) for _ in range(nl)]
        sub = rand_needle(rng, lines, alpha)
        if ic and rng.random() < 0.5:
            sub = sub.swapcase()
        qs = []
        for _ in range(8):
            w = rng.randrange(nl)
            c = rng.choice([0, len(lines[w]), rng.randrange(len(lines[w]) + 1)])
            qs.append([w, c, rng.choice([F, B]), rng.randrange(2), rng.choice([1, 1, 1, 2, 3, 4])])
        case = api_case(lines, sub, ic, finds=rng.random() < 0.3)
        case["queries"] = qs
        yield case


def keys_case(vi, ic, lines, widx, cur, ops, ro=0, fhist=()):
    c = {"kind": "keys", "vi": int(vi), "ic": int(ic), "lines": list(lines), "widx": widx, "cur": cur,
         "ops": [list(o) for o in ops]}
    if ro:
        c["ro"] = 1
    if fhist:
        c["fhist"] = list(fhist)
    return c


def scripted_keys2(tier):
    """round 2: Vi `*` / `#`, the search field's history, Emacs n / N on a read-only buffer,
    abort after several incremental steps, accept when nothing matches"""
    q = tier == "quick"
    # Vi * and # at every cursor: words, punctuation runs, blanks, line ends
    hists = [["foo", "x foo.bar foo"], ["a+b ++", "++ a\n+ a"]]
    if not q:
        hists += [["foo_1 foo", "foo\nfoo_1  foo"], ["ab", "", "ab ab"]]
    for lines in hists:
        for w in range(len(lines)):
            for c in range(len(lines[w]) + 1):
                for k in ((1,) if q else (1, 2, 3)):
                    yield keys_case(1, 0, lines, w, c, [["star", k], ["next", 1], ["prev", 1]])
                    yield keys_case(1, 0, lines, w, c, [["hash", k], ["next", 1], ["star", 1]])
    # the search field's history: recall, edit, accept, duplicates, abort
    lines = ["ab", "xab ab"]
    for vi in (0, 1):
        for fh in ([], ["a"], ["b", "ab"]):
            for d in (B, F):
                up, dn = ["hup"], ["hdown"]
                seqs = [
                    [["start", d], up, ["accept", None, 0], ["start", d], up, up, ["accept", None, 0]],
                    [["start", d], up, up, up, dn, ["type", "b"], up, dn, dn, dn, ["accept", None, 0],
                     ["start", d], up, ["abort", None, 0], ["start", d], up, ["accept", None, 1]],
                    [["start", d], ["type", "a"], up, dn, ["accept", None, 0], ["start", d], ["type", "a"],
                     ["accept", None, 0], ["start", d], up, up, ["bs"], dn, ["type", "b"], up,
                     ["accept", None, 0]],
                    [["start", d], ["type", "z"], ["accept", None, 0], ["start", d], up, ["incr", d, 0],
                     ["abort", None, 1]],
                ]
                for ops in seqs:
                    yield keys_case(vi, 0, lines, 1, 3, ops, fhist=fh)
    # Emacs, read-only buffer: / ? C-r C-s start; n / N with positive, negative and zero arguments
    hists = [["ab", "xab ab"], ["a", "ba\nab", "b"]]
    for lines in hists:
        for w in range(len(lines)):
            for c in range(len(lines[w]) + 1):
                for d in (B, F):
                    for var in (0, 2):
                        for args in ((1, -1, 0), (2, -2, 1)) if q else ((1, -1, 0), (2, -2, 1), (3, -3, 2)):
                            yield keys_case(0, 0, lines, w, c,
                                            [["start", d, var], ["type", "a"], ["accept", None, 0]]
                                            + [["jn", a] for a in args] + [["jp", a] for a in args]
                                            + [["type", "b"]], ro=1)
    # `~search_state` keeps ignore_case: previous-match keys on mixed-case text (Vi N, Emacs N / negative n)
    lines = ["Ab", "xaB ab AB"]
    for w in range(len(lines)):
        for c in range(len(lines[w]) + 1):
            for d in (B, F):
                yield keys_case(1, 1, lines, w, c, [["start", d], ["type", "a"], ["type", "b"], ["accept", None, 0],
                                                    ["prev", 1], ["next", 1], ["prev", 2]])
                yield keys_case(0, 1, lines, w, c, [["start", d], ["type", "a"], ["type", "B"], ["accept", None, 0],
                                                    ["jp", 1], ["jn", -1], ["jn", 1], ["jp", -2]], ro=1)
    # abort after several incremental steps across history entries; accept when nothing matches
    for lines in [["ab", "b", "xab ab"], ["ab", "ab"]]:
        w = len(lines) - 1
        for c in (0, len(lines[w])):
            for vi in (0, 1):
                for d in (B, F):
                    for k in (1, 2, 3):
                        yield keys_case(vi, 0, lines, w, c, [["start", d], ["type", "a"], ["type", "b"]]
                                        + [["incr", d, 0]] * k + [["abort", None, 0]])
                    yield keys_case(vi, 0, lines, w, c, [["start", d], ["type", "q"], ["accept", None, 0],
                                                         ["start", d], ["type", "q"], ["incr", d, 0],
                                                         ["accept", None, 1]])


def scripted_keys(tier):
    q = tier == "quick"
    hists = [["ab", "xab ab"], ["ba", "aab"], ["a\nab", "b"]]
    if not q:
        hists += [["ab", "b", "abab"], ["aa", "", "aaa"], ["b", "ab\nab"]]
    needles = ["a", "ab"] if q else ["a", "ab", "b", "aa"]
    for lines in hists:
        for w in range(len(lines)):
            for c in range(len(lines[w]) + 1):
                for sub in needles:
                    ty = [["type", ch] for ch in sub]
                    for d in (B, F):
                        o = F if d == B else B
                        # (quick tier: the alternative physical keys -- Up / Down, Escape, C-c, `/` `?` -- only on
                        #  the first history; the random sessions press them everywhere)
                        for var in ((0, 1) if (not q or lines is hists[0]) else (0,)):
                            # emacs: start, type, (next)*, accept / abort ; direction change ; empty accept
                            for k in range(3):
                                yield keys_case(0, 0, lines, w, c,
                                                [["start", d]] + ty + [["incr", d, var]] * k + [["accept", None, var]])
                            yield keys_case(0, 0, lines, w, c,
                                            [["start", d]] + ty + [["incr", d, var], ["abort", None, var]])
                            yield keys_case(0, 0, lines, w, c,
                                            [["start", d]] + ty + [["incr", o, var], ["incr", o, var],
                                                                   ["accept", None, var], ["start", d],
                                                                   ["accept", None, var]])
                            yield keys_case(0, 0, lines, w, c,
                                            [["start", d]] + ty + [["bs"], ["type", "b"], ["accept", None, var]])
                            # vi: start, type, accept, n / N with counts
                            for k in (1, 2, 3):
                                yield keys_case(1, 0, lines, w, c,
                                                [["start", d, var]] + ty + [["accept", None, var], ["next", k, var],
                                                                            ["prev", k, var], ["prev", 1], ["next", 1]])
                            yield keys_case(1, 0, lines, w, c,
                                            [["start", d, var]] + ty + [["bs"]] * (len(sub) + 1) + [["next", 1]])


KEY_ALPHA = ["a", "a", "b", "A", ".", "*", " ", "n", "/"]


def random_keys(tier, rng):
    n = 700 if tier == "quick" else 10000
    for _ in range(n):
        vi = rng.random() < 0.5
        ic = rng.random() < 0.4
        alpha = ["a", "a", "b", "A", "B", "\n", ".", "*", " ", "n", "é"] + (["É"] if ic else [])
        nl = rng.choice([1, 2, 2, 3, 4])
        lines = [rand_text(rng, alpha, rng.choice([0, 2, 4, 8])) for _ in range(nl)]
        w = rng.randrange(nl)
        c = rng.choice([0, len(lines[w]), rng.randrange(len(lines[w]) + 1)])
        ro = (not vi) and rng.random() < 0.3
        fhist = [rand_text(rng, ["a", "b", "A", ".", " "], 3) or "a" for _ in range(rng.choice([0, 0, 1, 2, 3]))]
        ops = []
        # the generator tracks the search field (working lines, index, history) so that it knows
        # when Vi's backspace-in-an-empty-field leaves the search
        searching = False
        fl, fi, fh, loaded = [""], 0, list(fhist), False

        def stop():
            nonlocal searching, fl, fi, loaded
            searching, fl, fi, loaded = False, [""], 0, False

        for _ in range(rng.randrange(2, 14)):
            if not searching:
                r = rng.random()
                if vi and r < 0.3:
                    ops.append([rng.choice(["next", "prev"]), rng.choice([1, 1, 1, 2, 3]), rng.randrange(2)])
                elif vi and r < 0.5:
                    ops.append([rng.choice(["star", "hash"]), rng.choice([1, 1, 1, 2, 3])])
                elif ro and r < 0.45:
                    ops.append([rng.choice(["jn", "jp"]), rng.choice([1, 1, 2, 3, -1, -2, 0])])
                elif ro and r < 0.55:
                    ops.append(["type", rng.choice(["a", "b", "."])])     # refused: read-only
                elif not vi and not ro and r < 0.25:
                    ops.append(["type", rng.choice(KEY_ALPHA)])
                else:
                    ops.append(["start", rng.choice([F, B]), rng.randrange(4 if ro else 2)])
                    searching = True
                    if not loaded:
                        fl, fi, loaded = fh + fl, fi + len(fh), True
            else:
                r = rng.random()
                if r < 0.12:
                    op = rng.choice(["hup", "hup", "hdown"])
                    ops.append([op])
                    if op == "hup" and fi > 0:
                        fi -= 1
                    elif op == "hdown" and fi < len(fl) - 1:
                        fi += 1
                elif r < 0.4:
                    # bias towards characters of the history so that needles occur
                    pool = [ch for t in lines for ch in t if ch != "\n"] or KEY_ALPHA
                    ch = rng.choice(pool if rng.random() < 0.7 else KEY_ALPHA)
                    if ch not in gen_c16.CHARS:
                        ch = "é"          # (only keys of the generated binding table are pressed)
                    ops.append(["type", ch])
                    fl[fi] += ch
                elif r < 0.5:
                    ops.append(["bs"])
                    if fl[fi] == "" and vi:
                        stop()
                    else:
                        fl[fi] = fl[fi][:-1]
                elif r < 0.75:
                    ops.append(["incr", rng.choice([F, B]), rng.randrange(2)])
                elif r < 0.92:
                    ops.append(["accept", None, rng.randrange(2)])
                    if fl[fi] and (not fh or fh[-1] != fl[fi]):
                        fh.append(fl[fi])
                    stop()
                else:
                    ops.append(["abort", None, rng.randrange(2)])
                    stop()
        yield keys_case(vi, ic, lines, w, c, ops, ro=ro, fhist=fhist)



# ------------------------------------------------------------------ world generators
def world_case(vi, bufs, ctrls, fields, focus, ops):
    return {"kind": "world", "vi": int(vi), "bufs": [[list(l), w, c] for (l, w, c) in bufs],
            "ctrls": [list(x) for x in ctrls], "fields": [[int(ic), list(h)] for (ic, h) in fields],
            "focus": list(focus), "ops": [list(o) for o in ops]}


# controls 0 and 1 share search field 0, control 2 has field 1 (ignore-case) of its own, control 3 is
# a second, NOT searchable view of buffer 0
T_CTRLS = [(0, 0), (1, 0), (2, 1), (0, -1)]


def scripted_world(tier):
    q = tier == "quick"
    bufs = [(["ab", "ab xab"], 1, 0), (["xx ab ab"], 0, 0), (["aB", "AB ab"], 1, 5)]
    fields = [(0, ["b"]), (1, [])]
    for vi in (0, 1):
        for d in (F, B):
            o = F if d == B else B
            for c0 in range(3):          # (control 3 is not searchable: visited by focus ops below)
                c1 = (c0 + 1) % 3
                foc = ["c", c0]
                ty = [["type", "a"], ["type", "b"]]
                yield world_case(vi, bufs, T_CTRLS, fields, foc,
                                 [["start", d]] + ty + [["incr", d, 0], ["accept", None, 0], ["focus", "c", c1],
                                                        ["start", d], ["accept", None, 1], ["focus", "c", 3],
                                                        ["start", o], ["focus", "o"], ["start", d]])
                yield world_case(vi, bufs, T_CTRLS, fields, foc,
                                 [["startfor", c1, d]] + ty + [["incr", d, 1], ["incr", o, 0], ["abort", None, 0],
                                                               ["startfor", 3, d], ["startfor", 2, o], ["hup"],
                                                               ["type", "b"], ["accept", None, 0]])
                if vi:
                    yield world_case(1, bufs, T_CTRLS, fields, foc,
                                     [["start", d]] + ty + [["accept", None, 0], ["next", 1], ["focus", "c", c1],
                                                            ["next", 1], ["prev", 2], ["star", 1], ["focus", "c", 3],
                                                            ["next", 1], ["hash", 1], ["focus", "c", 0], ["next", 1]])
                else:
                    # leaving a focused search field by a click: the link stays behind (harmless)
                    yield world_case(0, bufs, T_CTRLS, fields, foc,
                                     [["start", d]] + ty + [["focus", "c", c1], ["type", "x"], ["start", o],
                                                            ["type", "b"], ["accept", None, 0], ["focus", "o"],
                                                            ["type", "z"], ["startfor", 0, d], ["hup"], ["hup"],
                                                            ["abort", None, 1]])
    if not q:
        # two views of the same buffer with different search fields
        bufs2 = [(["ab", "xab ab"], 1, 3)]
        for vi in (0, 1):
            for d in (F, B):
                yield world_case(vi, bufs2, [(0, 0), (0, 1), (0, -1)], [(0, []), (1, ["AB"])], ["c", 0],
                                 [["start", d], ["type", "a"], ["accept", None, 0], ["focus", "c", 1], ["start", d],
                                  ["type", "B"], ["incr", d, 0], ["accept", None, 0], ["focus", "c", 2], ["start", d]])


def random_world(tier, rng):
    n = 150 if tier == "quick" else 3000
    for _ in range(n):
        vi = rng.random() < 0.5
        alpha = ["a", "a", "b", "A", "B", "\n", ".", " "]
        nb = rng.choice([1, 2, 3])
        bufs = []
        for _b in range(nb):
            nl = rng.choice([1, 1, 2, 3])
            lines = [rand_text(rng, alpha, rng.choice([0, 2, 4, 8])) for _ in range(nl)]
            w = rng.randrange(nl)
            bufs.append((lines, w, rng.randrange(len(lines[w]) + 1)))
        nf = rng.choice([1, 2])
        fields = [(int(rng.random() < 0.4), [rand_text(rng, ["a", "b", "A"], 2) or "a"
                                              for _ in range(rng.choice([0, 0, 1, 2]))]) for _ in range(nf)]
        nc = rng.choice([2, 3, 4])
        ctrls = [(min(i, nb - 1) if i < nb else rng.randrange(nb), rng.choice([-1] + list(range(nf)) * 2))
                 for i in range(nc)]
        focus = ["c", rng.randrange(nc)]
        # generator-side tracking of focus and of every search field's buffer
        st = {"foc": tuple(focus)}
        fz = [{"fl": [""], "fi": 0, "fh": list(h), "loaded": False, "link": None} for (_ic, h) in fields]

        def start_from(i):
            k = ctrls[i][1]
            if k < 0:
                return
            z = fz[k]
            z["link"] = i
            st["foc"] = ("f", k)
            if not z["loaded"]:
                z["fl"], z["fi"], z["loaded"] = z["fh"] + z["fl"], z["fi"] + len(z["fh"]), True

        def stop(k):
            z = fz[k]
            st["foc"] = ("c", z["link"])
            z.update({"fl": [""], "fi": 0, "loaded": False, "link": None})

        ops = []
        for _ in range(rng.randrange(3, 16)):
            foc = st["foc"]
            r = rng.random()
            if foc[0] == "f":
                k = foc[1]
                z = fz[k]
                if not vi and r < 0.08:
                    tgt = rng.choice([["c", rng.randrange(nc)], ["o"]])
                    ops.append(["focus"] + tgt)
                    st["foc"] = tuple(tgt)
                elif r < 0.16:
                    op = rng.choice(["hup", "hdown"])
                    ops.append([op])
                    if op == "hup" and z["fi"] > 0:
                        z["fi"] -= 1
                    elif op == "hdown" and z["fi"] < len(z["fl"]) - 1:
                        z["fi"] += 1
                elif r < 0.45:
                    pool = [ch for (ls, _w, _c) in bufs for t in ls for ch in t if ch != "\n"] or ["a"]
                    ch = rng.choice(pool if rng.random() < 0.8 else ["a", "b", "."])
                    ops.append(["type", ch])
                    z["fl"][z["fi"]] += ch
                elif r < 0.52:
                    ops.append(["bs"])
                    if z["fl"][z["fi"]] == "" and vi:
                        stop(k)
                    else:
                        z["fl"][z["fi"]] = z["fl"][z["fi"]][:-1]
                elif r < 0.75:
                    ops.append(["incr", rng.choice([F, B]), rng.randrange(2)])
                elif r < 0.92:
                    ops.append(["accept", None, rng.randrange(2)])
                    t = z["fl"][z["fi"]]
                    if t and (not z["fh"] or z["fh"][-1] != t):
                        z["fh"].append(t)
                    stop(k)
                else:
                    ops.append(["abort", None, rng.randrange(2)])
                    stop(k)
            else:
                if r < 0.2:
                    tgt = rng.choice([["c", rng.randrange(nc)], ["c", rng.randrange(nc)], ["o"]])
                    ops.append(["focus"] + tgt)
                    st["foc"] = tuple(tgt)
                elif r < 0.3:
                    i = rng.randrange(nc)
                    ops.append(["startfor", i, rng.choice([F, B])])
                    start_from(i)
                elif foc[0] == "o":
                    ops.append(["start", rng.choice([F, B]), 1 if vi else rng.randrange(2)])
                elif vi and r < 0.5:
                    ops.append([rng.choice(["next", "prev"]), rng.choice([1, 1, 2, 3]), 0])
                elif vi and r < 0.6:
                    ops.append([rng.choice(["star", "hash"]), rng.choice([1, 1, 2])])
                elif not vi and r < 0.4:
                    ops.append(["type", rng.choice(["a", "b", "x"])])
                else:
                    # (Vi: C-r / C-s only — `/` `?` on a control that is not searchable are other commands)
                    searchable = ctrls[foc[1]][1] >= 0
                    ops.append(["start", rng.choice([F, B]), (rng.randrange(2) if searchable or not vi else 1)])
                    start_from(foc[1])
        yield world_case(vi, bufs, ctrls, fields, focus, ops)


def motion_cases(tier, rng):
    """Vi `n`/`N` as a motion (get_search_position end to end): oracle only"""
    hists = [["xxxxab", "ab hello"], ["ab", "xab ab"], ["b", "aab\nab"]]
    for lines in hists:
        for w in range(len(lines)):
            for c in range(len(lines[w]) + 1):
                for sub in ["ab", "a"]:
                    for d in (F, B):
                        for op in ("v", "d"):
                            if op == "d" and "\n" in lines[w]:
                                continue   # operator ranges that cross a line end follow Vi's own rules (C08)
                            for key in ("n", "N"):
                                yield {"kind": "motion", "ic": 0, "lines": lines, "widx": w, "cur": c, "sub": sub,
                                       "dir": d, "op": op, "key": key, "count": 1}
    # operators with a repeat count over overlapping occurrences: d2n, c3N, y2n, v4n …
    for lines, sub, ic in ([(["xaaaab"], "aa", 0), (["xaaaaab"], "aa", 0), (["aa", "xaaaab"], "aa", 0),
                            (["x.*.*.*"], ".*.", 0), (["xAaAay"], "aa", 1)]):
        w = len(lines) - 1
        for c in range(len(lines[w]) + 1):
            for d in (F, B):
                for op in ("d", "c", "y", "v"):
                    for key in ("n", "N"):
                        for k in ((2, 3) if tier == "quick" else (1, 2, 3, 4)):
                            if tier == "quick" and (c % 2) and op != "d":
                                continue
                            yield {"kind": "motion", "ic": ic, "lines": lines, "widx": w, "cur": c, "sub": sub,
                                   "dir": d, "op": op, "key": key, "count": k}
    n = 100 if tier == "quick" else 2000
    for _ in range(n):
        ic = rng.random() < 0.3
        alpha = ["a", "a", "b", "A", "\n", " ", "."]
        nl = rng.choice([1, 2, 3])
        lines = [rand_text(rng, alpha, rng.choice([0, 3, 6, 9])) for _ in range(nl)]
        w = rng.randrange(nl)
        op = rng.choice(["v", "d", "d", "c", "y"])
        if op != "v":
            lines[w] = lines[w].replace("\n", " ")
        yield {"kind": "motion", "ic": int(ic), "lines": lines, "widx": w,
               "cur": rng.randrange(len(lines[w]) + 1), "sub": rand_needle(rng, lines, alpha, 2).replace("\n", "a"),
               "dir": rng.choice([F, B]), "op": op, "key": rng.choice(["n", "N"]),
               "count": rng.choice([1, 1, 1, 2])}


def cases(tier, rng):
    yield from exhaustive_api(tier)
    yield from find_cases(tier, rng)
    yield from scripted_keys(tier)
    yield from scripted_keys2(tier)
    yield from scripted_world(tier)
    yield from motion_cases(tier, rng)
    yield from random_api(tier, rng)
    yield from random_keys(tier, rng)
    yield from random_world(tier, rng)


# ------------------------------------------------------------------ evidence helpers
def sample_view(case):
    return case


def nontrivial(case):
    if case["kind"] == "find":
        return bool(case["sub"]) and bool(occs(case["text"], case["sub"], case["ic"]))
    if case["kind"] == "world":
        return any(op[0] in ("incr", "accept", "next", "prev", "star", "hash") for op in case["ops"]) and \
            any(op[0] in ("type", "star", "hash", "hup") for op in case["ops"])
    if case["kind"] == "motion":
        return any(occs(t, case["sub"], case["ic"]) for t in case["lines"])
    if case["kind"] == "api":
        return bool(case["sub"]) and any(occs(t, case["sub"], case["ic"]) for t in case["lines"])
    return any(op[0] in ("incr", "accept", "next", "prev", "star", "hash", "jn", "jp") for op in case["ops"]) and \
        any(op[0] in ("type", "star", "hash", "hup") for op in case["ops"])


def distribution(cases_):
    d = {"kind": {}, "entries": {}, "needle_len": {}, "ignore_case": {}, "mode": {}, "ops": {}, "api_queries": 0}
    for c in cases_:
        d["kind"][c["kind"]] = d["kind"].get(c["kind"], 0) + 1
        if c["kind"] == "find":
            d["find_queries"] = d.get("find_queries", 0) + len(find_queries_x(c))
            continue
        if c["kind"] == "world":
            m = "world-vi" if c["vi"] else "world-emacs"
            d["mode"][m] = d["mode"].get(m, 0) + 1
            for op in c["ops"]:
                d["ops"]["w:" + op[0]] = d["ops"].get("w:" + op[0], 0) + 1
            continue
        k = str(len(c["lines"]))
        d["entries"][k] = d["entries"].get(k, 0) + 1
        d["ignore_case"][str(c["ic"])] = d["ignore_case"].get(str(c["ic"]), 0) + 1
        if c["kind"] == "motion":
            d["ops"][c["op"] + c["key"]] = d["ops"].get(c["op"] + c["key"], 0) + 1
        elif c["kind"] == "api":
            k = str(len(c["sub"]))
            d["needle_len"][k] = d["needle_len"].get(k, 0) + 1
            d["api_queries"] += len(api_queries(c))
        else:
            m = "vi" if c["vi"] else "emacs"
            d["mode"][m] = d["mode"].get(m, 0) + 1
            for op in c["ops"]:
                d["ops"][op[0]] = d["ops"].get(op[0], 0) + 1
    return d


if __name__ == "__main__":
    sys.exit(core.main(sys.modules[__name__]))
