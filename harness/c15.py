#!/venv/bin/python
"""C15 — asynchronous completions / validation / suggestions are never applied stale.

Correspondence: a real `Buffer` with a scripted completer, validator and auto-suggester whose
every await is gated by the harness, driven on a private asyncio loop; the schedule (user
actions, task starts, wake-ups) is replayed on the Lean transition system `Ptk.Model.C15`
and the observable state is compared after every step.  Oracle: the property restated over
the real objects after every step.
"""
from __future__ import annotations

import asyncio
import os
import subprocess
import sys
import warnings

sys.path.insert(0, os.path.dirname(os.path.abspath(__file__)))
import core
from core import enc_str

from prompt_toolkit.application import Application
from prompt_toolkit.application.current import set_app
from prompt_toolkit.auto_suggest import AutoSuggest, Suggestion
from prompt_toolkit.buffer import Buffer, ValidationState
from prompt_toolkit.completion import Completer, Completion
from prompt_toolkit.document import Document
from prompt_toolkit.input import DummyInput
from prompt_toolkit.key_binding.bindings.completion import generate_completions
from prompt_toolkit.output import DummyOutput
from prompt_toolkit.validation import ValidationError, Validator

ID = "C15"
DRIVER = "drv_c15"
PROPS = ["Ptk.Props.C15", "Ptk.Props.C15Inv", "Ptk.Props.C15Common"]
LEVEL_TEXT = ("Lean 4 invariants over a labelled transition system of Buffer's completer / validator / "
              "auto-suggest coroutines (cut at their awaits) interleaved with user edits: every reachable "
              "state, after any finite schedule, has text = original + selected completion, completions "
              "computed for the original document, verdict and suggestion computed for the current text, "
              "at most one coroutine of each kind running; cycling and cancel laws. The model is tied to "
              "/repo on every run by replaying model-enumerated and random schedules on a real Buffer "
              "whose awaits are gated, plus the property oracle on the real objects")
LEVEL_NOTE = ("partial: atomicity of code between two awaits is asyncio's (assumed); ThreadedCompleter / "
              "ThreadedValidator / ThreadedAutoSuggest thread hand-off, task cancellation and selection "
              "state are not modelled; the model is hand-written and validated by the correspondence")
RULE = ("exhaustive: for each configuration (feature flags x scripted completer x initial document) the Lean "
        "driver enumerates breadth-first every schedule over the action alphabet up to the tier's depth, "
        "merging equal model states, and emits a path for every transition; each path is replayed on the real "
        "Buffer (tasks started only when the schedule says so). Then seeded random schedules up to 40 steps in "
        "both scheduling modes (explicit task start / natural asyncio FIFO order). A case is non-trivial when "
        "at least one coroutine segment ran between user actions")
EXHAUSTIVE = True
EXHAUSTIVE_SCOPE = {
    "quick": "all schedules to depth 5-9 (per configuration) over insert/delete/cursor/next/previous/cancel/"
             "start-completion/tab/validate/history-lines completion + task start + wake-up + cancellation of each coroutine kind; 21 configurations",
    "thorough": "same alphabet, depth 7-11 per configuration; 21 configurations",
}
TRUSTED = ["harness/c15.py gates every await of the scripted completer/validator/suggester and compares "
           "(exception, text, cursor, complete_state, validation_state/error, suggestion, running flags, "
           "pending tasks, waiting coroutines) after every step",
           "Ptk/Model/C15.lean is a hand translation of buffer.py's async machinery (correspondence-checked)",
           "the harness Application subclass defers create_background_task until the schedule starts the task"]
ASSUMPTIONS = ["asyncio runs the code between two awaits of a coroutine atomically on one thread",
               "tasks created earlier take their first step earlier (FIFO ready queue) in natural mode; the "
               "theorems hold for any start order",
               "completer / validator / suggester are deterministic functions of the Document they receive"]
PARTIAL_SCOPE = ["ThreadedCompleter / ThreadedValidator / ThreadedAutoSuggest (thread hand-off) not modelled",
                 "task cancellation (Application exit) not modelled",
                 "Document equality also compares the selection; selection_state is always None here",
                 "history navigation (working_index), yank/paste state, open_in_editor not modelled",
                 "CompleteEvent flags are passed through to the completer and ignored by the scripted one"]
ANCHORS = ["src/prompt_toolkit/buffer.py", "src/prompt_toolkit/completion/base.py",
           "src/prompt_toolkit/validation.py", "src/prompt_toolkit/auto_suggest.py",
           "src/prompt_toolkit/key_binding/bindings/completion.py"]
TECHNIQUE = "Lean 4 proof over an executable transition system + schedule-replay correspondence + oracle"

# ------------------------------------------------------------------ scripted user code


def last_n(t: str, n: int) -> str:
    return t[max(0, len(t) - n):]


def comp_fn(spec, text, cur):
    """[(text, start_position)] the scripted completer yields for Document(text, cur)"""
    before = text[:cur]
    return [((last_n(before, back) if echo else "") + lit, -back) for back, echo, lit in spec]


def valid_fn(v, text, cur):
    a, p, r = v
    if (len(text) + a * cur) % p == r:
        return "E" + text[:1]
    return None


def sugg_fn(s, text, cur):
    a, p, r, lit = s
    if (len(text) + a * cur) % p == r:
        return None
    return last_n(text, 2) + lit


class Gate:
    def __init__(self):
        self.waiters = []  # (event, info)

    async def wait(self, info):
        ev = asyncio.Event()
        entry = (ev, info, asyncio.current_task())
        self.waiters.append(entry)
        try:
            await ev.wait()
        finally:
            # a cancelled waiter leaves the gate
            if entry in self.waiters:
                self.waiters.remove(entry)

    def release(self) -> bool:
        if not self.waiters:
            return False
        ev, _, _ = self.waiters.pop(0)
        ev.set()
        return True

    def kill(self) -> bool:
        if not self.waiters:
            return False
        self.waiters[0][2].cancel()
        return True


class GCompleter(Completer):
    def __init__(self, sim):
        self.sim = sim

    def get_completions(self, document, complete_event):
        return [Completion(t, s) for t, s in comp_fn(self.sim.spec, document.text, document.cursor_position)]

    async def get_completions_async(self, document, complete_event):
        sim = self.sim
        items = comp_fn(sim.spec, document.text, document.cursor_position)
        sim.comp_log.append((document.text, document.cursor_position, items))
        sim.active["c"] += 1
        sim.max_active["c"] = max(sim.max_active["c"], sim.active["c"])
        try:
            for i, (t, s) in enumerate(items):
                await sim.gates["c"].wait((document.text, document.cursor_position, i))
                yield Completion(t, s)
            await sim.gates["c"].wait((document.text, document.cursor_position, len(items)))
        finally:
            sim.active["c"] -= 1


class GValidator(Validator):
    def __init__(self, sim):
        self.sim = sim

    def validate(self, document):
        msg = valid_fn(self.sim.vspec, document.text, document.cursor_position)
        self.sim.val_log.append((document.text, document.cursor_position, msg))
        if msg is not None:
            raise ValidationError(cursor_position=0, message=msg)

    async def validate_async(self, document):
        sim = self.sim
        sim.active["v"] += 1
        sim.max_active["v"] = max(sim.max_active["v"], sim.active["v"])
        try:
            await sim.gates["v"].wait((document.text, document.cursor_position))
            msg = valid_fn(sim.vspec, document.text, document.cursor_position)
            sim.val_log.append((document.text, document.cursor_position, msg))
            if msg is not None:
                raise ValidationError(cursor_position=0, message=msg)
        finally:
            sim.active["v"] -= 1


class GSuggest(AutoSuggest):
    def __init__(self, sim):
        self.sim = sim

    def get_suggestion(self, buffer, document):
        r = sugg_fn(self.sim.sspec, document.text, document.cursor_position)
        return None if r is None else Suggestion(r)

    async def get_suggestion_async(self, buff, document):
        sim = self.sim
        sim.active["s"] += 1
        sim.max_active["s"] = max(sim.max_active["s"], sim.active["s"])
        try:
            await sim.gates["s"].wait((document.text, document.cursor_position))
            r = sugg_fn(sim.sspec, document.text, document.cursor_position)
            sim.sug_log.append((document.text, document.cursor_position, r))
            return None if r is None else Suggestion(r)
        finally:
            sim.active["s"] -= 1


class HApp(Application):
    """Application whose background tasks start only when the schedule says so."""

    def __init__(self):
        super().__init__(input=DummyInput(), output=DummyOutput())
        self.sim = None

    def create_background_task(self, coroutine):
        return self.sim.new_task(coroutine)


_APP = None


def get_happ():
    global _APP
    if _APP is None:
        _APP = HApp()
    return _APP


def closure_var(fn, name):
    idx = fn.__code__.co_freevars.index(name)
    return fn.__closure__[idx].cell_contents


def task_kind(coro):
    qn = coro.__qualname__
    if "async_completer" in qn:
        kw = {}
        try:
            kw = coro.cr_frame.f_locals.get("kw", {})
        except Exception:
            pass
        m = 1 if kw.get("select_first") else 2 if kw.get("select_last") else 3 if kw.get("insert_common_part") else 0
        return "c%d" % m
    if "async_validator" in qn:
        return "v"
    if "async_suggestor" in qn:
        return "s"
    return "?"


DEFAULT_CFG = {"cwt": 1, "hasV": 1, "vwt": 1, "hasS": 1, "maxN": 10000}


class Sim:
    """One real Buffer on a private event loop, with gated user code."""

    def __init__(self, case):
        cfg = dict(DEFAULT_CFG, **case.get("cfg", {}))
        self.cfg = cfg
        self.spec = [tuple(x) for x in case["comp"]]
        self.vspec = tuple(case.get("valid", (1, 3, 0)))
        self.sspec = tuple(case.get("sugg", (0, 2, 0, "!")))
        self.natural = case.get("mode") == "natural"
        self.gates = {"c": Gate(), "v": Gate(), "s": Gate()}
        self.active = {"c": 0, "v": 0, "s": 0}
        self.max_active = {"c": 0, "v": 0, "s": 0}
        self.comp_log, self.val_log, self.sug_log = [], [], []
        self.hist_used = False
        self.pending = []   # (kind, coroutine or None)
        self.tasks = []
        self.task_err = None
        self.loop = asyncio.new_event_loop()
        self.app = get_happ()
        self.app.sim = self
        self._ctx = set_app(self.app)
        self._ctx.__enter__()
        self.buf = Buffer(
            completer=GCompleter(self),
            validator=GValidator(self) if cfg["hasV"] else None,
            auto_suggest=GSuggest(self) if cfg["hasS"] else None,
            complete_while_typing=bool(cfg["cwt"]),
            validate_while_typing=bool(cfg["vwt"]),
            max_number_of_completions=cfg["maxN"],
            document=Document(case["text"], min(case["cur"], len(case["text"]))),
        )

    # -- task plumbing
    def new_task(self, coro):
        kind = task_kind(coro)
        if self.natural:
            t = self.loop.create_task(coro)
            self.tasks.append(t)
            self.pending.append((kind, None))
            return t
        self.pending.append((kind, coro))
        return None

    def quiesce(self):
        for _ in range(200):
            self.loop.run_until_complete(asyncio.sleep(0))
            if not self.loop._ready:
                break
        if self.natural:
            self.pending.clear()
        for t in self.tasks:
            if t.done() and not t.cancelled() and t.exception() is not None and self.task_err is None:
                self.task_err = type(t.exception()).__name__
        self.tasks = [t for t in self.tasks if not t.done()]

    def close(self):
        try:
            for _, coro in self.pending:
                if coro is not None:
                    coro.close()
            for t in asyncio.all_tasks(self.loop):
                t.cancel()
            for _ in range(5):
                self.loop.run_until_complete(asyncio.sleep(0))
            self.loop.close()
        finally:
            self._ctx.__exit__(None, None, None)
            self.app.sim = None

    # -- one protocol op on the real objects; returns "ok"/"err"
    def apply(self, op):
        b = self.buf
        k = op[0]
        self.task_err = None
        try:
            if k == "ins":
                b.insert_text(op[1])
            elif k == "delb":
                b.delete_before_cursor(op[1])
            elif k == "del":
                b.delete(op[1])
            elif k == "cur":
                b.cursor_position = op[1]
            elif k == "text":
                b.text = op[1]
            elif k == "next":
                b.complete_next(count=op[1], disable_wrap_around=bool(op[2]))
            elif k == "prev":
                b.complete_previous(count=op[1], disable_wrap_around=bool(op[2]))
            elif k == "cancel":
                b.cancel_completion()
            elif k == "startc":
                m = op[1]
                b.start_completion(select_first=(m == 1), select_last=(m == 2), insert_common_part=(m == 3))
            elif k == "tab":
                class _Ev:
                    current_buffer = b
                generate_completions(_Ev())
            elif k == "apply":
                b.apply_completion(Completion(op[1], op[2]))
            elif k == "vsync":
                b.validate()
            elif k == "reset":
                b.reset(Document(op[1], min(op[2], len(op[1]))))
            elif k == "hist":
                self.hist_used = True
                b.start_history_lines_completion()
            elif k == "kill":
                if self.gates[op[1]].kill():
                    self.quiesce()
            elif k == "killp":
                if op[1] < len(self.pending):
                    _, coro = self.pending.pop(op[1])
                    if coro is not None:
                        coro.close()
            elif k == "start":
                if not self.natural and op[1] < len(self.pending):
                    _, coro = self.pending.pop(op[1])
                    self.tasks.append(self.loop.create_task(coro))
                    self.quiesce()
            elif k == "rel":
                if not self.natural and self.gates[op[1]].release():
                    self.quiesce()
            elif k == "drain":
                if self.natural:
                    self.quiesce()
                else:
                    while self.pending:
                        _, coro = self.pending.pop(0)
                        self.tasks.append(self.loop.create_task(coro))
                        self.quiesce()
            elif k == "nrel":
                if self.natural:
                    self.gates[op[1]].release()
                    self.quiesce()
                else:
                    had = bool(self.gates[op[1]].waiters)
                    self.apply(["drain"])
                    if had:
                        self.apply(["rel", op[1]])
                        self.apply(["drain"])
            else:
                raise ValueError(op)
        except (IndexError, AssertionError, AttributeError, TypeError, KeyError) as e:
            self.last_exc = e
            return "err"
        if self.task_err:
            return "taskerr:" + self.task_err
        return "ok"

    def state_line(self, status):
        b = self.buf
        cs = b.complete_state
        if cs is None:
            css = "N"
        else:
            od = cs.original_document
            idx = "N" if cs.complete_index is None else str(cs.complete_index)
            css = "C %s %d %s %s" % (enc_str(od.text), od.cursor_position, idx,
                                     core.enc_list(cs.completions,
                                                   lambda c: "%s %d" % (enc_str(c.text), c.start_position)))
        vs = {ValidationState.UNKNOWN: "U", ValidationState.VALID: "V",
              ValidationState.INVALID: "I"}[b.validation_state]
        verr = "N" if b.validation_error is None else enc_str(b.validation_error.message)
        sg = "N" if b.suggestion is None else enc_str(b.suggestion.text)
        run = "".join("1" if closure_var(f, "running") else "0"
                      for f in (b._async_completer, b._async_validator, b._async_suggester))
        pend = ",".join(k for k, _ in self.pending) or "-"
        w = []
        for _, (t, c, i), _ in self.gates["c"].waiters:
            w.append("c:%s:%d:%d" % (enc_str(t), c, i))
        for _, (t, c), _ in self.gates["v"].waiters:
            w.append("v:%s:%d" % (enc_str(t), c))
        for _, (t, c), _ in self.gates["s"].waiters:
            w.append("s:%s:%d" % (enc_str(t), c))
        return "%s %s %d %s %s %s %s %s %s %s" % (status, enc_str(b.text), b.cursor_position, css, vs,
                                                  verr, sg, run, pend, ",".join(w) or "-")


# ------------------------------------------------------------------ protocol lines
# the model's `fixD1` switch: 1 = the repaired async_completer (commit 279c220), which is what
# /repo contains; the unrepaired variant stays in the model for the counterexample theorem
FIX_D1 = 1


def init_line(case) -> str:
    cfg = dict(DEFAULT_CFG, **case.get("cfg", {}))
    v = case.get("valid", (1, 3, 0))
    s = case.get("sugg", (0, 2, 0, "!"))
    parts = ["init", cfg["cwt"], cfg["hasV"], cfg["vwt"], cfg["hasS"], cfg["maxN"], FIX_D1,
             v[0], v[1], v[2], s[0], s[1], s[2], enc_str(s[3]),
             enc_str(case["text"]), case["cur"], len(case["comp"])]
    for back, echo, lit in case["comp"]:
        parts += [back, 1 if echo else 0, enc_str(lit)]
    return " ".join(str(p) for p in parts)


def op_line(op) -> str:
    k = op[0]
    if k in ("ins", "text"):
        return "%s %s" % (k, enc_str(op[1]))
    if k == "apply":
        return "apply %s %d" % (enc_str(op[1]), op[2])
    if k == "reset":
        return "reset %s %d" % (enc_str(op[1]), op[2])
    return " ".join(str(x) for x in op)


def parse_op(s: str):
    """inverse of op_line for the paths printed by the driver's `enum`"""
    t = s.split(" ")
    k = t[0]
    if k in ("ins", "text"):
        return [k, core.dec_str(t[1])]
    if k in ("delb", "del", "cur", "startc", "start", "killp"):
        return [k, int(t[1])]
    if k in ("next", "prev"):
        return [k, int(t[1]), int(t[2])]
    if k in ("rel", "nrel", "kill"):
        return [k, t[1]]
    if k == "apply":
        return [k, core.dec_str(t[1]), int(t[2])]
    if k == "reset":
        return [k, core.dec_str(t[1]), int(t[2])]
    return [k]


def model_lines(case):
    return [init_line(case)] + [op_line(op) for op in case["ops"]]


def impl_lines(case):
    with warnings.catch_warnings():
        warnings.simplefilter("ignore")
        sim = Sim(case)
        try:
            out = [sim.state_line("ok")]
            for op in case["ops"]:
                st = sim.apply(op)
                out.append(sim.state_line(st))
            return out
        finally:
            sim.close()


# ------------------------------------------------------------------ oracle
DANGLING = "async_completer | single no-op completion dropped while selected (complete_index dangles)"


def expected_apply(otext, ocur, ctext, cstart):
    before, after = otext[:ocur], otext[ocur:]
    k = -cstart
    nb = before[:max(0, len(before) - k)]
    return nb + ctext + after, len(nb) + len(ctext)


def hist_expected(text, cur):
    """what start_history_lines_completion must offer for Document(text, cur) with an empty history:
    the distinct stripped non-empty lines that start with the (left-stripped) current line"""
    cl = text[:cur].rpartition("\n")[2].lstrip()
    out = []
    for line in text.split("\n"):
        line = line.strip()
        if line and line.startswith(cl) and (line, -len(cl)) not in out:
            out.append((line, -len(cl)))
    return out[::-1]


def check_state(sim, v, where):
    """the state part of C15, on the real objects"""
    b = sim.buf

    def bad(sig, msg):
        v.append({"signature": sig, "msg": "%s after %s: text=%r cur=%d cs=%r vs=%s sugg=%r" % (
            msg, where, b.text, b.cursor_position, b.complete_state, b.validation_state, b.suggestion)})

    cs = b.complete_state
    if not (0 <= b.cursor_position <= len(b.text)):
        bad("Buffer | cursor out of range", "cursor outside the text")
    if cs is not None:
        od = cs.original_document
        comps = [(c.text, c.start_position) for c in cs.completions]
        if cs.complete_index is not None and not (0 <= cs.complete_index < len(comps)):
            bad(DANGLING, "complete_index points at no completion")
        else:
            if cs.complete_index is None:
                et, ec = od.text, od.cursor_position
            else:
                et, ec = expected_apply(od.text, od.cursor_position, *comps[cs.complete_index])
            if (b.text, b.cursor_position) != (et, ec):
                bad("Buffer.complete_state | text is not original + selected completion",
                    "menu shown for a text it does not describe (expected %r,%d)" % (et, ec))
        # provenance: computed by the completer for the original document
        full = comp_fn(sim.spec, od.text, od.cursor_position)
        ok = comps == full[:len(comps)]
        if not ok:
            for (dt, dc, items) in sim.comp_log:
                if len(od.text) > len(dt) and len(comps) <= len(items):
                    cp = od.text[dc:dc + len(od.text) - len(dt)]
                    if (cp and od.text == dt[:dc] + cp + dt[dc:] and od.cursor_position == dc + len(cp)
                            and comps == [(t[len(cp) - s:], 0) for t, s in items[:len(comps)]]):
                        ok = True
        if not ok and sim.hist_used:
            ok = comps == hist_expected(od.text, od.cursor_position)
        if not ok:
            bad("Buffer.complete_state | completions not computed for the original document",
                "completion list is stale (completer gives %r for the original document)" % (full,))
    if b.validation_state != ValidationState.UNKNOWN:
        want = None if b.validation_state == ValidationState.VALID else (
            b.validation_error.message if b.validation_error is not None else "<no error object>")
        if sim.cfg["hasV"]:
            if not any(t == b.text and m == want for (t, c, m) in sim.val_log):
                bad("Buffer.validation_state | verdict not computed for the current text",
                    "stale validation verdict %r" % (want,))
        if (b.validation_state == ValidationState.VALID) != (b.validation_error is None):
            bad("Buffer.validation_state | state and error disagree", "validation_state vs validation_error")
    if b.suggestion is not None:
        if not any(t == b.text and r == b.suggestion.text for (t, c, r) in sim.sug_log):
            bad("Buffer.suggestion | suggestion not computed for the current text", "stale suggestion")
    for kind, name in (("c", "completer"), ("v", "validator"), ("s", "suggester")):
        if sim.active[kind] > 1 or len(sim.gates[kind].waiters) > 1:
            bad("_only_one_at_a_time | two %ss active" % name, "more than one %s running" % name)


def oracle(case):
    v = []
    with warnings.catch_warnings():
        warnings.simplefilter("ignore")
        sim = Sim(case)
        try:
            b = sim.buf
            check_state(sim, v, "init")
            for n, op in enumerate(case["ops"]):
                cs0 = b.complete_state
                pre = None
                if cs0 is not None:
                    pre = (cs0.original_document.text, cs0.original_document.cursor_position,
                           cs0.complete_index, len(cs0.completions))
                dangling = pre is not None and pre[2] is not None and pre[2] >= pre[3]
                st = sim.apply(op)
                where = "step %d %r" % (n, op)
                k = op[0]
                if st == "err":
                    if dangling:
                        v.append({"signature": DANGLING, "msg": "%s raised %r" % (where, sim.last_exc)})
                    elif k in ("next", "prev", "cancel", "tab", "ins", "delb", "del", "cur", "text", "startc",
                               "vsync", "reset", "apply", "hist"):
                        v.append({"signature": "Buffer.%s | raises" % k,
                                  "msg": "%s raised %r" % (where, sim.last_exc)})
                elif st.startswith("taskerr"):
                    v.append({"signature": "background task | raises", "msg": "%s: %s" % (where, st)})
                cs1 = b.complete_state
                if st == "ok" and pre is not None and not dangling:
                    ot, oc, i0, n0 = pre
                    if k in ("next", "prev") and not op[2]:
                        cnt = op[1]
                        if n0 == 0:
                            exp = i0
                        elif k == "next":
                            exp = 0 if i0 is None else (None if i0 == n0 - 1 else min(n0 - 1, i0 + cnt))
                        else:
                            exp = n0 - 1 if i0 is None else (None if i0 == 0 else max(0, i0 - cnt))
                        if cs1 is not cs0 or cs1.complete_index != exp:
                            v.append({"signature": "Buffer.complete_%s | wrong index" % (
                                "next" if k == "next" else "previous"),
                                "msg": "%s: index %r -> %r of %d, expected %r" % (
                                    where, i0, None if cs1 is None else cs1.complete_index, n0, exp)})
                    if k == "cancel":
                        if cs1 is not None or (b.text, b.cursor_position) != (ot, oc):
                            v.append({"signature": "Buffer.cancel_completion | original not restored",
                                      "msg": "%s: text=%r cur=%d, original %r,%d" % (
                                          where, b.text, b.cursor_position, ot, oc)})
                check_state(sim, v, where)
        finally:
            sim.close()
    seen, out = set(), []
    for x in v:
        if x["signature"] not in seen:
            seen.add(x["signature"])
            out.append(x)
    return out


# ------------------------------------------------------------------ generators
# scripted completers: (back, echo, lit) -> Completion(text=last `back` chars (if echo) + lit, -back)
COMPS = {
    "empty": [],
    "noop1": [[2, True, ""]],                       # single completion that changes nothing
    "ext2": [[1, True, "xy"], [1, True, "xz"]],     # common part "x", then y / z
    "chg3": [[1, False, "Q"], [2, False, "RS"], [1, False, ""]],   # change text before the cursor
    "one": [[1, True, "ab"]],                       # single completion with a common part
    "dup3": [[0, False, "x"], [0, False, "xy"], [0, False, "x"]],
    "single_chg": [[1, False, "Z"]],                # no common part, exactly one match
    "noop_then": [[1, True, ""], [0, False, "k"]],
}

A_USER = ["ins_s:97", "delb_1", "cur_-1", "next_1_0", "prev_1_0", "cancel"]
A_SCHED_C = ["start_0", "rel_c"]


def enum_configs(tier):
    """(case skeleton, alphabet, depth quick, depth thorough)"""
    off = {"cwt": 0, "hasV": 0, "vwt": 0, "hasS": 0}
    out = []
    # identity of the CompletionState object: a foreign menu appears while a stream is loading
    for name, mode in (("one", 3), ("ext2", 3), ("ext2", 2), ("chg3", 1)):
        out.append(({"cfg": dict(off), "comp": COMPS[name], "text": "a", "cur": 1},
                    ["ins_s:97", "hist", "prev_1_0", "startc_%d" % mode, "start_0", "rel_c"], 9, 11))
    # completer only, explicit start in each mode
    for name, mode, dq, dt in (("ext2", 0, 6, 7), ("ext2", 3, 6, 8), ("noop1", 0, 6, 7), ("chg3", 1, 6, 7),
                               ("chg3", 2, 5, 7), ("single_chg", 3, 6, 8), ("one", 3, 6, 8),
                               ("dup3", 3, 6, 8), ("noop_then", 0, 5, 7), ("empty", 0, 5, 7)):
        out.append(({"cfg": dict(off), "comp": COMPS[name], "text": "ab", "cur": 2},
                    A_USER + ["startc_%d" % mode, "tab"] + A_SCHED_C, dq, dt))
    # complete while typing (tasks created by insert_text), two pending tasks compete
    out.append(({"cfg": dict(off, cwt=1), "comp": COMPS["ext2"], "text": "a", "cur": 1},
                A_USER + ["tab", "start_0", "start_1", "rel_c"], 6, 7))
    # validator only
    out.append(({"cfg": dict(off, hasV=1, vwt=1), "comp": [], "text": "ab", "cur": 2, "valid": [1, 3, 0]},
                ["ins_s:97", "delb_1", "cur_-1", "cur_+1", "vsync", "start_0", "start_1", "rel_v"], 6, 8))
    # suggester only
    out.append(({"cfg": dict(off, hasS=1), "comp": [], "text": "ab", "cur": 2, "sugg": [1, 3, 0, "!"]},
                ["ins_s:97", "delb_1", "cur_-1", "cur_+1", "start_0", "start_1", "rel_s"], 7, 9))
    # everything at once
    out.append(({"cfg": dict(DEFAULT_CFG), "comp": COMPS["ext2"], "text": "a", "cur": 1},
                ["ins_s:97", "delb_1", "cur_-1", "next_1_0", "cancel", "tab", "start_0", "rel_c", "rel_v",
                 "rel_s"], 5, 7))
    # a foreign menu (start_history_lines_completion) while the completer loads: identity check
    out.append(({"cfg": dict(off), "comp": COMPS["ext2"], "text": "ab\na", "cur": 4},
                ["ins_s:97", "cur_-1", "prev_1_0", "cancel", "hist", "startc_3", "startc_1", "start_0", "rel_c"],
                6, 8))
    # task cancellation
    out.append(({"cfg": dict(DEFAULT_CFG), "comp": COMPS["ext2"], "text": "a", "cur": 1},
                ["ins_s:97", "next_1_0", "tab", "start_0", "rel_c", "rel_v", "kill_c", "kill_v", "kill_s",
                 "killp_0"], 5, 7))
    # small max_number_of_completions
    out.append(({"cfg": dict(off, maxN=2), "comp": COMPS["chg3"], "text": "ab", "cur": 2},
                A_USER + ["startc_3", "startc_1"] + A_SCHED_C, 5, 7))
    return out


def enum_paths(skel, alphabet, depth, max_states=400000):
    exe = os.path.join(core.LEAN, ".lake", "build", "bin", DRIVER)
    if not os.path.exists(exe):
        return []
    inp = init_line(dict(skel, ops=[])) + "\n" + "enum %d %d %s\n" % (depth, max_states, " ".join(alphabet))
    r = subprocess.run([exe], input=inp, capture_output=True, text=True, timeout=1800)
    lines = r.stdout.split("\n")
    if r.returncode != 0 or len(lines) < 2 or not lines[1].startswith("paths "):
        return []
    parts = lines[1].split(" | ")[1:]
    return [[parse_op(o) for o in p.split(";")] for p in parts if p]


# ------------------------------------------------------------------ hand-written stress schedules
def stress_cases():
    """The schedules stored in corpus/C15/stress.json (regenerate with
    `/venv/bin/python -c "import sys; sys.path.insert(0, 'harness'); import c15; c15.write_corpus()"`):
    orphaned streams, foreign menus (identity check), ABA edits around the validator / suggester
    awaits, cancellation."""
    off = {"cwt": 0, "hasV": 0, "vwt": 0, "hasS": 0}
    out = []
    for spec in ("ext2", "one", "noop1", "chg3", "dup3"):
        for mode in range(4):
            for j in range(3):
                for edit in ([["ins", "a"]], [["delb", 1]], [["cur", 0], ["cur", 1]],
                             [["ins", "a"], ["delb", 1]], []):
                    for foreign in ([["hist"]], []):
                        for nav in ([], [["prev", 1, 0]], [["next", 1, 0]], [["cancel"]]):
                            ops = ([["startc", mode], ["start", 0]] + [["rel", "c"]] * j + edit + foreign + nav
                                   + [["rel", "c"]] * 4
                                   + [["tab"], ["start", 0], ["rel", "c"], ["rel", "c"], ["rel", "c"]])
                            out.append({"cfg": dict(off), "comp": COMPS[spec], "text": "a", "cur": 1,
                                        "mode": "deferred", "ops": ops})
    for edit in ([["ins", "a"]], [["ins", "a"], ["delb", 1]], [["cur", 0]], [["cur", 0], ["cur", 2]],
                 [["reset", "ab", 2]], [["vsync"]], [["text", "ba"]], [["kill", "v"], ["ins", "b"]],
                 [["kill", "s"], ["ins", "b"]]):
        for natural in (False, True):
            if natural and any(o[0] == "kill" for o in edit):
                continue
            ops = [["ins", "b"]] + ([["drain"]] if natural else [["start", 0], ["start", 0], ["start", 0]]) + edit
            if natural:
                ops += [["nrel", "v"], ["nrel", "s"], ["nrel", "v"], ["nrel", "s"], ["drain"]]
            else:
                ops += [["rel", "v"], ["rel", "s"], ["drain"], ["rel", "v"], ["rel", "s"]]
            for post in ([], [["delb", 1]], [["cur", 0]], [["text", "zz"]], [["ins", "c"]]):
                ops2 = ops + post
                if post:
                    ops2 = ops2 + ([["nrel", "v"], ["nrel", "s"]] if natural else
                                   [["drain"], ["rel", "v"], ["rel", "s"]])
                out.append({"cfg": dict(DEFAULT_CFG), "comp": COMPS["ext2"], "text": "a", "cur": 1,
                            "valid": [1, 2, 0], "sugg": [1, 2, 1, "!"],
                            "mode": "natural" if natural else "deferred", "ops": ops2})
    return out


def write_corpus():
    import json
    path = os.path.join(core.ROOT, "corpus", ID, "stress.json")
    os.makedirs(os.path.dirname(path), exist_ok=True)
    with open(path, "w") as f:
        json.dump({"note": stress_cases.__doc__, "cases": stress_cases()}, f)
    return path


RA = ["a", "b", "x", " ", "a", "b", "\n"]


def rand_spec(rng):
    if rng.random() < 0.5:
        return [list(x) for x in rng.choice(list(COMPS.values()))]
    n = rng.choice([0, 1, 1, 2, 2, 3, 4])
    return [[rng.choice([0, 0, 1, 1, 2, 3]), rng.random() < 0.6,
             "".join(rng.choice("xyzk") for _ in range(rng.choice([0, 1, 1, 2])))] for _ in range(n)]


def rand_case(rng, natural):
    cfg = {"cwt": rng.randrange(2), "hasV": rng.randrange(2), "vwt": rng.randrange(2), "hasS": rng.randrange(2),
           "maxN": rng.choice([1, 2, 3, 10000, 10000, 10000])}
    text = "".join(rng.choice(RA) for _ in range(rng.choice([0, 1, 2, 3, 5])))
    cur = rng.choice([len(text), len(text), rng.randrange(0, len(text) + 1)])
    case = {"cfg": cfg, "comp": rand_spec(rng), "text": text, "cur": cur,
            "valid": [rng.randrange(2), rng.choice([1, 2, 3]), 0],
            "sugg": [rng.randrange(2), rng.choice([1, 2, 3]), rng.randrange(2), rng.choice(["", "!", "zz"])],
            "mode": "natural" if natural else "deferred"}
    ops = []
    n = rng.choice([3, 6, 10, 16, 25, 40])
    for _ in range(n):
        r = rng.random()
        if r < 0.40:
            if natural:
                ops.append(rng.choice([["nrel", "c"], ["nrel", "c"], ["nrel", "v"], ["nrel", "s"], ["drain"]]))
            else:
                ops.append(rng.choice([["start", 0], ["start", 0], ["start", rng.randrange(3)], ["rel", "c"],
                                       ["rel", "c"], ["rel", "c"], ["rel", "v"], ["rel", "v"], ["rel", "s"],
                                       ["rel", "s"], ["drain"], ["nrel", "c"],
                                       ["kill", rng.choice("cvs")], ["killp", rng.randrange(2)]]))
        elif r < 0.55:
            ops.append(["ins", "".join(rng.choice(RA) for _ in range(rng.choice([0, 1, 1, 2])))])
        elif r < 0.62:
            ops.append(rng.choice([["delb", rng.randrange(3)], ["del", rng.randrange(3)]]))
        elif r < 0.68:
            ops.append(["cur", rng.randrange(-1, 8)])
        elif r < 0.76:
            ops.append(["next", rng.choice([1, 1, 1, 2, 5]), int(rng.random() < 0.2)])
        elif r < 0.82:
            ops.append(["prev", rng.choice([1, 1, 1, 2, 5]), int(rng.random() < 0.2)])
        elif r < 0.86:
            ops.append(["cancel"])
        elif r < 0.92:
            ops.append(["startc", rng.randrange(4)])
        elif r < 0.94:
            ops.append(["tab"])
        elif r < 0.95:
            ops.append(["hist"])
        elif r < 0.96:
            ops.append(["vsync"])
        elif r < 0.975:
            ops.append(["apply", rng.choice(["", "q", "ab"]), -rng.randrange(3)])
        elif r < 0.99:
            ops.append(["text", "".join(rng.choice(RA) for _ in range(rng.randrange(4)))])
        else:
            t = "".join(rng.choice(RA) for _ in range(rng.randrange(3)))
            ops.append(["reset", t, rng.randrange(len(t) + 1)])
    case["ops"] = ops
    return case


_ENUMERATED = set()


def cases(tier, rng):
    # the enumeration does not depend on the seed: a second call for the same tier (source-change
    # escalation with extra seeds) only adds random schedules
    if tier not in _ENUMERATED:
        _ENUMERATED.add(tier)
        for skel, alphabet, dq, dt in enum_configs(tier):
            depth = dq if tier == "quick" else dt
            for path in enum_paths(skel, alphabet, depth):
                yield dict(skel, mode="deferred", ops=path)
    nrand = 4000 if tier == "quick" else 50000
    for i in range(nrand):
        yield rand_case(rng, natural=(i % 3 == 2))


SCHED = ("start", "rel", "drain", "nrel", "kill", "killp")


def nontrivial(case):
    ops = case["ops"]
    return any(o[0] in SCHED for o in ops) and any(o[0] not in SCHED for o in ops)


def distribution(cases_):
    d = {"ops": {}, "len": {}, "mode": {}}
    for c in cases_:
        d["mode"][c.get("mode", "deferred")] = d["mode"].get(c.get("mode", "deferred"), 0) + 1
        n = len(c["ops"])
        key = str(n) if n < 10 else "10+"
        d["len"][key] = d["len"].get(key, 0) + 1
        for op in c["ops"]:
            d["ops"][op[0]] = d["ops"].get(op[0], 0) + 1
    return d


if __name__ == "__main__":
    sys.exit(core.main(sys.modules[__name__]))
