#!/venv/bin/python
"""C15 — asynchronous completions / validation / suggestions are never applied stale.

Correspondence: a real `Buffer` with a scripted completer, validator and auto-suggester whose
every await is gated by the harness, driven on a private asyncio loop; the schedule (user
actions, task starts, wake-ups) is replayed on the Lean transition system `Ptk.Model.C15`
and the observable state is compared after every step.  Oracle: the property restated over
the real objects after every step.

Three families of cases:
  * asynchronous sources (gated async completer / validator / suggester),
  * threaded sources ("thr": ThreadedCompleter / ThreadedValidator / ThreadedAutoSuggest around gated
    synchronous user code; every executor job and every item of the completer thread is released by the
    schedule),
  * the hand-off alone ("fam": "hand": generator_to_async_generator with a small buffer_size, real queue
    and real one-second timeouts; model `Ptk.Model.C15Thread`).
"""
from __future__ import annotations

import asyncio
import os
import subprocess
import sys
import threading
import time
import warnings

sys.path.insert(0, os.path.dirname(os.path.abspath(__file__)))
import core
from core import enc_str

from prompt_toolkit.application import Application
from prompt_toolkit.application.current import set_app
from prompt_toolkit.auto_suggest import AutoSuggest, AutoSuggestFromHistory, Suggestion, ThreadedAutoSuggest
from prompt_toolkit.history import InMemoryHistory
from prompt_toolkit.buffer import Buffer, ValidationState
from prompt_toolkit.completion import Completer, Completion, ThreadedCompleter
from prompt_toolkit.document import Document
from prompt_toolkit.input import DummyInput
from prompt_toolkit.key_binding.bindings.completion import generate_completions
from prompt_toolkit.layout.processors import AppendAutoSuggestion, TransformationInput
from prompt_toolkit.output import DummyOutput
from prompt_toolkit.validation import ThreadedValidator, ValidationError, Validator
from prompt_toolkit.eventloop.async_generator import aclosing, generator_to_async_generator

ID = "C15"
DRIVER = "drv_c15"
PROPS = ["Ptk.Props.C15", "Ptk.Props.C15Threaded", "Ptk.Props.C15Ops", "Ptk.Props.C15Suggest", "Ptk.Props.C15Thread",
         "Ptk.Props.C15Sched",
         "Ptk.Props.C15Inv", "Ptk.Props.C15Common"]
LEVEL_TEXT = ("Lean 4 invariants over a labelled transition system of Buffer's completer / validator / auto-suggest "
              "coroutines (cut at their awaits) interleaved with user edits, selection changes, Buffer.reset and task "
              "cancellation, with asynchronous or threaded sources (ThreadedCompleter's hand-off — producer thread, "
              "bounded queue, q.get jobs, `quitting` flag — as a micro-step transition system): every reachable state, "
              "after any finite schedule, has text = original + selected completion, completions computed for the "
              "original document (through the queue: exactly a prefix of the completer's items, in order), verdict and "
              "suggestion computed for the current text (the suggestion is drawn only with the cursor at the end), at "
              "most one coroutine and one producer thread of each kind; an abandoned producer returns within five of "
              "its steps having asked for at most one more item, a full or empty queue never makes producer and "
              "consumer wait for each other; cycling with any count with/without wrap-around, cancel, select_first / "
              "select_last / insert_common_part laws; AutoSuggestFromHistory suggests the continuation of the last "
              "line to the most recent matching history line. The model is tied to /repo on every run by regenerated constants "
              "(queue bound, put timeouts, finally-structure), by replaying model-enumerated and random schedules on a "
              "real Buffer whose awaits, executor jobs and completer thread are gated, by walking every edge of the "
              "stand-alone hand-off's state graph on the real generator_to_async_generator (real queue, real "
              "timeouts), plus the property oracle on the real objects")
LEVEL_NOTE = ("partial: atomicity of code between two awaits is asyncio's, linearizability of queue.Queue and atomicity "
              "of the `quitting` cell are CPython's (assumed); real thread parallelism is represented by interleavings "
              "of micro-steps that touch the shared state once each; schedules are enforced at gates (executor jobs, "
              "items of the user's generator), so races inside one gate-to-gate run of a thread are covered by the "
              "theorems only; history navigation, yank/paste, open_in_editor, ConditionalAutoSuggest and "
              "DynamicAutoSuggest are not modelled; the model is hand-written and "
              "validated by the correspondence")
RULE = ("exhaustive: for each configuration (feature flags x scripted completer x initial document x asynchronous or "
        "threaded sources) the Lean driver enumerates breadth-first every schedule over the action alphabet up to the "
        "tier's depth, merging equal model states, and emits a path for every transition; each path is replayed on the "
        "real Buffer (tasks, executor jobs and the completer thread run only when the schedule says so). For the "
        "hand-off alone (generator_to_async_generator with n items, buffer_size cap, a consumer that leaves after "
        "`limit` items) the enumeration reaches a fixed point: every edge of the reachable state graph is replayed; "
        "paths on which the real producer needs its one-second queue timeouts are sampled. Then seeded random "
        "schedules up to 40 steps (explicit task start / natural asyncio FIFO order / threaded / hand-off). A case is "
        "non-trivial when at least one coroutine segment or thread step ran between user actions")
EXHAUSTIVE = True
EXHAUSTIVE_SCOPE = {
    "quick": "asynchronous sources: all schedules to depth 5-9 (per configuration) over insert/delete/cursor/next/previous/"
             "cancel/start-completion/tab/validate/selection/history-lines completion + task start + wake-up + "
             "cancellation of each coroutine kind, 22 configurations; threaded sources: 11 configurations, depth 4-6 "
             "after a 3-step prefix, alphabet + producer-thread step; hand-off alone: the complete reachable state "
             "graph for n <= 3 items, buffer_size <= 2, limit 1..3 or none (about 5300 paths, 10 of those with real "
             "queue timeouts); AutoSuggestFromHistory: all texts up to length 3 over {a, b, space, newline} x 40 "
             "histories",
    "thorough": "same alphabets, depth 7-11 (asynchronous) / 7-8 (threaded); hand-off alone: n <= 4, buffer_size <= 3, "
                "100 paths with real queue timeouts",
}
TRUSTED = ["harness/c15.py gates every await of the scripted completer/validator/suggester and compares "
           "(exception, text, cursor, complete_state, validation_state/error, suggestion, drawn suggestion, running "
           "flags, selection, pending tasks, waiting coroutines, producer position, queue contents, `quitting`) after "
           "every step",
           "Ptk/Model/C15.lean and Ptk/Model/C15Thread.lean are hand translations of buffer.py's async machinery and of "
           "eventloop/async_generator.py (correspondence-checked)",
           "the harness Application subclass defers create_background_task until the schedule starts the task",
           "threads: the harness wraps run_in_executor of its private event loop (every executor job waits for the "
           "schedule before it starts and before its result is delivered; jobs run on a ThreadPoolExecutor kept across "
           "cases), reads the closure cells `q` and `quitting` of the producer's `runner`, and recognises a producer "
           "blocked in q.put by the waiters of queue.Queue.not_full; no prompt_toolkit or stdlib name is replaced",
           "harness/gen_c15.py reads buffer_size from the signature of the imported function and the structural flags "
           "from the AST of the imported modules' source"]
ASSUMPTIONS = ["asyncio runs the code between two awaits of a coroutine atomically on one thread",
               "tasks created earlier take their first step earlier (FIFO ready queue) in natural mode; the "
               "theorems hold for any start order",
               "completer / validator / suggester are deterministic functions of the text and cursor of the Document "
               "they receive and do not raise anything but ValidationError",
               "queue.Queue operations are linearizable; a read or write of the closure cell `quitting` is atomic",
               "an execution with real thread parallelism is equivalent to an interleaving of the model's micro-steps "
               "(each touches the shared queue / flag at most once); a q.put(timeout=1) on a full queue ends with "
               "Full after finite time"]
PARTIAL_SCOPE = ["history navigation (working_index), yank/paste state, open_in_editor, read-only buffers not modelled",
                 "CompleteEvent flags are passed through to the completer and ignored by the scripted one",
                 "ConditionalAutoSuggest / DynamicAutoSuggest, DynamicCompleter / DynamicValidator and PromptSession's "
                 "complete_while_typing / enable_history_search filters are not modelled: completer, validator and "
                 "suggester are arbitrary functions of the document (AutoSuggestFromHistory is modelled as such a "
                 "function of document and history; str.splitlines is a parameter, instantiated for '\\n' only)",
                 "a producer thread that outlives its coroutine (coroutine cancelled a second time while it waits for "
                 "the thread) is dropped from the model; it has `quitting` set, so abandoned_producer_stops applies",
                 "cancellation corner (Lean witness abandon_can_strand_getter, not reproducible without a hook inside "
                 "`runner`): a consumer cancelled between the producer's last Full and its reading of `quitting`, "
                 "after the queue was drained, leaves one q.get executor thread blocked; nothing stale is shown",
                 "exceptions raised by user code inside the producer thread are not modelled",
                 "go_to_completion(index) is covered for the indices Buffer itself passes (complete_next/previous, "
                 "select_first/last); an out-of-range index given by a caller raises IndexError and is outside the model"]
ANCHORS = ["src/prompt_toolkit/buffer.py", "src/prompt_toolkit/completion/base.py",
           "src/prompt_toolkit/validation.py", "src/prompt_toolkit/auto_suggest.py",
           "src/prompt_toolkit/key_binding/bindings/completion.py",
           "src/prompt_toolkit/eventloop/async_generator.py", "src/prompt_toolkit/eventloop/utils.py",
           "src/prompt_toolkit/layout/processors.py"]
# the functions the Lean model follows line by line and the correspondence exercises
MODELLED = {
    "src/prompt_toolkit/buffer.py": [
        "CompletionState.go_to_index", "CompletionState.new_text_and_position",
        "Buffer.reset", "Buffer._set_text", "Buffer._set_cursor_position", "Buffer.text", "Buffer.cursor_position",
        "Buffer._text_changed", "Buffer._cursor_position_changed", "Buffer.document", "Buffer.set_document",
        "Buffer.delete_before_cursor", "Buffer.delete", "Buffer.complete_next", "Buffer.complete_previous",
        "Buffer.cancel_completion", "Buffer._set_completions", "Buffer.start_history_lines_completion",
        "Buffer.go_to_completion", "Buffer.apply_completion", "Buffer.start_selection", "Buffer.exit_selection",
        "Buffer.insert_text", "Buffer.validate", "Buffer._validate_async", "Buffer.start_completion",
        "Buffer._create_completer_coroutine", "Buffer._create_completer_coroutine.completion_does_nothing",
        "Buffer._create_completer_coroutine.async_completer",
        "Buffer._create_completer_coroutine.async_completer.proceed",
        "Buffer._create_auto_suggest_coroutine.async_suggestor",
        "Buffer._create_auto_validate_coroutine.async_validator",
        "_only_one_at_a_time", "_only_one_at_a_time.new_coroutine"],
    "src/prompt_toolkit/completion/base.py": [
        "Completion.new_completion_from_position", "ThreadedCompleter.get_completions_async",
        "get_common_complete_suffix", "get_common_complete_suffix.doesnt_change_before_cursor",
        "get_common_complete_suffix.get_suffix", "_commonprefix"],
    "src/prompt_toolkit/eventloop/async_generator.py": [
        "aclosing", "generator_to_async_generator", "generator_to_async_generator.runner"],
    "src/prompt_toolkit/eventloop/utils.py": ["run_in_executor_with_context"],
    "src/prompt_toolkit/validation.py": ["ThreadedValidator.validate_async"],
    "src/prompt_toolkit/auto_suggest.py": ["ThreadedAutoSuggest.get_suggestion_async",
                                           "AutoSuggestFromHistory.get_suggestion"],
    "src/prompt_toolkit/key_binding/bindings/completion.py": ["generate_completions"],
    "src/prompt_toolkit/layout/processors.py": ["AppendAutoSuggestion.apply_transformation"],
}
TECHNIQUE = "Lean 4 proof over an executable transition system + schedule-replay correspondence + oracle"

# ------------------------------------------------------------------ scripted user code


def last_n(t: str, n: int) -> str:
    return t[max(0, len(t) - n):]


def comp_fn(spec, text, cur):
    """[(text, start_position)] the scripted completer yields for Document(text, cur)"""
    before = text[:cur]
    return [((last_n(before, back) if echo else "") + lit, -back) for back, echo, lit in spec]


def valid_fn(v, text, cur):
    a, p, r = v
    if (len(text) + a * cur) % p == r:
        return "E" + text[:1]
    return None


def sugg_fn(s, text, cur):
    a, p, r, lit = s
    if (len(text) + a * cur) % p == r:
        return None
    return last_n(text, 2) + lit


class _BC:
    """what AppendAutoSuggestion reads of a BufferControl"""

    def __init__(self, buffer):
        self.buffer = buffer


_APPEND = AppendAutoSuggestion()


def shown_suggestion(b) -> str:
    """the text the real AppendAutoSuggestion processor appends to the last line of the buffer"""
    d = b.document
    ti = TransformationInput(_BC(b), d, d.line_count - 1, lambda i: i, [], 80, 1)
    return _APPEND.apply_transformation(ti).fragments[-1][1]


class Gate:
    def __init__(self):
        self.waiters = []  # (event, info)

    async def wait(self, info):
        ev = asyncio.Event()
        entry = (ev, info, asyncio.current_task())
        self.waiters.append(entry)
        try:
            await ev.wait()
        finally:
            # a cancelled waiter leaves the gate
            if entry in self.waiters:
                self.waiters.remove(entry)

    def release(self) -> bool:
        if not self.waiters:
            return False
        ev, _, _ = self.waiters.pop(0)
        ev.set()
        return True

    def kill(self) -> bool:
        if not self.waiters:
            return False
        self.waiters[0][2].cancel()
        return True


class GCompleter(Completer):
    def __init__(self, sim):
        self.sim = sim

    def get_completions(self, document, complete_event):
        return [Completion(t, s) for t, s in comp_fn(self.sim.spec, document.text, document.cursor_position)]

    async def get_completions_async(self, document, complete_event):
        sim = self.sim
        items = comp_fn(sim.spec, document.text, document.cursor_position)
        sim.comp_log.append((document.text, document.cursor_position, items))
        sim.active["c"] += 1
        sim.max_active["c"] = max(sim.max_active["c"], sim.active["c"])
        try:
            for i, (t, s) in enumerate(items):
                await sim.gates["c"].wait((document.text, document.cursor_position, i))
                yield Completion(t, s)
            await sim.gates["c"].wait((document.text, document.cursor_position, len(items)))
        finally:
            sim.active["c"] -= 1


class GValidator(Validator):
    def __init__(self, sim):
        self.sim = sim

    def validate(self, document):
        msg = valid_fn(self.sim.vspec, document.text, document.cursor_position)
        self.sim.val_log.append((document.text, document.cursor_position, msg))
        if msg is not None:
            raise ValidationError(cursor_position=0, message=msg)

    async def validate_async(self, document):
        sim = self.sim
        sim.active["v"] += 1
        sim.max_active["v"] = max(sim.max_active["v"], sim.active["v"])
        try:
            await sim.gates["v"].wait((document.text, document.cursor_position))
            msg = valid_fn(sim.vspec, document.text, document.cursor_position)
            sim.val_log.append((document.text, document.cursor_position, msg))
            if msg is not None:
                raise ValidationError(cursor_position=0, message=msg)
        finally:
            sim.active["v"] -= 1


class GSuggest(AutoSuggest):
    def __init__(self, sim):
        self.sim = sim

    def get_suggestion(self, buffer, document):
        r = sugg_fn(self.sim.sspec, document.text, document.cursor_position)
        return None if r is None else Suggestion(r)

    async def get_suggestion_async(self, buff, document):
        sim = self.sim
        sim.active["s"] += 1
        sim.max_active["s"] = max(sim.max_active["s"], sim.active["s"])
        try:
            await sim.gates["s"].wait((document.text, document.cursor_position))
            r = sugg_fn(sim.sspec, document.text, document.cursor_position)
            sim.sug_log.append((document.text, document.cursor_position, r))
            return None if r is None else Suggestion(r)
        finally:
            sim.active["s"] -= 1


# ------------------------------------------------------------------ thread hand-off under a schedule
# Everything prompt_toolkit hands to another thread goes through `loop.run_in_executor`
# (`run_in_executor_with_context(runner)`, `loop.run_in_executor(None, q.get)`, the Threaded*
# wrappers).  The harness wraps that method of its private loop: every job waits for the schedule
# before it starts and before its result is delivered to the loop; the user's synchronous
# completer waits for the schedule before every item.  No prompt_toolkit or stdlib name is
# replaced; the queue, its timeouts and the executor threads are the real ones.
WAIT = 60.0        # generous: the machine is shared; a real deadlock is reported after this long
QUIT_WAIT = 15.0   # a producer that was told to quit needs two one-second `Full` timeouts at most
# circuit breaker: when the code under test really deadlocks, every affected case would wait for the full
# time-out; after a few of them (per worker process) the waits become short and closes stop being "honest"
_HUNG = [0]
HUNG_MAX = 3


def patience(t):
    return t if _HUNG[0] < HUNG_MAX else min(t, 2.5)



class HarnessTimeout(Exception):
    pass


class Job:
    def __init__(self, owner, fn, args):
        self.owner, self.fn, self.args = owner, fn, args
        self.start = threading.Event()
        self.finished = threading.Event()
        self.deliver = threading.Event()
        self.started = False
        self.entered = False
        self.delivered = False
        self.afut = None
        self.thread = None
        target = args[0] if args else fn
        self.kind = getattr(target, "__name__", "?")      # runner | get | run_validation_thread | ...
        self.target = target

    def cells(self):
        f = self.target
        if getattr(f, "__closure__", None) is None:
            return {}
        return dict(zip(f.__code__.co_freevars, f.__closure__))

    def run(self):
        self.entered = True
        self.owner.wake.set()
        self.start.wait()
        self.thread = threading.current_thread()
        if self.kind == "runner":
            self.owner.hand_by_thread[threading.get_ident()] = self.hand
        try:
            return self.fn(*self.args)
        finally:
            self.finished.set()
            self.owner.wake.set()
            self.deliver.wait()


class Hand:
    """one call of generator_to_async_generator: producer job, queue, `quitting` cell, gates"""

    def __init__(self, owner, job):
        self.owner, self.job = owner, job
        job.hand = self
        c = job.cells()
        self.q = c["q"].cell_contents
        self.quit_cell = c["quitting"]
        self.get_iterable = c["get_iterable"].cell_contents
        self.getter = None          # latest q.get job
        self.sem = threading.Semaphore(0)
        self.arrived = threading.Event()
        self.pos = -1               # index of the gate the producer waits at / passed last
        self.released = -1          # index of the last gate released
        self.n = None
        self.yielded = []
        self.killed = False
        self.detached = False
        self.inside = False
        self.calls_at_quit = None

    @property
    def quitting(self):
        try:
            return bool(self.quit_cell.cell_contents)
        except ValueError:
            return False

    def document(self):
        f = self.get_iterable
        if getattr(f, "__closure__", None):
            c = dict(zip(f.__code__.co_freevars, f.__closure__))
            if "document" in c:
                return c["document"].cell_contents
        return None

    # -- called in the producer thread by the user's generator
    def at_gate(self, k):
        self.pos = k
        self.arrived.set()
        self.owner.wake.set()
        while not self.sem.acquire(timeout=0.05):
            if self.owner.abort:
                return

    # -- called by the harness
    def blocked_in_put(self):
        try:
            return len(self.q.not_full._waiters) > 0
        except Exception:
            return False

    def settle(self):
        """wait until the producer thread cannot go on by itself"""
        job = self.job
        if not job.started:
            return
        deadline = time.time() + patience(WAIT)
        t_quit = None
        while True:
            if job.finished.is_set() or self.arrived.is_set():
                return
            if self.blocked_in_put():
                if not self.quitting:
                    return
                # told to quit while it waits for room: it needs two `Full` timeouts at most
                if t_quit is None:
                    t_quit = time.time()
                elif time.time() - t_quit > patience(QUIT_WAIT):
                    _HUNG[0] += 1
                    raise HarnessTimeout("producer thread keeps waiting for room in the queue although the "
                                         "consumer has quit")
            if time.time() > deadline:
                _HUNG[0] += 1
                raise HarnessTimeout("producer thread does not settle")
            self.owner.wake.wait(0.0002)
            self.owner.wake.clear()

    def release(self):
        """the schedule lets the producer go on: thread start, or the next item of the generator"""
        job = self.job
        if not job.started:
            job.started = True
            job.start.set()
        elif self.arrived.is_set() and not job.finished.is_set():
            self.arrived.clear()
            self.released = self.pos
            self.sem.release()
        self.settle()

    def pc(self):
        job = self.job
        if not job.started:
            return "w"
        if job.finished.is_set():
            return "x"
        if self.arrived.is_set():
            return "n%d" % self.pos
        if self.n is not None and self.released >= self.n:
            return "f"
        return "p%d" % self.released

    def enc_q(self):
        out = []
        for it in list(self.q.queue):
            idx = next((i for i, y in enumerate(self.yielded) if y is it), None)
            out.append("D" if idx is None else str(idx))
        return ".".join(out) if out else "e"

    def stage(self):
        g = self.getter
        if g is None or g.delivered:
            return "r"
        if g.finished.is_set():
            return "i"
        return "g"


class DaemonPool:
    """A thread pool with the interface run_in_executor needs (`submit` returning a
    concurrent.futures.Future), kept across cases so that a case does not pay for starting threads.
    Unlike ThreadPoolExecutor its threads are daemons: when the code under test really deadlocks, a
    thread that is blocked for ever must not keep the checking process from exiting."""

    def __init__(self):
        import queue as _queue
        self.q = _queue.SimpleQueue()
        self.lock = threading.Lock()
        self.idle = 0
        self.queued = 0

    def submit(self, fn, *args, **kw):
        from concurrent.futures import Future
        f = Future()
        with self.lock:
            self.queued += 1
            spawn = self.queued > self.idle
        if spawn:
            threading.Thread(target=self._worker, daemon=True, name="c15-pool").start()
        self.q.put((f, fn, args, kw))
        return f

    def _worker(self):
        while True:
            with self.lock:
                self.idle += 1
            f, fn, args, kw = self.q.get()
            with self.lock:
                self.idle -= 1
                self.queued -= 1
            if not f.set_running_or_notify_cancel():
                continue
            try:
                r = fn(*args, **kw)
            except BaseException as e:      # noqa: BLE001 - handed to the future, like ThreadPoolExecutor does
                f.set_exception(e)
            else:
                f.set_result(r)


_POOL = None
_POOL_PID = None


def get_pool():
    """the executor used in place of the loop's default one (per process)"""
    global _POOL, _POOL_PID
    if _POOL is None or _POOL_PID != os.getpid():
        _POOL = DaemonPool()
        _POOL_PID = os.getpid()
    return _POOL


class Threads:
    """mixin: a private loop whose run_in_executor is gated"""

    def init_threads(self):
        self.jobs = []
        self.hands = []
        self.hand_by_thread = {}
        self.abort = False
        self.wake = threading.Event()
        orig = self.loop.run_in_executor

        def rie(executor, func, *args):
            job = Job(self, func, args)
            self.jobs.append(job)
            if job.kind == "runner":
                self.hands.append(Hand(self, job))
            elif job.kind == "get":
                q = getattr(func, "__self__", None)
                for h in reversed(self.hands):
                    if h.q is q:
                        h.getter = job
                        break
            job.afut = orig(get_pool() if executor is None else executor, job.run)
            # wait until a worker thread has picked the job up: a job that is cancelled while it still
            # sits in the pool's queue is dropped by the pool, which would make the schedule depend on
            # thread start-up times
            t0 = time.time()
            while not job.entered and time.time() - t0 < WAIT:
                self.wake.wait(0.0002)
                self.wake.clear()
            return job.afut

        self.loop.run_in_executor = rie

    def spin(self, job):
        """run the loop until the result of `job` has reached it"""
        deadline = time.time() + patience(WAIT)
        while not job.afut.done():
            self.loop.run_until_complete(asyncio.sleep(0))
            if time.time() > deadline:
                _HUNG[0] += 1
                raise HarnessTimeout("executor result does not reach the loop")
        job.delivered = True

    def run_job(self, job):
        """start (if needed), wait for and deliver one executor job"""
        if not job.started:
            job.started = True
            job.start.set()
        if not job.finished.wait(patience(WAIT)):
            _HUNG[0] += 1
            raise HarnessTimeout("executor job does not finish")
        job.deliver.set()
        self.spin(job)

    @staticmethod
    def never_runs(j):
        """a job whose future was cancelled before a worker thread picked it up is dropped by the pool"""
        if j.entered or j.afut is None or not j.afut.cancelled():
            return False
        t0 = time.time()
        while not j.entered and time.time() - t0 < 0.005:
            time.sleep(0.0005)
        return not j.entered

    def finish_tasks(self):
        """cancel what is left on the loop and run it until every task has ended (a cancelled consumer
        still waits for its producer thread, whose result reaches the loop a little later)"""
        for t in asyncio.all_tasks(self.loop):
            t.cancel()
        t0 = time.time()
        for i in range(2000):
            self.loop.run_until_complete(asyncio.sleep(0))
            left = [t for t in asyncio.all_tasks(self.loop) if not t.done()]
            if not left and i >= 2:
                break
            if time.time() - t0 > 2.0:
                break
            if left and i > 5:
                for t in left:
                    t.cancel()
                time.sleep(0.0002)

    def close_threads(self, drain=False):
        """let every thread run to its end; report threads that do not end.  `drain`: also empty the
        queues meanwhile, so that a producer waiting for room does not need its one-second timeouts."""
        self.abort = True
        stuck = []
        if _HUNG[0] >= HUNG_MAX:
            drain = True
        for j in self.jobs:
            j.started = True
            j.start.set()
            j.deliver.set()
        for h in self.hands:
            for _ in range(4):
                h.sem.release()
        deadline = time.time() + patience(QUIT_WAIT)
        for j in self.jobs:
            if j.kind == "get" or self.never_runs(j):
                continue
            while not j.finished.is_set():
                if time.time() > deadline:
                    stuck.append(j.kind)
                    _HUNG[0] += 1
                    break
                if drain:
                    for h in self.hands:
                        try:
                            while True:
                                h.q.get_nowait()
                        except Exception:
                            pass
                j.finished.wait(0.0005 if drain else 0.05)
        if stuck and not drain:
            # reported; now help the thread to its end so that it does not linger
            t0 = time.time()
            while time.time() - t0 < 2.0 and any(not j.finished.is_set() for j in self.jobs if j.kind != "get"):
                for h in self.hands:
                    try:
                        while True:
                            h.q.get_nowait()
                    except Exception:
                        pass
                time.sleep(0.001)
        # q.get jobs of cancelled consumers wait for an element that never comes: wake them
        for j in self.jobs:
            if j.kind == "get" and not j.finished.is_set():
                if self.never_runs(j):
                    continue
                q = getattr(j.fn, "__self__", None)
                t0 = time.time()
                while not j.finished.is_set() and time.time() - t0 < 2.0:
                    try:
                        q.put_nowait(None)
                    except Exception:
                        pass
                    j.finished.wait(0.01)
        return stuck


class GSyncCompleter(Completer):
    """the user's synchronous completer (runs in the producer thread of ThreadedCompleter)"""

    def __init__(self, sim):
        self.sim = sim

    def get_completions(self, document, complete_event):
        sim = self.sim
        hand = sim.hand_by_thread.get(threading.get_ident())
        items = comp_fn(sim.spec, document.text, document.cursor_position)
        sim.comp_log.append((document.text, document.cursor_position, items))
        if hand is None:      # called synchronously (not by the harness)
            for t, s in items:
                yield Completion(t, s)
            return
        hand.n = len(items)
        with sim.lock:
            # enter/exit of this call of get_completions; a thread that the harness itself detached (its
            # coroutine was cancelled a second time while waiting for it) is not a run of the buffer any more
            hand.inside = True
            sim.active["c"] += 1
            runs = [h for h in sim.hands if h.inside and not h.detached]
            if len(runs) > 1 and sim.overlap is None:
                sim.overlap = [(h.document().text, h.document().cursor_position) for h in runs]
        try:
            for k, (t, s) in enumerate(items):
                hand.at_gate(k)
                c = Completion(t, s)
                hand.yielded.append(c)
                yield c
            hand.at_gate(len(items))
        finally:
            with sim.lock:
                hand.inside = False
                sim.active["c"] -= 1


class GSyncValidator(Validator):
    def __init__(self, sim):
        self.sim = sim

    def validate(self, document):
        sim = self.sim
        with sim.lock:
            sim.active["v"] += 1
            sim.max_active["v"] = max(sim.max_active["v"], sim.active["v"])
        try:
            msg = valid_fn(sim.vspec, document.text, document.cursor_position)
            sim.val_log.append((document.text, document.cursor_position, msg))
            if msg is not None:
                raise ValidationError(cursor_position=0, message=msg)
        finally:
            with sim.lock:
                sim.active["v"] -= 1


class GSyncSuggest(AutoSuggest):
    def __init__(self, sim):
        self.sim = sim

    def get_suggestion(self, buffer, document):
        sim = self.sim
        with sim.lock:
            sim.active["s"] += 1
            sim.max_active["s"] = max(sim.max_active["s"], sim.active["s"])
        try:
            r = sugg_fn(sim.sspec, document.text, document.cursor_position)
            sim.sug_log.append((document.text, document.cursor_position, r))
            return None if r is None else Suggestion(r)
        finally:
            with sim.lock:
                sim.active["s"] -= 1


class HApp(Application):
    """Application whose background tasks start only when the schedule says so."""

    def __init__(self):
        super().__init__(input=DummyInput(), output=DummyOutput())
        self.sim = None

    def create_background_task(self, coroutine):
        return self.sim.new_task(coroutine)


_APP = None


def get_happ():
    global _APP
    if _APP is None:
        _APP = HApp()
    return _APP


def closure_var(fn, name):
    idx = fn.__code__.co_freevars.index(name)
    return fn.__closure__[idx].cell_contents


def task_kind(coro):
    qn = coro.__qualname__
    if "async_completer" in qn:
        kw = {}
        try:
            kw = coro.cr_frame.f_locals.get("kw", {})
        except Exception:
            pass
        m = 1 if kw.get("select_first") else 2 if kw.get("select_last") else 3 if kw.get("insert_common_part") else 0
        return "c%d" % m
    if "async_validator" in qn:
        return "v"
    if "async_suggestor" in qn:
        return "s"
    return "?"


DEFAULT_CFG = {"cwt": 1, "hasV": 1, "vwt": 1, "hasS": 1, "maxN": 10000}


class Sim(Threads):
    """One real Buffer on a private event loop, with gated user code."""

    def __init__(self, case):
        self.thr = bool(case.get("thr"))
        self.lock = threading.Lock()
        self.overlap = None
        cfg = dict(DEFAULT_CFG, **case.get("cfg", {}))
        self.cfg = cfg
        self.spec = [tuple(x) for x in case["comp"]]
        self.vspec = tuple(case.get("valid", (1, 3, 0)))
        self.sspec = tuple(case.get("sugg", (0, 2, 0, "!")))
        self.natural = case.get("mode") == "natural"
        self.gates = {"c": Gate(), "v": Gate(), "s": Gate()}
        self.active = {"c": 0, "v": 0, "s": 0}
        self.max_active = {"c": 0, "v": 0, "s": 0}
        self.comp_log, self.val_log, self.sug_log = [], [], []
        self.hist_used = False
        self.pending = []   # (kind, coroutine or None)
        self.tasks = []
        self.task_err = None
        self.loop = asyncio.new_event_loop()
        self.app = get_happ()
        self.app.sim = self
        self._ctx = set_app(self.app)
        self._ctx.__enter__()
        self.init_threads()
        if self.thr:
            comp, val, sug = (ThreadedCompleter(GSyncCompleter(self)), ThreadedValidator(GSyncValidator(self)),
                              ThreadedAutoSuggest(GSyncSuggest(self)))
        else:
            comp, val, sug = GCompleter(self), GValidator(self), GSuggest(self)
        self.buf = Buffer(
            completer=comp,
            validator=val if cfg["hasV"] else None,
            auto_suggest=sug if cfg["hasS"] else None,
            complete_while_typing=bool(cfg["cwt"]),
            validate_while_typing=bool(cfg["vwt"]),
            max_number_of_completions=cfg["maxN"],
            document=Document(case["text"], min(case["cur"], len(case["text"]))),
        )

    # -- task plumbing
    def new_task(self, coro):
        kind = task_kind(coro)
        if self.natural:
            t = self.loop.create_task(coro)
            self.tasks.append((kind, t))
            self.pending.append((kind, None))
            return t
        self.pending.append((kind, coro))
        return None

    def quiesce(self):
        for _ in range(200):
            self.loop.run_until_complete(asyncio.sleep(0))
            if not self.loop._ready:
                break
        if self.natural:
            self.pending.clear()
        for _, t in self.tasks:
            if t.done() and not t.cancelled() and t.exception() is not None and self.task_err is None:
                self.task_err = type(t.exception()).__name__
        self.tasks = [(k, t) for k, t in self.tasks if not t.done()]

    # -- threaded sources
    def live_hand(self):
        """the hand-off of the completer coroutine that holds the `running` flag"""
        if not self.hands or not closure_var(self.buf._async_completer, "running"):
            return None
        h = self.hands[-1]
        return None if h.detached else h

    def live_job(self, kind):
        name = "run_validation_thread" if kind == "v" else "run_get_suggestion_thread"
        for j in reversed(self.jobs):
            if j.kind == name and not j.delivered and not getattr(j, "dead", False):
                return j
        return None

    def live_task(self, kind):
        for k, t in self.tasks:
            if k.startswith(kind) and not t.done():
                return t
        return None

    def close(self):
        try:
            for _, coro in self.pending:
                if coro is not None:
                    coro.close()
            self.stuck = self.close_threads() if self.jobs else []
            self.finish_tasks()
            self.loop.close()      # shuts the executor down without waiting: its threads are idle now
        finally:
            self._ctx.__exit__(None, None, None)
            self.app.sim = None

    # -- one protocol op on the real objects; returns "ok"/"err"
    def apply(self, op):
        b = self.buf
        k = op[0]
        self.task_err = None
        try:
            if k == "ins":
                b.insert_text(op[1])
            elif k == "delb":
                b.delete_before_cursor(op[1])
            elif k == "del":
                b.delete(op[1])
            elif k == "cur":
                b.cursor_position = op[1]
            elif k == "text":
                b.text = op[1]
            elif k == "next":
                b.complete_next(count=op[1], disable_wrap_around=bool(op[2]))
            elif k == "prev":
                b.complete_previous(count=op[1], disable_wrap_around=bool(op[2]))
            elif k == "cancel":
                b.cancel_completion()
            elif k == "startc":
                m = op[1]
                b.start_completion(select_first=(m == 1), select_last=(m == 2), insert_common_part=(m == 3))
            elif k == "tab":
                class _Ev:
                    current_buffer = b
                generate_completions(_Ev())
            elif k == "apply":
                b.apply_completion(Completion(op[1], op[2]))
            elif k == "vsync":
                b.validate()
            elif k == "reset":
                b.reset(Document(op[1], min(op[2], len(op[1]))))
            elif k == "hist":
                self.hist_used = True
                b.start_history_lines_completion()
            elif k == "ssel":
                b.start_selection()
            elif k == "xsel":
                b.exit_selection()
            elif k == "kill" and self.thr:
                t = self.live_task(op[1])
                waiting = False
                if op[1] == "c":
                    h = self.live_hand()
                    waiting = h is not None
                    if h is not None:
                        if h.killed or h.quitting:
                            h.detached = True      # second cancellation: the thread is left to itself
                        h.killed = True
                else:
                    j = self.live_job(op[1])
                    waiting = j is not None
                    if j is not None:
                        j.dead = True
                if t is not None and waiting:
                    t.cancel()
                    self.quiesce()
            elif k == "kill":
                if self.gates[op[1]].kill():
                    self.quiesce()
            elif k == "prun":
                h = self.live_hand()
                if h is not None:
                    h.release()
            elif k == "rel" and self.thr:
                if op[1] == "c":
                    h = self.live_hand()
                    if h is not None:
                        if h.quitting:
                            if h.job.finished.is_set():
                                self.run_job(h.job)
                                self.quiesce()
                        else:
                            g = h.getter
                            if g is not None and not g.delivered and (g.finished.is_set() or h.q.qsize() > 0):
                                self.run_job(g)
                                self.quiesce()
                else:
                    j = self.live_job(op[1])
                    if j is not None:
                        self.run_job(j)
                        self.quiesce()
            elif k == "killp":
                if op[1] < len(self.pending):
                    _, coro = self.pending.pop(op[1])
                    if coro is not None:
                        coro.close()
            elif k == "start":
                if not self.natural and op[1] < len(self.pending):
                    kind, coro = self.pending.pop(op[1])
                    self.tasks.append((kind, self.loop.create_task(coro)))
                    self.quiesce()
            elif k == "rel":
                if not self.natural and self.gates[op[1]].release():
                    self.quiesce()
            elif k == "drain":
                if self.natural:
                    self.quiesce()
                else:
                    while self.pending:
                        kind, coro = self.pending.pop(0)
                        self.tasks.append((kind, self.loop.create_task(coro)))
                        self.quiesce()
            elif k == "nrel":
                if self.natural:
                    self.gates[op[1]].release()
                    self.quiesce()
                else:
                    had = bool(self.gates[op[1]].waiters)
                    self.apply(["drain"])
                    if had:
                        self.apply(["rel", op[1]])
                        self.apply(["drain"])
            else:
                raise ValueError(op)
        except (IndexError, AssertionError, AttributeError, TypeError, KeyError) as e:
            self.last_exc = e
            return "err"
        if self.task_err:
            return "taskerr:" + self.task_err
        return "ok"

    def state_line(self, status):
        b = self.buf
        cs = b.complete_state
        if cs is None:
            css = "N"
        else:
            od = cs.original_document
            idx = "N" if cs.complete_index is None else str(cs.complete_index)
            css = "C %s %d %s %s" % (enc_str(od.text), od.cursor_position, idx,
                                     core.enc_list(cs.completions,
                                                   lambda c: "%s %d" % (enc_str(c.text), c.start_position)))
        vs = {ValidationState.UNKNOWN: "U", ValidationState.VALID: "V",
              ValidationState.INVALID: "I"}[b.validation_state]
        verr = "N" if b.validation_error is None else enc_str(b.validation_error.message)
        sg = "N" if b.suggestion is None else enc_str(b.suggestion.text)
        run = "".join("1" if closure_var(f, "running") else "0"
                      for f in (b._async_completer, b._async_validator, b._async_suggester))
        run += "1" if b.selection_state is not None else "0"
        pend = ",".join(k for k, _ in self.pending) or "-"
        w = []
        if self.thr:
            h = self.live_hand()
            if h is not None:
                d = h.document()
                if h.quitting:
                    stage = "zk" if h.killed else "z"
                else:
                    stage = h.stage()
                w.append("ct:%s:%d:%s:%s:%s:%d" % (enc_str(d.text), d.cursor_position, stage, h.pc(),
                                                   "-" if stage == "zk" else h.enc_q(), 1 if h.quitting else 0))
            for kind in "vs":
                j = self.live_job(kind)
                if j is not None:
                    d = j.cells()["document"].cell_contents
                    w.append("%s:%s:%d" % (kind, enc_str(d.text), d.cursor_position))
        for _, (t, c, i), _ in self.gates["c"].waiters:
            w.append("c:%s:%d:%d" % (enc_str(t), c, i))
        for _, (t, c), _ in self.gates["v"].waiters:
            w.append("v:%s:%d" % (enc_str(t), c))
        for _, (t, c), _ in self.gates["s"].waiters:
            w.append("s:%s:%d" % (enc_str(t), c))
        return "%s %s %d %s %s %s %s %s %s %s %s" % (status, enc_str(b.text), b.cursor_position, css, vs,
                                                     verr, sg, enc_str(shown_suggestion(b)), run, pend,
                                                     ",".join(w) or "-")


# ------------------------------------------------------------------ the hand-off alone (family "hand")
class HandSim(Threads):
    """generator_to_async_generator(iterable of n items, buffer_size=cap) read by a consumer that leaves
    the loop after `limit` items (the way ThreadedCompleter reads it: `async with aclosing(..)`)."""

    def __init__(self, case):
        self.n, self.cap, self.limit = case["n"], case["cap"], case["limit"]
        self.loop = asyncio.new_event_loop()
        self.init_threads()
        self.received = []
        self.task = None
        self.result = None
        self.stuck = []
        self.calls = 0
        self.left_calls = None

    def get_iterable(self):
        hand = self.hand_by_thread.get(threading.get_ident())
        hand.n = self.n
        for k in range(self.n):
            self.calls += 1
            hand.at_gate(k)
            item = ("item", k)
            hand.yielded.append(item)
            yield item
        self.calls += 1
        hand.at_gate(self.n)

    async def consumer(self):
        async with aclosing(generator_to_async_generator(self.get_iterable, buffer_size=self.cap)) as agen:
            try:
                async for x in agen:
                    self.received.append(x)
                    if len(self.received) >= self.limit:
                        break
            finally:
                # the client stops reading here (break, end of the stream, or cancellation)
                if self.left_calls is None:
                    self.left_calls = self.calls
        self.result = "finished"

    def quiesce(self):
        for _ in range(200):
            self.loop.run_until_complete(asyncio.sleep(0))
            if not self.loop._ready:
                break

    @property
    def hand(self):
        return self.hands[0] if self.hands else None

    def apply(self, op):
        k = op[0]
        h = self.hand
        if k == "hstart":
            if self.task is None:
                self.task = self.loop.create_task(self.consumer())
                self.quiesce()
                self.hand.settle()
        elif k == "hp":
            if h is not None:
                h.release()
        elif k == "htake":
            if h is not None and self.cons() in ("reading", "closingK"):
                g = h.getter
                if g is not None and not g.started and h.q.qsize() > 0:
                    g.started = True
                    g.start.set()
                    if not g.finished.wait(patience(WAIT)):
                        _HUNG[0] += 1
                        raise HarnessTimeout("q.get does not return")
                    h.settle()
        elif k == "hrel":
            if h is not None and self.task is not None and not self.task.done() and not h.quitting:
                g = h.getter
                if g is not None and not g.delivered and g.finished.is_set():
                    self.run_job(g)
                    self.quiesce()
                    h.settle()
        elif k == "hkill":
            if self.task is not None and not self.task.done():
                h.killed = True
                self.task.cancel()
                self.quiesce()
                h.settle()
        elif k == "hfin":
            if h is not None and self.task is not None and not self.task.done() and h.quitting \
                    and h.job.finished.is_set():
                self.run_job(h.job)
                self.quiesce()
        else:
            raise ValueError(op)

    def cons(self):
        if self.task is None:
            return "idle"
        if self.task.done():
            return "cancelled" if self.task.cancelled() else "finished"
        h = self.hand
        if h.quitting:
            return "closingK" if h.killed else "closing"
        return "reading"

    def state_line(self):
        h = self.hand
        if h is None:
            return "H idle w e 0 r 0"
        return "H %s %s %s %d %s %d" % (self.cons(), h.pc(), h.enc_q(), 1 if h.quitting else 0, h.stage(),
                                        len(self.received))

    def close(self, honest=False):
        """cancel the consumer (its `finally` sets `quitting`), release every gate and wait for the
        threads.  `honest`: do not help the producer by draining the queue (it then needs its real
        one-second timeouts when it waits for room) — the end-of-case liveness check."""
        try:
            if self.task is not None and not self.task.done():
                self.task.cancel()
                self.quiesce()
            self.stuck = self.close_threads(drain=not honest)
            self.finish_tasks()
        finally:
            self.loop.close()


def hand_model_lines(case):
    return ["hinit %d %d %d" % (case["n"], case["cap"], case["limit"])] + [op[0] for op in case["ops"]]


def hand_impl_lines(case):
    sim = HandSim(case)
    try:
        out = [sim.state_line()]
        for op in case["ops"]:
            sim.apply(op)
            out.append(sim.state_line())
        return out
    finally:
        sim.close()


def hand_oracle(case):
    """the hand-off part of the property on the real objects: the consumer receives a prefix of the
    iterable's items in order (all of them when it sees the end); the queue never exceeds buffer_size;
    an abandoned producer asks the iterable at most once more and returns; every thread ends"""
    v = []
    sim = HandSim(case)

    def bad(sig, msg):
        v.append({"signature": sig, "msg": msg})

    try:
        for n, op in enumerate(case["ops"]):
            sim.apply(op)
            where = "step %d %r" % (n, op)
            want = [("item", i) for i in range(len(sim.received))]
            if sim.received != want:
                bad("generator_to_async_generator | consumer does not see a prefix of the items in order",
                    "%s: received %r" % (where, sim.received))
            h = sim.hand
            if h is not None:
                if h.q.qsize() > sim.cap:
                    bad("generator_to_async_generator | queue larger than buffer_size",
                        "%s: %d queued" % (where, h.q.qsize()))
                if sim.left_calls is not None and sim.calls - sim.left_calls > 1:
                    bad("generator_to_async_generator | abandoned producer keeps computing",
                        "%s: %d next() calls after the consumer stopped reading" % (where, sim.calls - sim.left_calls))
            if sim.task is not None and sim.task.done() and not sim.task.cancelled():
                if sim.task.exception() is not None:
                    bad("generator_to_async_generator | consumer raises", "%s: %r" % (where, sim.task.exception()))
                elif h is not None and not h.job.finished.is_set():
                    bad("generator_to_async_generator | consumer finished before the producer thread",
                        "%s" % where)
                elif len(sim.received) < min(sim.limit, sim.n):
                    bad("generator_to_async_generator | stream ended early",
                        "%s: %d of %d items" % (where, len(sim.received), sim.n))
    except HarnessTimeout as e:
        bad("generator_to_async_generator | a thread does not make progress", str(e))
    finally:
        # the honest end-of-case check costs up to two real seconds when the producer waits for room
        # in a full queue while the consumer has not quit yet: only for the cases budgeted as slow
        h = sim.hand
        cheap = h is None or not h.job.started or h.job.finished.is_set() or h.q.qsize() < sim.cap
        sim.close(honest=cheap or bool(case.get("slow")))
    if sim.stuck:
        bad("generator_to_async_generator | producer thread does not terminate",
            "after the consumer was closed and every gate released: %r still running" % (sim.stuck,))
    if sim.left_calls is not None and sim.calls - sim.left_calls > 1:
        bad("generator_to_async_generator | abandoned producer keeps computing",
            "%d next() calls after the consumer stopped reading" % (sim.calls - sim.left_calls))
    seen, out = set(), []
    for x in v:
        if x["signature"] not in seen:
            seen.add(x["signature"])
            out.append(x)
    return out


# ------------------------------------------------------------------ AutoSuggestFromHistory (family "sugg")
def sugg_model_lines(case):
    return ["hsugg %d %s %s" % (len(case["hist"]), " ".join(enc_str(h) for h in case["hist"]),
                                enc_str(case["text"]))] if case["hist"] else \
           ["hsugg 0 %s" % enc_str(case["text"])]


def _hist_buffer(hist):
    h = InMemoryHistory()
    for e in hist:
        h.append_string(e)
    return Buffer(history=h)


def sugg_impl_lines(case):
    r = AutoSuggestFromHistory().get_suggestion(_hist_buffer(case["hist"]), Document(case["text"]))
    return ["N" if r is None else enc_str(r.text)]


def sugg_oracle(case):
    """what is suggested continues the last line of the text to a line of a history entry — the most recent
    such entry, its last such line; nothing is suggested only if the last line is blank or no line matches"""
    v = []
    hist, text = case["hist"], case["text"]
    r = AutoSuggestFromHistory().get_suggestion(_hist_buffer(hist), Document(text))
    last = text.rsplit("\n", 1)[-1]
    matches = [(i, j, line) for i, e in enumerate(hist) for j, line in enumerate(e.splitlines())
               if line.startswith(last)]
    if r is None:
        if last.strip() and matches:
            v.append({"signature": "AutoSuggestFromHistory | no suggestion although a history line continues the text",
                      "msg": "text %r history %r" % (text, hist)})
    else:
        if not last.strip():
            v.append({"signature": "AutoSuggestFromHistory | suggestion for a blank line", "msg": "%r" % (text,)})
        elif not matches or last + r.text != max(matches)[2]:
            v.append({"signature": "AutoSuggestFromHistory | suggestion does not continue the text to the most "
                                   "recent matching history line",
                      "msg": "text %r history %r suggestion %r" % (text, hist, r.text)})
    return v


def sugg_cases(tier, rng):
    alpha = ["a", "b", " ", "\n"]
    import itertools
    out = []
    maxlen = 3 if tier == "quick" else 4
    words = ["".join(t) for n in range(maxlen + 1) for t in itertools.product(alpha, repeat=n)]
    texts = [w for w in words if len(w) <= 3]
    entries = ["", "a", "ab", "a\nab", "ab\na", "b a", " a", "ab\n", "\nab", "a\n\nb"]
    for t in texts:
        for h1 in entries:
            out.append({"fam": "sugg", "hist": [h1], "text": t})
            for h2 in ("ab", "a\nab", "b"):
                out.append({"fam": "sugg", "hist": [h1, h2], "text": t})
    for _ in range(300 if tier == "quick" else 5000):
        hist = ["".join(rng.choice(alpha + ["a", "b"]) for _ in range(rng.randrange(0, 7))) for _ in range(rng.randrange(0, 4))]
        text = "".join(rng.choice(alpha + ["a", "b"]) for _ in range(rng.randrange(0, 6)))
        out.append({"fam": "sugg", "hist": hist, "text": text})
    return out


# ------------------------------------------------------------------ protocol lines
# the model's `fixD1` switch: 1 = the repaired async_completer (commit 279c220), which is what
# /repo contains; the unrepaired variant stays in the model for the counterexample theorem
FIX_D1 = 1


def _default_buffer_size():
    """`buffer_size` ThreadedCompleter ends up with: the default of generator_to_async_generator"""
    import inspect
    try:
        return int(inspect.signature(generator_to_async_generator).parameters["buffer_size"].default)
    except Exception:
        return 1000


QCAP = _default_buffer_size()


def init_line(case) -> str:
    cfg = dict(DEFAULT_CFG, **case.get("cfg", {}))
    v = case.get("valid", (1, 3, 0))
    s = case.get("sugg", (0, 2, 0, "!"))
    parts = ["init", cfg["cwt"], cfg["hasV"], cfg["vwt"], cfg["hasS"], cfg["maxN"], FIX_D1,
             1 if case.get("thr") else 0, 0,      # 0: the driver takes Gen.C15.bufferSize (regenerated)
             v[0], v[1], v[2], s[0], s[1], s[2], enc_str(s[3]),
             enc_str(case["text"]), case["cur"], len(case["comp"])]
    for back, echo, lit in case["comp"]:
        parts += [back, 1 if echo else 0, enc_str(lit)]
    return " ".join(str(p) for p in parts)


def op_line(op) -> str:
    k = op[0]
    if k in ("ins", "text"):
        return "%s %s" % (k, enc_str(op[1]))
    if k == "apply":
        return "apply %s %d" % (enc_str(op[1]), op[2])
    if k == "reset":
        return "reset %s %d" % (enc_str(op[1]), op[2])
    return " ".join(str(x) for x in op)


def parse_op(s: str):
    """inverse of op_line for the paths printed by the driver's `enum`"""
    t = s.split(" ")
    k = t[0]
    if k in ("ins", "text"):
        return [k, core.dec_str(t[1])]
    if k in ("delb", "del", "cur", "startc", "start", "killp"):
        return [k, int(t[1])]
    if k in ("next", "prev"):
        return [k, int(t[1]), int(t[2])]
    if k in ("rel", "nrel", "kill"):
        return [k, t[1]]
    if k == "#slow":
        return None
    if k == "apply":
        return [k, core.dec_str(t[1]), int(t[2])]
    if k == "reset":
        return [k, core.dec_str(t[1]), int(t[2])]
    return [k]


def model_lines(case):
    if case.get("fam") == "hand":
        return hand_model_lines(case)
    if case.get("fam") == "sugg":
        return sugg_model_lines(case)
    return [init_line(case)] + [op_line(op) for op in case["ops"]]


def impl_lines(case):
    if case.get("fam") == "hand":
        return hand_impl_lines(case)
    if case.get("fam") == "sugg":
        return sugg_impl_lines(case)
    with warnings.catch_warnings():
        warnings.simplefilter("ignore")
        sim = Sim(case)
        try:
            out = [sim.state_line("ok")]
            for op in case["ops"]:
                st = sim.apply(op)
                out.append(sim.state_line(st))
            return out
        finally:
            sim.close()


# ------------------------------------------------------------------ oracle
DANGLING = "async_completer | single no-op completion dropped while selected (complete_index dangles)"


def expected_apply(otext, ocur, ctext, cstart):
    before, after = otext[:ocur], otext[ocur:]
    k = -cstart
    nb = before[:max(0, len(before) - k)]
    return nb + ctext + after, len(nb) + len(ctext)


def hist_expected(text, cur):
    """what start_history_lines_completion must offer for Document(text, cur) with an empty history:
    the distinct stripped non-empty lines that start with the (left-stripped) current line"""
    cl = text[:cur].rpartition("\n")[2].lstrip()
    out = []
    for line in text.split("\n"):
        line = line.strip()
        if line and line.startswith(cl) and (line, -len(cl)) not in out:
            out.append((line, -len(cl)))
    return out[::-1]


def check_state(sim, v, where):
    """the state part of C15, on the real objects"""
    b = sim.buf

    def bad(sig, msg):
        v.append({"signature": sig, "msg": "%s after %s: text=%r cur=%d cs=%r vs=%s sugg=%r" % (
            msg, where, b.text, b.cursor_position, b.complete_state, b.validation_state, b.suggestion)})

    cs = b.complete_state
    if not (0 <= b.cursor_position <= len(b.text)):
        bad("Buffer | cursor out of range", "cursor outside the text")
    if cs is not None:
        od = cs.original_document
        comps = [(c.text, c.start_position) for c in cs.completions]
        if cs.complete_index is not None and not (0 <= cs.complete_index < len(comps)):
            bad(DANGLING, "complete_index points at no completion")
        else:
            if cs.complete_index is None:
                et, ec = od.text, od.cursor_position
            else:
                et, ec = expected_apply(od.text, od.cursor_position, *comps[cs.complete_index])
            if (b.text, b.cursor_position) != (et, ec):
                bad("Buffer.complete_state | text is not original + selected completion",
                    "menu shown for a text it does not describe (expected %r,%d)" % (et, ec))
        # provenance: computed by the completer for the original document
        full = comp_fn(sim.spec, od.text, od.cursor_position)
        ok = comps == full[:len(comps)]
        wrong_meaning = None
        if not ok:
            for (dt, dc, items) in sim.comp_log:
                if len(od.text) > len(dt) and len(comps) <= len(items):
                    cp = od.text[dc:dc + len(od.text) - len(dt)]
                    if (cp and od.text == dt[:dc] + cp + dt[dc:] and od.cursor_position == dc + len(cp)
                            and comps == [(t[len(cp) - s:], 0) for t, s in items[:len(comps)]]):
                        # the shortened completions must still mean what the completer computed: applied
                        # to the new document they give the text the original ones gave on the old one
                        same = all(expected_apply(od.text, od.cursor_position, nt, ns) == expected_apply(dt, dc, t0, s0)
                                   for (nt, ns), (t0, s0) in zip(comps, items))
                        if same:
                            ok = True
                        else:
                            wrong_meaning = (cp, dt, dc, items[:len(comps)])
        if not ok and sim.hist_used:
            ok = comps == hist_expected(od.text, od.cursor_position)
        if not ok and wrong_meaning is not None:
            ok = True      # reported under its own signature
            cp, dt, dc, items = wrong_meaning
            bad("insert_common_part | a completion no longer gives the text the completer computed",
                "after inserting the common part %r the completions %r of %r were replaced by %r, which give %r "
                "instead of %r" % (cp, items, (dt, dc), comps,
                                   [expected_apply(od.text, od.cursor_position, t, s)[0] for t, s in comps],
                                   [expected_apply(dt, dc, t, s)[0] for t, s in items]))
        if not ok:
            bad("Buffer.complete_state | completions not computed for the original document",
                "completion list is stale (completer gives %r for the original document)" % (full,))
    if b.validation_state != ValidationState.UNKNOWN:
        want = None if b.validation_state == ValidationState.VALID else (
            b.validation_error.message if b.validation_error is not None else "<no error object>")
        if sim.cfg["hasV"]:
            if not any(t == b.text and m == want for (t, c, m) in sim.val_log):
                bad("Buffer.validation_state | verdict not computed for the current text",
                    "stale validation verdict %r" % (want,))
        if (b.validation_state == ValidationState.VALID) != (b.validation_error is None):
            bad("Buffer.validation_state | state and error disagree", "validation_state vs validation_error")
    if b.suggestion is not None:
        if not any(t == b.text and r == b.suggestion.text for (t, c, r) in sim.sug_log):
            bad("Buffer.suggestion | suggestion not computed for the current text", "stale suggestion")
    shown = shown_suggestion(b)
    if shown and (b.cursor_position != len(b.text)
                  or not any(t == b.text and r == shown for (t, c, r) in sim.sug_log)):
        bad("AppendAutoSuggestion | draws a suggestion that does not continue the current text",
            "%r drawn behind %r (cursor %d)" % (shown, b.text, b.cursor_position))
    for kind, name in (("c", "completer"), ("v", "validator"), ("s", "suggester")):
        if sim.thr:
            # threads inside the user's code; a completer thread whose consumer has quit (it finishes
            # its current item and returns) and jobs of cancelled coroutines do not count
            if kind == "c":
                runs = [h for h in sim.hands if h.inside and not h.detached]
                if sim.overlap is not None or len(runs) > 1:
                    docs = sim.overlap or [(h.document().text, h.document().cursor_position) for h in runs]
                    bad("ThreadedCompleter | two completer runs at the same time",
                        "calls of get_completions for %r are active at the same time" % (docs,))
                n = 0
            else:
                n = 1 if sim.live_job(kind) is not None else 0
                n = max(n, sum(1 for j in sim.jobs
                               if j.kind == ("run_validation_thread" if kind == "v" else "run_get_suggestion_thread")
                               and not j.delivered and not getattr(j, "dead", False)))
            if n > 1:
                bad("_only_one_at_a_time | two %ss active" % name, "more than one %s running" % name)
        elif sim.active[kind] > 1 or sim.max_active[kind] > 1 or len(sim.gates[kind].waiters) > 1:
            bad("_only_one_at_a_time | two %ss active" % name,
                "more than one %s running (a call started before the previous one had ended)" % name)
    if sim.thr:
        for h in sim.hands:
            calls = h.pos + 1
            if h.quitting and h.calls_at_quit is None:
                h.calls_at_quit = calls
            if h.calls_at_quit is not None and calls - h.calls_at_quit > 1:
                bad("generator_to_async_generator | abandoned producer keeps computing",
                    "%d next() calls after the consumer quit" % (calls - h.calls_at_quit))
            if h.q.qsize() > QCAP:
                bad("generator_to_async_generator | queue larger than buffer_size", "%d queued" % h.q.qsize())


def oracle(case):
    if case.get("fam") == "hand":
        return hand_oracle(case)
    if case.get("fam") == "sugg":
        return sugg_oracle(case)
    v = []
    with warnings.catch_warnings():
        warnings.simplefilter("ignore")
        sim = Sim(case)
        try:
            b = sim.buf
            check_state(sim, v, "init")
            for n, op in enumerate(case["ops"]):
                cs0 = b.complete_state
                pre = None
                if cs0 is not None:
                    pre = (cs0.original_document.text, cs0.original_document.cursor_position,
                           cs0.complete_index, len(cs0.completions))
                dangling = pre is not None and pre[2] is not None and pre[2] >= pre[3]
                st = sim.apply(op)
                where = "step %d %r" % (n, op)
                k = op[0]
                if st == "err":
                    if dangling:
                        v.append({"signature": DANGLING, "msg": "%s raised %r" % (where, sim.last_exc)})
                    elif k in ("next", "prev", "cancel", "tab", "ins", "delb", "del", "cur", "text", "startc",
                               "vsync", "reset", "apply", "hist", "ssel", "xsel"):
                        v.append({"signature": "Buffer.%s | raises" % k,
                                  "msg": "%s raised %r" % (where, sim.last_exc)})
                elif st.startswith("taskerr"):
                    v.append({"signature": "background task | raises", "msg": "%s: %s" % (where, st)})
                cs1 = b.complete_state
                if st == "ok" and pre is not None and not dangling:
                    ot, oc, i0, n0 = pre
                    if k in ("next", "prev") and not op[2]:
                        cnt = op[1]
                        if n0 == 0:
                            exp = i0
                        elif k == "next":
                            exp = 0 if i0 is None else (None if i0 == n0 - 1 else min(n0 - 1, i0 + cnt))
                        else:
                            exp = n0 - 1 if i0 is None else (None if i0 == 0 else max(0, i0 - cnt))
                        if cs1 is not cs0 or cs1.complete_index != exp:
                            v.append({"signature": "Buffer.complete_%s | wrong index" % (
                                "next" if k == "next" else "previous"),
                                "msg": "%s: index %r -> %r of %d, expected %r" % (
                                    where, i0, None if cs1 is None else cs1.complete_index, n0, exp)})
                    if k == "cancel":
                        if cs1 is not None or (b.text, b.cursor_position) != (ot, oc):
                            v.append({"signature": "Buffer.cancel_completion | original not restored",
                                      "msg": "%s: text=%r cur=%d, original %r,%d" % (
                                          where, b.text, b.cursor_position, ot, oc)})
                check_state(sim, v, where)
        except HarnessTimeout as e:
            v.append({"signature": "threaded source | a thread or the coroutine waiting for it does not make progress",
                      "msg": str(e)})
        finally:
            sim.close()
    if getattr(sim, "stuck", None):
        v.append({"signature": "generator_to_async_generator | producer thread does not terminate",
                  "msg": "after every gate was released: %r still running" % (sim.stuck,)})
    seen, out = set(), []
    for x in v:
        if x["signature"] not in seen:
            seen.add(x["signature"])
            out.append(x)
    return out


# ------------------------------------------------------------------ generators
# scripted completers: (back, echo, lit) -> Completion(text=last `back` chars (if echo) + lit, -back)
COMPS = {
    "empty": [],
    "noop1": [[2, True, ""]],                       # single completion that changes nothing
    "ext2": [[1, True, "xy"], [1, True, "xz"]],     # common part "x", then y / z
    "chg3": [[1, False, "Q"], [2, False, "RS"], [1, False, ""]],   # change text before the cursor
    "one": [[1, True, "ab"]],                       # single completion with a common part
    "dup3": [[0, False, "x"], [0, False, "xy"], [0, False, "x"]],
    "single_chg": [[1, False, "Z"]],                # no common part, exactly one match
    "noop_then": [[1, True, ""], [0, False, "k"]],
    "mixed": [[1, True, "xy"], [1, False, "Q"], [1, True, "xz"]],   # one completion rewrites the text before the cursor
    "far": [[3, False, "Z"], [3, True, "k"], [5, False, ""]],       # -start_position reaches back beyond the text start
}

A_USER = ["ins_s:97", "delb_1", "cur_-1", "next_1_0", "prev_1_0", "cancel"]
A_SCHED_C = ["start_0", "rel_c"]


def enum_configs(tier):
    """(case skeleton, alphabet, depth quick, depth thorough)"""
    off = {"cwt": 0, "hasV": 0, "vwt": 0, "hasS": 0}
    out = []
    # identity of the CompletionState object: a foreign menu appears while a stream is loading
    for name, mode in (("one", 3), ("ext2", 3), ("ext2", 2), ("chg3", 1)):
        out.append(({"cfg": dict(off), "comp": COMPS[name], "text": "a", "cur": 1},
                    ["ins_s:97", "hist", "prev_1_0", "startc_%d" % mode, "start_0", "rel_c"], 9, 11))
    # completer only, explicit start in each mode
    for name, mode, dq, dt in (("ext2", 0, 5, 7), ("ext2", 3, 6, 8), ("noop1", 0, 5, 7), ("chg3", 1, 5, 7),
                               ("chg3", 2, 5, 7), ("single_chg", 3, 6, 8), ("one", 3, 6, 8),
                               ("dup3", 3, 6, 8), ("noop_then", 0, 5, 7), ("empty", 0, 5, 7),
                               ("mixed", 3, 6, 8), ("far", 1, 5, 7)):
        out.append(({"cfg": dict(off), "comp": COMPS[name], "text": "ab", "cur": 2},
                    A_USER + ["startc_%d" % mode, "tab"] + A_SCHED_C, dq, dt))
    # complete while typing (tasks created by insert_text), two pending tasks compete
    out.append(({"cfg": dict(off, cwt=1), "comp": COMPS["ext2"], "text": "a", "cur": 1},
                A_USER + ["tab", "start_0", "start_1", "rel_c"], 6, 7))
    # validator only
    out.append(({"cfg": dict(off, hasV=1, vwt=1), "comp": [], "text": "ab", "cur": 2, "valid": [1, 3, 0]},
                ["ins_s:97", "delb_1", "cur_-1", "cur_+1", "vsync", "ssel", "xsel", "start_0", "start_1", "rel_v"], 6, 8))
    # suggester only
    out.append(({"cfg": dict(off, hasS=1), "comp": [], "text": "ab", "cur": 2, "sugg": [1, 3, 0, "!"]},
                ["ins_s:97", "delb_1", "cur_-1", "cur_+1", "ssel", "xsel", "start_0", "start_1", "rel_s"], 6, 8))
    # everything at once
    out.append(({"cfg": dict(DEFAULT_CFG), "comp": COMPS["ext2"], "text": "a", "cur": 1},
                ["ins_s:97", "delb_1", "cur_-1", "next_1_0", "cancel", "tab", "start_0", "rel_c", "rel_v",
                 "rel_s"], 5, 7))
    # a foreign menu (start_history_lines_completion) while the completer loads: identity check
    out.append(({"cfg": dict(off), "comp": COMPS["ext2"], "text": "ab\na", "cur": 4},
                ["ins_s:97", "cur_-1", "prev_1_0", "cancel", "hist", "startc_3", "startc_1", "start_0", "rel_c"],
                6, 8))
    # task cancellation
    out.append(({"cfg": dict(DEFAULT_CFG), "comp": COMPS["ext2"], "text": "a", "cur": 1},
                ["ins_s:97", "next_1_0", "tab", "start_0", "rel_c", "rel_v", "kill_c", "kill_v", "kill_s",
                 "killp_0"], 5, 7))
    # small max_number_of_completions
    out.append(({"cfg": dict(off, maxN=2), "comp": COMPS["chg3"], "text": "ab", "cur": 2},
                A_USER + ["startc_3", "startc_1"] + A_SCHED_C, 5, 7))
    return out


def enum_paths(skel, alphabet, depth, max_states=400000, prefix=()):
    exe = os.path.join(core.LEAN, ".lake", "build", "bin", DRIVER)
    if not os.path.exists(exe):
        return []
    pre = "".join(op_line(o) + "\n" for o in prefix)
    inp = init_line(dict(skel, ops=[])) + "\n" + pre + "enum %d %d %s\n" % (depth, max_states, " ".join(alphabet))
    r = subprocess.run([exe], input=inp, capture_output=True, text=True, timeout=1800)
    lines = r.stdout.split("\n")
    k = 1 + len(prefix)
    if r.returncode != 0 or len(lines) < k + 1 or not lines[k].startswith("paths "):
        return []
    parts = lines[k].split(" | ")[1:]
    return [list(prefix) + [parse_op(o) for o in p.split(";")] for p in parts if p]


# ------------------------------------------------------------------ threaded families
A_THR_C = ["ins_s:97", "delb_1", "next_1_0", "cancel", "start_0", "prun", "rel_c", "kill_c"]


def thr_configs(tier):
    """(case skeleton, prefix ops, alphabet, depth quick, depth thorough) with ThreadedCompleter /
    ThreadedValidator / ThreadedAutoSuggest around synchronous gated user code.  The enumeration starts
    after the prefix (completion requested, coroutine started, producer thread at its first item)."""
    off = {"cwt": 0, "hasV": 0, "vwt": 0, "hasS": 0}
    out = []
    small = ["ins_s:97", "next_1_0", "start_0", "prun", "rel_c", "kill_c"]
    for name, mode, alpha, dq, dt in (("ext2", 3, A_THR_C, 6, 8), ("ext2", 0, A_THR_C, 5, 8),
                                      ("noop1", 0, small, 5, 7), ("chg3", 1, small, 5, 7), ("one", 3, small, 5, 7),
                                      ("empty", 0, small, 4, 7), ("chg3", 2, small, 5, 7)):
        out.append(({"thr": 1, "cfg": dict(off), "comp": COMPS[name], "text": "ab", "cur": 2},
                    [["startc", mode], ["start", 0], ["prun"]], alpha + ["startc_%d" % mode], dq, dt))
    # the limit is reached while the thread still produces
    out.append(({"thr": 1, "cfg": dict(off, maxN=2), "comp": COMPS["chg3"], "text": "ab", "cur": 2},
                [["startc", 0], ["start", 0], ["prun"]], small + ["tab"], 5, 7))
    # complete while typing: a second coroutine is created while the first waits for its thread
    out.append(({"thr": 1, "cfg": dict(off, cwt=1), "comp": COMPS["ext2"], "text": "a", "cur": 1},
                [], ["ins_s:97", "delb_1", "tab", "start_0", "start_1", "prun", "rel_c", "kill_c"], 5, 8))
    # threaded validator and suggester
    out.append(({"thr": 1, "cfg": dict(off, hasV=1, vwt=1, hasS=1), "comp": [], "text": "ab", "cur": 2,
                 "valid": [1, 3, 0], "sugg": [1, 3, 0, "!"]},
                [], ["ins_s:97", "delb_1", "ssel", "vsync", "start_0", "start_1", "rel_v", "rel_s", "kill_v",
                     "kill_s"], 5, 7))
    # everything threaded at once
    out.append(({"thr": 1, "cfg": dict(DEFAULT_CFG), "comp": COMPS["ext2"], "text": "a", "cur": 1},
                [], ["ins_s:97", "delb_1", "next_1_0", "tab", "start_0", "prun", "rel_c", "rel_v", "rel_s"], 5, 7))
    return out


HAND_ALPHA = ["hstart", "hp", "htake", "hrel", "hkill", "hfin"]


def hand_paths(n, cap, limit, depth=16, max_states=400000):
    """every edge of the reachable (macro-step) state graph of the stand-alone hand-off; the flag tells
    whether the path goes through real one-second `Full` timeouts"""
    exe = os.path.join(core.LEAN, ".lake", "build", "bin", DRIVER)
    if not os.path.exists(exe):
        return []
    inp = "hinit %d %d %d\nenum %d %d %s\n" % (n, cap, limit, depth, max_states, " ".join(HAND_ALPHA))
    r = subprocess.run([exe], input=inp, capture_output=True, text=True, timeout=1800)
    lines = r.stdout.split("\n")
    if r.returncode != 0 or len(lines) < 2 or not lines[1].startswith("paths "):
        return []
    out = []
    for p in lines[1].split(" | ")[1:]:
        if p:
            ops = p.split(";")
            out.append(([[o] for o in ops if o != "#slow"], "#slow" in ops))
    return out


def hand_cases(tier):
    fast, slow = [], []
    ns = (0, 1, 2, 3) if tier == "quick" else (0, 1, 2, 3, 4)
    caps = (1, 2) if tier == "quick" else (1, 2, 3)
    for n in ns:
        for cap in caps:
            for limit in (1, 2, 3, 99):
                if limit != 99 and limit > max(n, 1):
                    continue
                for ops, is_slow in hand_paths(n, cap, limit):
                    c = {"fam": "hand", "n": n, "cap": cap, "limit": limit, "ops": ops}
                    if is_slow:
                        c["slow"] = 1
                    (slow if is_slow else fast).append(c)
    want = 6 if tier == "quick" else 100
    if len(slow) > want:
        step = len(slow) / float(want)
        slow = [slow[int(i * step)] for i in range(want)]
    return fast, slow


def rand_thr_case(rng):
    cfg = {"cwt": rng.randrange(2), "hasV": rng.randrange(2), "vwt": rng.randrange(2), "hasS": rng.randrange(2),
           "maxN": rng.choice([1, 2, 3, 10000, 10000, 10000])}
    text = "".join(rng.choice(RA) for _ in range(rng.choice([0, 1, 2, 3])))
    cur = rng.choice([len(text), len(text), rng.randrange(0, len(text) + 1)])
    case = {"thr": 1, "cfg": cfg, "comp": rand_spec(rng), "text": text, "cur": cur,
            "valid": [rng.randrange(2), rng.choice([1, 2, 3]), 0],
            "sugg": [rng.randrange(2), rng.choice([1, 2, 3]), rng.randrange(2), rng.choice(["", "!", "zz"])],
            "mode": "deferred"}
    ops = []
    for _ in range(rng.choice([4, 8, 12, 20, 30])):
        r = rng.random()
        if r < 0.55:
            ops.append(rng.choice([["start", 0], ["start", 0], ["start", rng.randrange(3)], ["prun"], ["prun"],
                                   ["prun"], ["rel", "c"], ["rel", "c"], ["rel", "c"], ["rel", "v"], ["rel", "s"],
                                   ["kill", rng.choice("cvs")], ["killp", rng.randrange(2)]]))
        elif r < 0.68:
            ops.append(["ins", "".join(rng.choice(RA) for _ in range(rng.choice([0, 1, 1, 2])))])
        elif r < 0.74:
            ops.append(rng.choice([["delb", rng.randrange(3)], ["del", rng.randrange(3)]]))
        elif r < 0.78:
            ops.append(["cur", rng.randrange(-1, 6)])
        elif r < 0.84:
            ops.append(rng.choice([["next", rng.choice([1, 1, 2, 5]), 0], ["prev", rng.choice([1, 1, 2, 5]), 0]]))
        elif r < 0.87:
            ops.append(["cancel"])
        elif r < 0.94:
            ops.append(["startc", rng.randrange(4)])
        elif r < 0.96:
            ops.append(["tab"])
        elif r < 0.97:
            ops.append(["hist"])
        elif r < 0.975:
            ops.append(["vsync"])
        elif r < 0.985:
            ops.append(rng.choice([["ssel"], ["ssel"], ["xsel"]]))
        elif r < 0.99:
            ops.append(["text", "".join(rng.choice(RA) for _ in range(rng.randrange(4)))])
        else:
            t = "".join(rng.choice(RA) for _ in range(rng.randrange(3)))
            ops.append(["reset", t, rng.randrange(len(t) + 1)])
    case["ops"] = ops
    return case


def rand_hand_case(rng):
    n = rng.choice([0, 1, 2, 3, 4, 5, 6])
    cap = rng.choice([1, 2, 3, 4, 1000])
    limit = rng.choice([1, 2, 3, 99, 99])
    ops = [["hstart"]] if rng.random() < 0.8 else []
    for _ in range(rng.choice([4, 8, 12, 20])):
        ops.append([rng.choice(["hp", "hp", "hp", "htake", "htake", "hrel", "hrel", "hfin", "hstart", "hkill"]
                               if rng.random() < 0.9 else ["hkill"])])
    # keep clear of the expensive corner (a producer waiting for room when the consumer quits) unless asked
    return {"fam": "hand", "n": n, "cap": cap, "limit": limit, "ops": ops}


# ------------------------------------------------------------------ hand-written stress schedules
def stress_cases():
    """The schedules stored in corpus/C15/stress.json (regenerate with
    `/venv/bin/python -c "import sys; sys.path.insert(0, 'harness'); import c15; c15.write_corpus()"`):
    orphaned streams, foreign menus (identity check), ABA edits around the validator / suggester
    awaits, cancellation."""
    off = {"cwt": 0, "hasV": 0, "vwt": 0, "hasS": 0}
    out = []
    for spec in ("ext2", "one", "noop1", "chg3", "dup3"):
        for mode in range(4):
            for j in range(3):
                for edit in ([["ins", "a"]], [["delb", 1]], [["cur", 0], ["cur", 1]],
                             [["ins", "a"], ["delb", 1]], []):
                    for foreign in ([["hist"]], []):
                        for nav in ([], [["prev", 1, 0]], [["next", 1, 0]], [["cancel"]]):
                            ops = ([["startc", mode], ["start", 0]] + [["rel", "c"]] * j + edit + foreign + nav
                                   + [["rel", "c"]] * 4
                                   + [["tab"], ["start", 0], ["rel", "c"], ["rel", "c"], ["rel", "c"]])
                            out.append({"cfg": dict(off), "comp": COMPS[spec], "text": "a", "cur": 1,
                                        "mode": "deferred", "ops": ops})
    for edit in ([["ins", "a"]], [["ins", "a"], ["delb", 1]], [["cur", 0]], [["cur", 0], ["cur", 2]],
                 [["reset", "ab", 2]], [["vsync"]], [["text", "ba"]], [["kill", "v"], ["ins", "b"]],
                 [["kill", "s"], ["ins", "b"]]):
        for natural in (False, True):
            if natural and any(o[0] == "kill" for o in edit):
                continue
            ops = [["ins", "b"]] + ([["drain"]] if natural else [["start", 0], ["start", 0], ["start", 0]]) + edit
            if natural:
                ops += [["nrel", "v"], ["nrel", "s"], ["nrel", "v"], ["nrel", "s"], ["drain"]]
            else:
                ops += [["rel", "v"], ["rel", "s"], ["drain"], ["rel", "v"], ["rel", "s"]]
            for post in ([], [["delb", 1]], [["cur", 0]], [["text", "zz"]], [["ins", "c"]]):
                ops2 = ops + post
                if post:
                    ops2 = ops2 + ([["nrel", "v"], ["nrel", "s"]] if natural else
                                   [["drain"], ["rel", "v"], ["rel", "s"]])
                out.append({"cfg": dict(DEFAULT_CFG), "comp": COMPS["ext2"], "text": "a", "cur": 1,
                            "valid": [1, 2, 0], "sugg": [1, 2, 1, "!"],
                            "mode": "natural" if natural else "deferred", "ops": ops2})
    return out


def write_corpus():
    import json
    path = os.path.join(core.ROOT, "corpus", ID, "stress.json")
    os.makedirs(os.path.dirname(path), exist_ok=True)
    with open(path, "w") as f:
        json.dump({"note": stress_cases.__doc__, "cases": stress_cases()}, f)
    return path


RA = ["a", "b", "x", " ", "a", "b", "\n"]


def rand_spec(rng):
    if rng.random() < 0.5:
        return [list(x) for x in rng.choice(list(COMPS.values()))]
    n = rng.choice([0, 1, 1, 2, 2, 3, 4])
    return [[rng.choice([0, 0, 1, 1, 2, 3]), rng.random() < 0.6,
             "".join(rng.choice("xyzk") for _ in range(rng.choice([0, 1, 1, 2])))] for _ in range(n)]


def rand_case(rng, natural):
    cfg = {"cwt": rng.randrange(2), "hasV": rng.randrange(2), "vwt": rng.randrange(2), "hasS": rng.randrange(2),
           "maxN": rng.choice([1, 2, 3, 10000, 10000, 10000])}
    text = "".join(rng.choice(RA) for _ in range(rng.choice([0, 1, 2, 3, 5])))
    cur = rng.choice([len(text), len(text), rng.randrange(0, len(text) + 1)])
    case = {"cfg": cfg, "comp": rand_spec(rng), "text": text, "cur": cur,
            "valid": [rng.randrange(2), rng.choice([1, 2, 3]), 0],
            "sugg": [rng.randrange(2), rng.choice([1, 2, 3]), rng.randrange(2), rng.choice(["", "!", "zz"])],
            "mode": "natural" if natural else "deferred"}
    ops = []
    n = rng.choice([3, 6, 10, 16, 25, 40])
    for _ in range(n):
        r = rng.random()
        if r < 0.40:
            if natural:
                ops.append(rng.choice([["nrel", "c"], ["nrel", "c"], ["nrel", "v"], ["nrel", "s"], ["drain"]]))
            else:
                ops.append(rng.choice([["start", 0], ["start", 0], ["start", rng.randrange(3)], ["rel", "c"],
                                       ["rel", "c"], ["rel", "c"], ["rel", "v"], ["rel", "v"], ["rel", "s"],
                                       ["rel", "s"], ["drain"], ["nrel", "c"],
                                       ["kill", rng.choice("cvs")], ["killp", rng.randrange(2)]]))
        elif r < 0.55:
            ops.append(["ins", "".join(rng.choice(RA) for _ in range(rng.choice([0, 1, 1, 2])))])
        elif r < 0.62:
            ops.append(rng.choice([["delb", rng.randrange(3)], ["del", rng.randrange(3)]]))
        elif r < 0.68:
            ops.append(["cur", rng.randrange(-1, 8)])
        elif r < 0.76:
            ops.append(["next", rng.choice([1, 1, 1, 2, 5]), int(rng.random() < 0.2)])
        elif r < 0.82:
            ops.append(["prev", rng.choice([1, 1, 1, 2, 5]), int(rng.random() < 0.2)])
        elif r < 0.86:
            ops.append(["cancel"])
        elif r < 0.92:
            ops.append(["startc", rng.randrange(4)])
        elif r < 0.94:
            ops.append(["tab"])
        elif r < 0.95:
            ops.append(["hist"])
        elif r < 0.955:
            ops.append(["vsync"])
        elif r < 0.965:
            ops.append(rng.choice([["ssel"], ["ssel"], ["xsel"]]))
        elif r < 0.975:
            ops.append(["apply", rng.choice(["", "q", "ab"]), -rng.randrange(3)])
        elif r < 0.99:
            ops.append(["text", "".join(rng.choice(RA) for _ in range(rng.randrange(4)))])
        else:
            t = "".join(rng.choice(RA) for _ in range(rng.randrange(3)))
            ops.append(["reset", t, rng.randrange(len(t) + 1)])
    case["ops"] = ops
    return case


_ENUMERATED = set()


def cases(tier, rng):
    # the enumeration does not depend on the seed: a second call for the same tier (source-change
    # escalation with extra seeds) only adds random schedules
    out = []
    slow = []
    first_call = tier not in _ENUMERATED     # later calls: source-change escalation with other seeds
    if tier not in _ENUMERATED:
        _ENUMERATED.add(tier)
        for skel, alphabet, dq, dt in enum_configs(tier):
            depth = dq if tier == "quick" else dt
            for path in enum_paths(skel, alphabet, depth):
                out.append(dict(skel, mode="deferred", ops=path))
        for skel, prefix, alphabet, dq, dt in thr_configs(tier):
            depth = dq if tier == "quick" else dt
            for path in enum_paths(skel, alphabet, depth, prefix=prefix):
                out.append(dict(skel, mode="deferred", ops=path))
        fast, slow = hand_cases(tier)
        out += fast
    out += sugg_cases(tier, rng)
    nrand = 4000 if tier == "quick" else 50000
    for i in range(nrand):
        out.append(rand_case(rng, natural=(i % 3 == 2)))
    for i in range(nrand // 4):
        out.append(rand_thr_case(rng))
    rh = [rand_hand_case(rng) for i in range(nrand // 8)]
    for c, is_slow in zip(rh, hand_slow_flags(rh)):
        if is_slow:
            if len(slow) < ((4 if tier == "quick" else 140) if first_call else 0):
                slow.append(dict(c, slow=1))
        else:
            out.append(c)
    # the expensive cases (real one-second queue timeouts) are spread evenly: the work is cut into
    # consecutive chunks for the worker processes
    if slow:
        step = max(1, len(out) // (len(slow) + 1))
        for i, c in enumerate(slow):
            out.insert(min(len(out), (i + 1) * step + i), c)
    for c in out:
        yield c


def hand_slow_flags(cases_):
    """per case: does the model say the producer returns without `_Done` (i.e. through `Full` timeouts)?"""
    lines, ends = [], []
    for c in cases_:
        lines += hand_model_lines(c) + ["slowq"]
        ends.append(len(lines) - 1)
    try:
        res = core.run_driver(DRIVER, lines) if lines else []
    except Exception:
        return [False] * len(cases_)
    return [res[e] == "slow 1" for e in ends]


SCHED = ("start", "rel", "drain", "nrel", "kill", "killp", "prun")


def nontrivial(case):
    if case.get("fam") == "sugg":
        return bool(case["hist"]) and bool(case["text"].strip())
    ops = case["ops"]
    if case.get("fam") == "hand":
        # producer and consumer both moved
        return any(o[0] == "hp" for o in ops) and any(o[0] in ("htake", "hrel", "hkill") for o in ops)
    return any(o[0] in SCHED for o in ops) and any(o[0] not in SCHED for o in ops)


def distribution(cases_):
    d = {"ops": {}, "len": {}, "mode": {}, "family": {}}
    for c in cases_:
        fam = ("hand-off alone" if c.get("fam") == "hand" else "AutoSuggestFromHistory" if c.get("fam") == "sugg"
               else "threaded sources" if c.get("thr") else "async sources")
        d["family"][fam] = d["family"].get(fam, 0) + 1
        if c.get("fam") == "sugg":
            continue
        d["mode"][c.get("mode", "deferred")] = d["mode"].get(c.get("mode", "deferred"), 0) + 1
        n = len(c["ops"])
        key = str(n) if n < 10 else "10+"
        d["len"][key] = d["len"].get(key, 0) + 1
        for op in c["ops"]:
            d["ops"][op[0]] = d["ops"].get(op[0], 0) + 1
    return d


if __name__ == "__main__":
    sys.exit(core.main(sys.modules[__name__]))
