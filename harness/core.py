"""
Shared machinery for all property checks:

  gen tables -> lake build (driver, then proofs) -> axiom audit ->
  correspondence (real code vs. compiled Lean model, same inputs) ->
  oracle (the property restated over the real code) -> verdict, replay, evidence.

A property plugin (harness/cXX.py) defines:

  ID            "C01"
  DRIVER        lake exe target name of the Lean model driver ("drv_c01")
  PROPS         Lean modules holding the property theorems (["Ptk.Props.C01"])
  cases(tier, rng)      -> iterable of JSON-able cases (exhaustive small scope first, then random)
  model_lines(case)     -> list[str]  protocol lines sent to the Lean driver
  impl_lines(case)      -> list[str]  what the REAL code answers to the same lines
  oracle(case)          -> list[dict] violations of the property on the real code:
                           {"signature": <site | condition class>, "msg": ...}
  nontrivial(case)      -> bool (optional)  rule used for evidence counting
  RULE                  description of generation / non-triviality rule
  TRUSTED, ASSUMPTIONS, PARTIAL_SCOPE : lists of str (optional)
"""
from __future__ import annotations

import argparse
import fcntl
import hashlib
import json
import os
import random
import re
import subprocess
import sys
import time
import traceback

ROOT = os.path.dirname(os.path.dirname(os.path.abspath(__file__)))
LEAN = os.path.join(ROOT, "lean")
WORK = os.path.join(ROOT, ".work")
REPO = os.environ.get("VERIF_REPO", "/repo")
PY = "/venv/bin/python"

# the real code under test is always the current working tree
sys.path.insert(0, os.path.join(REPO, "src"))
os.environ.setdefault("PROMPT_TOOLKIT_VERIF", "1")

ALLOWED_AXIOMS = {"propext", "Classical.choice", "Quot.sound"}
FORBIDDEN_RE = re.compile(
    r"\bsorry\b|\badmit\b|^\s*axiom\s|native_decide|bv_decide|implemented_by|\bunsafe\s|maxHeartbeats\s+0\b",
    re.M,
)


# ---------------------------------------------------------------- protocol
def enc_str(s: str) -> str:
    return "s:" + ",".join(str(ord(c)) for c in s)


def dec_str(tok: str) -> str:
    assert tok.startswith("s:"), tok
    body = tok[2:]
    return "" if not body else "".join(chr(int(p)) for p in body.split(","))


def enc_bool(b) -> str:
    return "1" if b else "0"


def enc_opt_int(v) -> str:
    return "N" if v is None else str(v)


def enc_list(items, f=str) -> str:
    items = list(items)
    return " ".join([str(len(items))] + [f(i) for i in items])


# ---------------------------------------------------------------- lean side
class Lock:
    def __init__(self, name="lake.lock"):
        os.makedirs(WORK, exist_ok=True)
        self.path = os.path.join(WORK, name)

    def __enter__(self):
        self.f = open(self.path, "w")
        fcntl.flock(self.f, fcntl.LOCK_EX)
        return self

    def __exit__(self, *a):
        fcntl.flock(self.f, fcntl.LOCK_UN)
        self.f.close()


def gen_tables() -> None:
    with Lock():
        r = subprocess.run([PY, os.path.join(ROOT, "harness", "gen_tables.py")],
                           capture_output=True, text=True)
    if r.returncode != 0:
        raise RuntimeError("gen_tables failed:\n" + r.stdout + r.stderr)


def lake_build(targets: list[str], timeout=3000) -> tuple[bool, str]:
    with Lock():
        r = subprocess.run(["lake", "build"] + targets, cwd=LEAN, capture_output=True,
                           text=True, timeout=timeout)
    return r.returncode == 0, r.stdout + r.stderr


def strip_comments(src: str) -> str:
    # remove nested /- -/ block comments and -- line comments
    out = []
    i = 0
    depth = 0
    n = len(src)
    while i < n:
        if src.startswith("/-", i):
            depth += 1
            i += 2
        elif depth and src.startswith("-/", i):
            depth -= 1
            i += 2
        elif depth:
            if src[i] == "\n":
                out.append("\n")
            i += 1
        elif src.startswith("--", i):
            while i < n and src[i] != "\n":
                i += 1
        else:
            out.append(src[i])
            i += 1
    return "".join(out)


def module_path(mod: str) -> str:
    return os.path.join(LEAN, *mod.split(".")) + ".lean"


def imports_closure(mods: list[str]) -> list[str]:
    """All project-local modules (Ptk.*) reachable from mods."""
    seen, todo = [], list(mods)
    while todo:
        m = todo.pop()
        if m in seen or not m.startswith("Ptk"):
            continue
        p = module_path(m)
        if not os.path.exists(p):
            continue
        seen.append(m)
        for line in open(p):
            mm = re.match(r"\s*import\s+(\S+)", line)
            if mm:
                todo.append(mm.group(1))
    return seen


def theorem_names(mod: str) -> list[str]:
    """Fully qualified names of the theorems declared in a Props module."""
    src = strip_comments(open(module_path(mod)).read())
    names = []
    ns: list[str] = []
    for line in src.splitlines():
        m = re.match(r"\s*namespace\s+(\S+)", line)
        if m:
            ns.append(m.group(1))
            continue
        m = re.match(r"\s*end\s+(\S+)", line)
        if m and ns and ns[-1] == m.group(1):
            ns.pop()
            continue
        m = re.match(r"\s*(?:@\[[^\]]*\]\s*)?(?:private\s+|protected\s+)?theorem\s+(\S+)", line)
        if m:
            names.append(".".join(ns + [m.group(1)]))
    return names


def audit(props: list[str], tag: str) -> dict:
    """grep for forbidden constructs in every local module the props depend on and
    run `#print axioms` on every property theorem."""
    res = {"ok": True, "forbidden": [], "axioms": {}, "bad_axioms": {}, "theorems": []}
    for m in imports_closure(props):
        src = strip_comments(open(module_path(m)).read())
        for mm in FORBIDDEN_RE.finditer(src):
            res["forbidden"].append(f"{m}: {mm.group(0).strip()}")
    # every theorem of every Props module the property modules import (lemma files included)
    thms = []
    audited_mods = [m for m in imports_closure(props) if m.startswith("Ptk.Props.")]
    for p in list(props) + sorted(m for m in audited_mods if m not in props):
        for t in theorem_names(p):
            if t not in thms:
                thms.append(t)
    res["theorems"] = thms
    res["audited_modules"] = list(props) + sorted(m for m in audited_mods if m not in props)
    if not thms:
        res["ok"] = False
        res["forbidden"].append("no theorems found")
        return res
    # cache on content hash of all involved sources
    h = hashlib.sha256()
    for m in sorted(imports_closure(props)):
        h.update(open(module_path(m), "rb").read())
    h.update("\n".join(thms).encode())
    key = h.hexdigest()[:24]
    cache = os.path.join(WORK, f"audit_{tag}_{key}.txt")
    if os.path.exists(cache):
        out = open(cache).read()
    else:
        f = os.path.join(WORK, f"audit_{tag}_{os.getpid()}.lean")
        with open(f, "w") as fh:
            for p in res["audited_modules"]:
                fh.write(f"import {p}\n")
            for t in thms:
                fh.write(f"#print axioms {t}\n")
        r = subprocess.run(["lake", "env", "lean", f], cwd=LEAN, capture_output=True, text=True,
                           timeout=1800)
        os.unlink(f)
        out = r.stdout + r.stderr
        if r.returncode == 0:
            with open(cache, "w") as fh:
                fh.write(out)
        else:
            res["ok"] = False
            res["forbidden"].append("audit failed: " + out[-2000:])
            return res
    # parse: "'Name' depends on axioms: [a, b]" / "'Name' does not depend on any axioms"
    out1 = re.sub(r"\s+", " ", out)
    for t in thms:
        m = re.search(r"'" + re.escape(t) + r"' depends on axioms: \[([^\]]*)\]", out1)
        if m:
            ax = [a.strip() for a in m.group(1).split(",") if a.strip()]
        elif re.search(r"'" + re.escape(t) + r"' does not depend on any axioms", out1):
            ax = []
        else:
            res["ok"] = False
            res["bad_axioms"][t] = ["<no #print axioms output>"]
            continue
        res["axioms"][t] = ax
        bad = [a for a in ax if a not in ALLOWED_AXIOMS]
        if bad:
            res["bad_axioms"][t] = bad
    if res["forbidden"] or res["bad_axioms"]:
        res["ok"] = False
    return res


def run_driver(driver: str, lines: list[str], timeout=1800) -> list[str]:
    exe = os.path.join(LEAN, ".lake", "build", "bin", driver)
    data = "".join(l + "\n" for l in lines)
    for l in lines:
        assert "\n" not in l
    r = subprocess.run([exe], input=data, capture_output=True, text=True, timeout=timeout)
    if r.returncode != 0:
        raise RuntimeError(f"driver {driver} failed rc={r.returncode}: {r.stderr[-2000:]}")
    out = r.stdout.split("\n")
    if out and out[-1] == "":
        out.pop()
    if len(out) != len(lines):
        raise RuntimeError(f"driver {driver}: {len(lines)} lines in, {len(out)} out")
    return out


# ---------------------------------------------------------------- impl side
def safe_impl(plugin, case):
    try:
        return plugin.impl_lines(case)
    except Exception as e:  # harness bug or unexpected crash in the real code
        return ["impl-exception:" + type(e).__name__ + ":" + str(e)[:200].replace("\n", " ")]


def safe_oracle(plugin, case):
    try:
        return plugin.oracle(case)
    except Exception as e:
        return [{"signature": "oracle-exception|" + type(e).__name__,
                 "msg": traceback.format_exc()[-1500:]}]


_PLUGIN = None


def _work(args):
    kind, chunk = args
    out = []
    for case in chunk:
        if kind == "both":
            out.append((safe_impl(_PLUGIN, case), safe_oracle(_PLUGIN, case)))
        elif kind == "oracle":
            out.append((None, safe_oracle(_PLUGIN, case)))
    return out


def parallel_eval(plugin, cases, kind="both", procs=None):
    """Evaluate impl_lines + oracle on every case; fork workers."""
    global _PLUGIN
    _PLUGIN = plugin
    procs = procs or int(os.environ.get("VERIF_PROCS", "0")) or min(16, os.cpu_count() or 4)
    if getattr(plugin, "SERIAL", False) or len(cases) < 64 or procs == 1:
        return _work((kind, cases))
    import multiprocessing as mp

    n = max(1, min(len(cases) // 16, 2000))
    chunks = [cases[i:i + n] for i in range(0, len(cases), n)]
    ctx = mp.get_context("fork")
    with ctx.Pool(procs) as pool:
        res = pool.map(_work, [(kind, c) for c in chunks])
    return [x for r in res for x in r]


# ---------------------------------------------------------------- findings
def _prop_anchor_files(pid):
    try:
        for l in open(os.path.join(ROOT, "properties.jsonl")):
            p = json.loads(l)
            if p.get("id") == pid:
                return list(p.get("anchors", {}).get("files", []))
    except OSError:
        pass
    return []


def anchor_files(plugin):
    """Anchored source files of a plugin: its ANCHORS, else the anchors of the property."""
    return list(getattr(plugin, "ANCHORS", None) or _prop_anchor_files(plugin.ID))


def anchors_hash(plugin):
    files = anchor_files(plugin)
    if not files:
        return None
    h = hashlib.sha256()
    for f in sorted(files):
        pth = os.path.join(REPO, f)
        try:
            h.update(open(pth, "rb").read())
        except OSError:
            h.update(b"<missing>")
    return h.hexdigest()[:16]


def _load_pins():
    try:
        return json.load(open(os.path.join(ROOT, "harness", "pins.json")))
    except (OSError, ValueError):
        return {}


def anchors_differ(plugin):
    cur = anchors_hash(plugin)
    if cur is None:
        return False
    return _load_pins().get(plugin.ID) not in (None, cur)


# -- function-level tie: a plugin may declare MODELLED = {"src/prompt_toolkit/x.py": ["Class.method", "func"]}
#    = the functions its Lean model follows line by line.  Their normalised-AST hashes are pinned
#    (harness/pin.py) and compared on every run; a changed / vanished function escalates the
#    exploration (never a verdict by itself) and is named in the evidence.
def function_index(path):
    """qualified name -> normalised AST dump (docstrings and positions removed) of every def in a file."""
    import ast
    try:
        tree = ast.parse(open(path, encoding="utf-8").read())
    except (OSError, SyntaxError):
        return {}
    out = {}

    def strip_doc(node):
        body = getattr(node, "body", None)
        if (isinstance(body, list) and body and isinstance(body[0], ast.Expr)
                and isinstance(getattr(body[0], "value", None), ast.Constant)
                and isinstance(body[0].value.value, str)):
            node.body = body[1:] or [ast.Pass()]

    def walk(node, prefix):
        for ch in ast.iter_child_nodes(node):
            if isinstance(ch, (ast.FunctionDef, ast.AsyncFunctionDef)):
                q = prefix + ch.name
                for sub in ast.walk(ch):
                    strip_doc(sub)
                d = ast.dump(ch, annotate_fields=False, include_attributes=False)
                if q in out:           # property getter + setter etc.: concatenate
                    out[q] += "|" + d
                else:
                    out[q] = d
                walk(ch, q + ".")
            elif isinstance(ch, ast.ClassDef):
                walk(ch, prefix + ch.name + ".")
            elif isinstance(ch, (ast.If, ast.Try, ast.With)):
                walk(ch, prefix)
    walk(tree, "")
    return out


def modelled_hashes(plugin):
    res = {}
    for f, names in sorted((getattr(plugin, "MODELLED", None) or {}).items()):
        idx = function_index(os.path.join(REPO, f))
        for n in names:
            d = idx.get(n)
            res[f"{f}::{n}"] = hashlib.sha256(d.encode()).hexdigest()[:16] if d is not None else "<missing>"
    return res


def modelled_changed(plugin):
    """Names of modelled functions whose normalised AST differs from the pinned one (or vanished)."""
    cur = modelled_hashes(plugin)
    pinned = _load_pins().get("functions", {}).get(plugin.ID)
    if not cur or pinned is None:
        return []
    return sorted(k for k, h in cur.items() if pinned.get(k) not in (None, h))


def load_known():
    p = os.path.join(ROOT, "known_findings.json")
    if not os.path.exists(p):
        return []
    return json.load(open(p))


def load_corpus(pid: str):
    d = os.path.join(ROOT, "corpus", pid)
    out = []
    if os.path.isdir(d):
        for fn in sorted(os.listdir(d)):
            if fn.endswith(".json"):
                obj = json.load(open(os.path.join(d, fn)))
                if isinstance(obj, dict) and "cases" in obj:
                    out += obj["cases"]
                elif isinstance(obj, dict) and "case" in obj:
                    out.append(obj["case"])
                else:
                    out.append(obj)
    return out


def shrink_ops(case, still_fails):
    """Generic delta-debugging for cases of the form {..., "ops": [...]}."""
    if not (isinstance(case, dict) and isinstance(case.get("ops"), list)):
        return case
    ops = list(case["ops"])
    changed = True
    budget = 200
    while changed and budget > 0:
        changed = False
        for i in range(len(ops)):
            budget -= 1
            cand = dict(case, ops=ops[:i] + ops[i + 1:])
            try:
                if still_fails(cand):
                    ops = cand["ops"]
                    changed = True
                    break
            except Exception:
                pass
    return dict(case, ops=ops)


# ---------------------------------------------------------------- main
def write_json(path, obj):
    os.makedirs(os.path.dirname(path), exist_ok=True)
    tmp = path + ".tmp%d" % os.getpid()
    with open(tmp, "w") as f:
        json.dump(obj, f, indent=1, ensure_ascii=True, default=str)
        f.write("\n")
    os.replace(tmp, path)


def diverges(plugin, case):
    ml = plugin.model_lines(case)
    return run_driver(plugin.DRIVER, ml) != safe_impl(plugin, case)


def main(plugin) -> int:
    ap = argparse.ArgumentParser()
    ap.add_argument("--tier", default=os.environ.get("VERIF_TIER", "quick"),
                    choices=["quick", "thorough"])
    ap.add_argument("--replay", default=None)
    args = ap.parse_args()
    seed = int(os.environ.get("VERIF_SEED", "0") or 0)
    pid = plugin.ID
    t0 = time.time()
    os.makedirs(WORK, exist_ok=True)

    # 1. tables from the current tree
    gen_tables()

    # cross-model agreement modules (harness/agree.json: property -> extra Lean modules whose theorems
    # say that this property's model of a function equals another property's model of the same
    # function).  They import OTHER properties' models, so they are built and audited separately: when
    # they check, their theorems are part of the audited set; when they do not build (e.g. because a
    # source change broke another property's model), that is recorded in the evidence and escalates
    # the exploration, but it is not a broken obligation of THIS property.
    agree_mods = []
    try:
        _agree = json.load(open(os.path.join(ROOT, "harness", "agree.json")))
        agree_mods = [m for m in _agree.get(pid, []) if m not in plugin.PROPS]
    except (OSError, ValueError):
        pass

    # 2. build: driver first (needed for the correspondence), proofs second
    ok_drv, log_drv = lake_build([plugin.DRIVER])
    if not ok_drv:
        # the model itself no longer compiles against the regenerated tables
        sys.stderr.write(log_drv[-4000:])
    ok_props, log_props = lake_build(list(plugin.PROPS))
    broken = []
    if not ok_props:
        for m in re.finditer(r"error: (\S+?):(\d+):(\d+): (.*)", log_props):
            broken.append(f"{m.group(1)}:{m.group(2)}: {m.group(4)[:200]}")
        if not broken:
            broken.append(log_props[-1500:])

    ok_agree, agree_note = True, ""
    if agree_mods and ok_props:
        ok_agree, log_agree = lake_build(agree_mods)
        if not ok_agree:
            m = re.search(r"error: (\S+?):(\d+):(\d+): (.*)", log_agree)
            agree_note = (f"{m.group(1)}:{m.group(2)}: {m.group(4)[:200]}" if m else log_agree[-400:])
            sys.stderr.write(f"[{pid}] cross-model agreement modules do not build (not a verdict): {agree_note}\n")

    # 3. audit
    aud = {"ok": False, "theorems": [], "axioms": {}, "forbidden": [], "bad_axioms": {}}
    if ok_props:
        aud = audit(list(plugin.PROPS) + (agree_mods if ok_agree else []), pid)
        if not aud["ok"]:
            broken += [f"audit: {x}" for x in aud["forbidden"]]
            broken += [f"audit: {t} uses {a}" for t, a in aud["bad_axioms"].items()]
    if args.tier == "thorough" and ok_props and os.environ.get("VERIF_NO_LEANCHECKER") != "1":
        with Lock():
            r = subprocess.run(["lake", "env", "leanchecker"] + list(plugin.PROPS)
                               + (agree_mods if ok_agree else []), cwd=LEAN,
                               capture_output=True, text=True, timeout=3000)
        if r.returncode != 0:
            broken.append("leanchecker: " + (r.stdout + r.stderr)[-500:])

    # replay mode
    if args.replay:
        rp = json.load(open(args.replay))
        case = rp["case"] if "case" in rp else rp
        ml = plugin.model_lines(case)
        print("case:", json.dumps(case))
        print("model lines:", ml)
        if ok_drv:
            print("model  :", run_driver(plugin.DRIVER, ml))
        print("impl   :", safe_impl(plugin, case))
        v = safe_oracle(plugin, case)
        print("oracle :", v)
        return 1 if v else 0

    # 4. cases
    rng = random.Random(seed)
    corpus = load_corpus(pid)
    known = [k for k in load_known() if k.get("property") == pid]
    for k in known:
        if "witness" in k and k["witness"] is not None:
            corpus.append(k["witness"])
    cases = corpus + list(plugin.cases(args.tier, rng))
    # source-change escalation: when an anchored file differs from the version the model was
    # last validated against (harness/pins.json), explore with extra seeds (never a verdict by itself)
    anchors_changed = anchors_differ(plugin)
    fn_changed = modelled_changed(plugin)
    if (anchors_changed or fn_changed or not ok_agree) and args.tier == "quick" and not getattr(plugin, "NO_ESCALATION", False):
        for extra_seed in (1, 2, 3):
            cases += list(plugin.cases(args.tier, random.Random(seed * 1000 + extra_seed)))
    res = parallel_eval(plugin, cases)
    divergences = []
    if ok_drv:
        all_lines, spans = [], []
        for c in cases:
            ml = plugin.model_lines(c)
            spans.append((len(all_lines), len(ml)))
            all_lines += ml
        mout = run_driver(plugin.DRIVER, all_lines)
        for i, c in enumerate(cases):
            a, n = spans[i]
            mo = mout[a:a + n]
            io = res[i][0]
            if mo != io:
                divergences.append({"case": c, "model": mo, "impl": io})
    violations = []
    for i, c in enumerate(cases):
        for v in res[i][1]:
            violations.append({"case": c, **v})

    # 5. if a proof obligation or the correspondence is broken: search harder
    searched = 0
    if (broken or divergences or not ok_drv) and not [v for v in violations
                                                       if not _is_known(v, known)]:
        rng2 = random.Random(seed + 7919)
        extra = list(plugin.cases("thorough", rng2))
        budget = int(os.environ.get("VERIF_SEARCH_MAX", "200000"))
        extra = extra[:budget]
        searched = len(extra)
        res2 = parallel_eval(plugin, extra, kind="oracle")
        for i, c in enumerate(extra):
            for v in res2[i][1]:
                violations.append({"case": c, **v})

    # 6. verdict
    new_viol = [v for v in violations if not _is_known(v, known)]
    known_hit = {}
    for v in violations:
        k = _is_known(v, known)
        if k:
            known_hit.setdefault(k["signature"], (k, v))
    rc = 0
    replay_path = None
    os.makedirs(os.path.join(ROOT, "replays"), exist_ok=True)
    lines_out = []
    for sig, (k, v) in known_hit.items():
        lines_out.append(f"KNOWN-FINDING: property={pid} {k.get('note', sig)}")
    if new_viol:
        v = new_viol[0]
        case = v["case"]
        sig = v["signature"]
        try:
            case = shrink_ops(case, lambda c: any(x["signature"] == sig
                                                   for x in safe_oracle(plugin, c)))
        except Exception:
            pass
        replay_path = os.path.join("replays", f"{pid}-{seed}-viol.json")
        write_json(os.path.join(ROOT, replay_path), {
            "property": pid, "kind": "violation-on-real-code", "seed": seed, "tier": args.tier,
            "signature": sig, "msg": v.get("msg"), "case": case,
            "broken_obligations": broken, "n_divergences": len(divergences),
            "replay": f"./check {pid} --replay {replay_path}"})
        lines_out.append(f"VIOLATION property={pid} replay={replay_path}")
        rc = 1
    elif broken or divergences or not ok_drv:
        replay_path = os.path.join("replays", f"{pid}-{seed}-broken.json")
        d0 = divergences[0] if divergences else None
        if d0 and ok_drv:
            try:
                d0 = dict(d0, case=shrink_ops(d0["case"], lambda c: diverges(plugin, c)))
                ml = plugin.model_lines(d0["case"])
                d0["model"] = run_driver(plugin.DRIVER, ml)
                d0["impl"] = safe_impl(plugin, d0["case"])
            except Exception:
                pass
        write_json(os.path.join(ROOT, replay_path), {
            "property": pid, "kind": "proof-or-correspondence-broken", "seed": seed,
            "tier": args.tier,
            "broken_obligations": broken if ok_drv else broken + ["driver build failed: " + log_drv[-1500:]],
            "n_divergences": len(divergences),
            "first_divergence": d0, "case": (d0 or {}).get("case"),
            "oracle_search": {"cases": len(cases) + searched, "violations": 0},
            "note": "the property is no longer shown to hold: the named theorem / correspondence "
                    "does not check; the oracle found no failing input on the real code"})
        lines_out.append(f"VIOLATION property={pid} replay={replay_path} no-failing-input-found")
        rc = 1

    # 7. evidence
    nt = getattr(plugin, "nontrivial", lambda c: True)
    distinct = set()
    for c in cases:
        try:
            if nt(c):
                distinct.add(json.dumps(c, sort_keys=True, default=str))
        except Exception:
            pass
    n_thm = len(aud["theorems"])
    obligations = n_thm + 2  # + correspondence + oracle
    discharged = 0
    if ok_props and aud["ok"]:
        discharged += n_thm
    if ok_drv and not divergences:
        discharged += 1
    if not new_viol:
        discharged += 1
    axioms_used = sorted({a for ax in aud["axioms"].values() for a in ax})
    dist = {}
    if hasattr(plugin, "distribution"):
        try:
            dist = plugin.distribution(cases)
        except Exception as e:
            dist = {"error": str(e)}
    ev = {
        "property_id": pid, "tier": args.tier, "seed": seed, "level": "proof",
        "coverage": {
            "obligations": obligations, "discharged": discharged,
            "checker_cmd": "cd lean && lake build " + " ".join(plugin.PROPS) + " " + plugin.DRIVER
                           + " && lake env lean <#print axioms of every theorem>"
                           + (" && lake env leanchecker " + " ".join(plugin.PROPS)
                              if args.tier == "thorough" else ""),
            "trusted_base": ["Lean 4.33.0 kernel", "axioms: " + (", ".join(axioms_used) or "none")]
                            + list(getattr(plugin, "TRUSTED", [])),
            "theorems": aud["theorems"],
            "audited_modules": aud.get("audited_modules", []),
            "axioms_per_theorem": aud["axioms"],
            "proofs_checked": bool(ok_props and aud["ok"]),
            "broken_obligations": broken,
            "evaluations": len(cases) + searched,
            "distinct_nontrivial": len(distinct),
            "rule": getattr(plugin, "RULE", ""),
            "samples": [getattr(plugin, "sample_view", lambda c: c)(c)
                        for c in cases[len(corpus):len(corpus) + 3] + cases[-2:]],
            "corpus_cases": len(corpus),
            "correspondence": {"cases": len(cases), "model_lines": sum(n for _, n in spans) if ok_drv else 0,
                               "divergences": len(divergences)},
            "oracle": {"cases": len(cases) + searched, "violations_new": len(new_viol),
                       "violations_known": len(violations) - len(new_viol)},
            "exhaustive": bool(getattr(plugin, "EXHAUSTIVE", False)),
            "exhaustive_scope": getattr(plugin, "EXHAUSTIVE_SCOPE", {}).get(args.tier, ""),
            "distribution": dist,
            "partial_scope": list(getattr(plugin, "PARTIAL_SCOPE", [])),
            "anchored_sources_changed_since_pin": bool(anchors_changed),
            "anchored_files": anchor_files(plugin),
            "modelled_functions": sorted(modelled_hashes(plugin)),
            "modelled_functions_changed_since_pin": fn_changed,
            "agreement_modules": agree_mods,
            "agreement_checked": bool(agree_mods and ok_props and ok_agree),
            "agreement_note": agree_note,
        },
        "assumptions": list(getattr(plugin, "ASSUMPTIONS", [])),
        "wall_s": round(time.time() - t0, 2),
        "violations": len(new_viol) + (1 if rc and not new_viol else 0),
    }
    # (runs against another tree -- seeded changes, scratch worktrees -- must not overwrite the
    #  evidence of the real tree: VERIF_EVIDENCE_DIR redirects it)
    write_json(os.path.join(os.environ.get("VERIF_EVIDENCE_DIR") or os.path.join(ROOT, "evidence"),
                            f"{pid}.json"), ev)
    for l in lines_out:
        print(l)
    print(f"{pid} tier={args.tier} seed={seed}: theorems={n_thm} proofs_ok={ok_props and aud['ok']} "
          f"cases={len(cases)} divergences={len(divergences)} new_violations={len(new_viol)} "
          f"known={len(known_hit)} wall={ev['wall_s']}s")
    return rc


def _is_known(v, known):
    for k in known:
        if k.get("status") == "known" and k.get("signature") == v.get("signature"):
            return k
    return None
