#!/venv/bin/python
"""Record the hash of every plugin's anchored source files (harness/pins.json).
Run after the models have been validated against the current /repo tree."""
import importlib, json, os, sys
here = os.path.dirname(os.path.abspath(__file__))
sys.path.insert(0, here)
import core
pins = {}
for fn in sorted(os.listdir(here)):
    if len(fn) == 6 and fn.startswith("c") and fn.endswith(".py") and fn[1:3].isdigit():
        try:
            mod = importlib.import_module(fn[:-3])
        except Exception as e:
            print("skip", fn, e)
            continue
        h = core.anchors_hash(mod)
        if h:
            pins[mod.ID] = h
json.dump(pins, open(os.path.join(here, "pins.json"), "w"), indent=1, sort_keys=True)
print(pins)
