#!/venv/bin/python
"""Record the hash of every plugin's anchored source files (harness/pins.json).
Run after the models have been validated against the current /repo tree."""
import importlib, json, os, sys
here = os.path.dirname(os.path.abspath(__file__))
sys.path.insert(0, here)
import core
pins = {}
fpins = {}
for fn in sorted(os.listdir(here)):
    if len(fn) == 6 and fn.startswith("c") and fn.endswith(".py") and fn[1:3].isdigit():
        try:
            mod = importlib.import_module(fn[:-3])
        except Exception as e:
            print("skip", fn, e)
            continue
        h = core.anchors_hash(mod)
        if h:
            pins[mod.ID] = h
        fh = core.modelled_hashes(mod)
        if fh:
            missing = [k for k, v in fh.items() if v == "<missing>"]
            if missing:
                print("WARNING", mod.ID, "MODELLED names not found in the source:", missing)
            fpins[mod.ID] = fh
pins["functions"] = fpins
json.dump(pins, open(os.path.join(here, "pins.json"), "w"), indent=1, sort_keys=True)
print({k: v for k, v in pins.items() if k != 'functions'}); print({k: len(v) for k, v in fpins.items()})
