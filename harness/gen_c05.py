#!/venv/bin/python
"""
C05 AST pin, regenerated from the CURRENT tree on every run -> lean/Ptk/Gen/C05.lean.

Lists every place OUTSIDE buffer.py that writes Buffer state without going through the state-writing
API modelled in Ptk.Model.C05:
  * assignments (plain / augmented / annotated / del) to an attribute named like Buffer's private state
    (`_working_lines`, `_undo_stack`, `_redo_stack`, `__cursor_position`, `__working_index` and their
    mangled forms), to `multiple_cursor_positions`, to `original_cursor_position`, to
    `<...selection_state>.type`, and assignments of a non-None value to `<x>.selection_state`;
  * mutating method calls on those private containers (`x._undo_stack.append(...)`, ...);
  * calls of the private setters `_set_text` / `_set_cursor_position`.
`theorem bypass_pin` in Ptk/Props/C05.lean pins the list: a new by-pass breaks the build.
"""
from __future__ import annotations

import ast
import os

import gen_tables as G

PRIVATE = {"_working_lines", "_undo_stack", "_redo_stack", "__cursor_position", "__working_index",
           "_Buffer__cursor_position", "_Buffer__working_index"}
WRITTEN = PRIVATE | {"multiple_cursor_positions", "original_cursor_position"}
MUTATORS = {"append", "appendleft", "pop", "popleft", "clear", "extend", "extendleft", "insert", "remove",
            "rotate", "reverse", "sort", "__setitem__", "__delitem__"}
PRIVATE_CALLS = {"_set_text", "_set_cursor_position"}


def _mentions_selection_state(node) -> bool:
    if isinstance(node, ast.Name):
        return node.id == "selection_state"
    if isinstance(node, ast.Attribute):
        return node.attr == "selection_state"
    return False


class Scan(ast.NodeVisitor):
    def __init__(self, rel):
        self.rel = rel
        self.stack = []
        self.out = []

    def _where(self):
        return ".".join(self.stack) or "<module>"

    def visit_FunctionDef(self, node):
        self.stack.append(node.name)
        self.generic_visit(node)
        self.stack.pop()

    visit_AsyncFunctionDef = visit_FunctionDef
    visit_ClassDef = visit_FunctionDef

    def _target(self, t, value, kind):
        if isinstance(t, (ast.Tuple, ast.List)):
            for e in t.elts:
                self._target(e, None, kind)
            return
        if isinstance(t, ast.Subscript):
            # x._working_lines[i] = ...
            v = t.value
            if isinstance(v, ast.Attribute) and v.attr in PRIVATE:
                self.out.append(f"{self.rel}::{self._where()}::{ast.unparse(t)}::{kind}-item")
            return
        if not isinstance(t, ast.Attribute):
            return
        if t.attr in WRITTEN:
            self.out.append(f"{self.rel}::{self._where()}::{ast.unparse(t)}::{kind}")
        elif t.attr == "type" and _mentions_selection_state(t.value):
            self.out.append(f"{self.rel}::{self._where()}::{ast.unparse(t)}::{kind}")
        elif t.attr == "selection_state":
            is_none = isinstance(value, ast.Constant) and value.value is None
            if not is_none:
                self.out.append(f"{self.rel}::{self._where()}::{ast.unparse(t)}::{kind}-non-None")

    def visit_Assign(self, node):
        for t in node.targets:
            self._target(t, node.value, "assign")
        self.generic_visit(node)

    def visit_AugAssign(self, node):
        self._target(node.target, node.value, "augassign")
        self.generic_visit(node)

    def visit_AnnAssign(self, node):
        if node.value is not None:
            self._target(node.target, node.value, "assign")
        self.generic_visit(node)

    def visit_Delete(self, node):
        for t in node.targets:
            self._target(t, None, "del")
        self.generic_visit(node)

    def visit_Call(self, node):
        f = node.func
        if isinstance(f, ast.Attribute):
            if f.attr in PRIVATE_CALLS:
                self.out.append(f"{self.rel}::{self._where()}::{ast.unparse(f)}::call")
            elif f.attr in MUTATORS and isinstance(f.value, ast.Attribute) and f.value.attr in PRIVATE:
                self.out.append(f"{self.rel}::{self._where()}::{ast.unparse(f)}::call")
            elif f.attr == "setattr" or (isinstance(f, ast.Attribute) and f.attr == "__setattr__"):
                pass
        elif isinstance(f, ast.Name) and f.id == "setattr" and len(node.args) >= 2:
            a = node.args[1]
            if isinstance(a, ast.Constant) and a.value in WRITTEN | {"selection_state"}:
                self.out.append(f"{self.rel}::{self._where()}::setattr({ast.unparse(node.args[0])}, {a.value!r})::call")
        self.generic_visit(node)


def scan() -> list[str]:
    root = os.path.join(G.REPO, "src", "prompt_toolkit")
    out: list[str] = []
    for d, _, files in sorted(os.walk(root)):
        for fn in sorted(files):
            if not fn.endswith(".py"):
                continue
            p = os.path.join(d, fn)
            rel = os.path.relpath(p, root)
            if rel == "buffer.py":
                continue
            try:
                tree = ast.parse(open(p, encoding="utf-8").read())
            except SyntaxError:
                out.append(f"{rel}::<syntax error>")
                continue
            s = Scan(rel)
            s.visit(tree)
            out += s.out
    return sorted(out)


def _lean_f(f, aidx) -> str:
    k = f[0]
    if k == "tt":
        return ".tt"
    if k == "ff":
        return ".ff"
    if k == "atom":
        return f"(.atom {aidx[f[1]]})"
    if k == "not":
        return f"(.not {_lean_f(f[1], aidx)})"
    parts = [_lean_f(x, aidx) for x in f[1]]
    out = parts[-1]
    for x in reversed(parts[:-1]):
        out = f"(.{k} {x} {out})"
    return out


def generate_bindings() -> None:
    """the binding table of the running code -> lean/Ptk/Gen/C05Bindings.lean"""
    head = "import Ptk.Model.C05Skel\nnamespace Ptk.Gen.C05\nopen Ptk.C05.Skel\n\n"
    try:
        import c05_skel as S

        rows, atoms, same = S.canonical_app()
        an, hn, kn = S.table_names(rows, atoms)
        h = S.table_hash(rows, atoms)
        writes = S.canonical_writes()
    except Exception as e:  # the tree is broken: keep the library compilable, the pins in Props/C05Skel fail
        rows, an, hn, kn, same, h, writes = [], [], [], [], False, "broken:" + type(e).__name__, {}
    aidx = {n: i for i, n in enumerate(an)}
    hidx = {n: i for i, n in enumerate(hn)}
    kidx = {n: i for i, n in enumerate(kn)}

    def kid(k):
        return str(ord(k)) if len(k) == 1 else f"namedBase + {kidx[k]}"

    def named(k):
        return f"namedBase + {kidx[k]}" if k in kidx else "namedBase + 999999"

    body = head
    body += "/-- the `Condition`s the binding filters are built from (module:qualified name), sorted -/\n"
    body += "def atomNames : List String := [\n" + ",\n".join("  " + G.lstr(n) for n in an) + "]\n\n"
    body += "/-- the handlers of the bindings (labels), sorted -/\n"
    body += "def handlerNames : List String := [\n" + ",\n".join("  " + G.lstr(n) for n in hn) + "]\n\n"
    body += "/-- the skeleton-relevant statements of each handler body (c05_skel.handler_writes), same order -/\n"
    body += "def handlerWrites : List String := [\n" + ",\n".join("  " + G.lstr(writes.get(n, "?")) for n in hn) + "]\n\n"
    body += "/-- the named keys of the bindings, sorted; key id = namedBase + index -/\n"
    body += "def keyNames : List String := [\n" + ",\n".join("  " + G.lstr(n) for n in kn) + "]\n\n"
    body += f"def anyKey : Nat := {named('<any>')}\n"
    body += f"def enterKey : Nat := {named('c-m')}\n"
    body += f"def escapeKey : Nat := {named('escape')}\n"
    body += f"def ctrlOKey : Nat := {named('c-o')}\n"
    body += f"def ctrlVKey : Nat := {named('c-v')}\n\n"
    body += "/-- the table is the same whichever buffer has the focus -/\n"
    body += f"def sameWhenSearching : Bool := {'true' if same else 'false'}\n\n"
    body += f"def tableHash : String := {G.lstr(h)}\n\n"
    body += "/-- every Binding of the key processor of a PromptSession application, in matching order:\n"
    body += "    keys, filter, eager, handler (index in `handlerNames`) -/\n"
    body += "def bindings : List Binding := [\n"
    lines = []
    for r in rows:
        ks = "[" + ", ".join(kid(k) for k in r["keys"]) + "]"
        lines.append(f"  ⟨{ks}, {_lean_f(r['filter'], aidx)}, {_lean_f(r['eager'], aidx)}, {hidx[r['handler']]}⟩")
    body += ",\n".join(lines) + "]\n\nend Ptk.Gen.C05\n"
    G.write("C05Bindings.lean", body)


def generate() -> None:
    generate_bindings()
    sites = scan()
    body = "namespace Ptk.Gen.C05\n\n"
    body += "/-- every write to Buffer state outside buffer.py that does not go through the Buffer API\n"
    body += "    (file::function::target::kind), sorted -/\n"
    body += "def bypassSites : List String := [\n"
    body += ",\n".join("  " + G.lstr(s) for s in sites)
    body += "\n]\n\n"
    try:
        from prompt_toolkit.buffer import _QUOTED_WORDS_RE

        pat = _QUOTED_WORDS_RE.pattern
    except Exception:  # noqa
        pat = "<missing>"
    body += "/-- `buffer._QUOTED_WORDS_RE.pattern` (the scanner `Ptk.C05.splitQuoted` is written for this pattern) -/\n"
    body += f"def quotedWordsRe : String := {G.lstr(pat)}\n\nend Ptk.Gen.C05\n"
    G.write("C05.lean", body)


if __name__ == "__main__":
    for s in scan():
        print(s)
