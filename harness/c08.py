#!/venv/bin/python
"""C08 — Vi operators act exactly on the motion's span; yanking never edits.

Correspondence: the real editor (PromptSession in Vi navigation mode, keys fed through the real
Vt100Parser / KeyProcessor) and direct calls of TextObject.operator_range / get_line_numbers /
cut, against the Lean model `Ptk.Model.C08` (driver drv_c08).

Oracle: the property restated over the real editor only (no model): yank leaves the text alone;
d / c remove one contiguous span touching the cursor and the register holds exactly the removed
characters (whole lines for linewise motions); case / indent operators change nothing outside the
span that `d` + the same motion removes; failing motions (independent spec of "fails") change
nothing; for the simple motions the span itself is compared with a from-the-Vi-manual spec.
"""
from __future__ import annotations

import codecs
import itertools
import os
import sys

sys.path.insert(0, os.path.dirname(os.path.abspath(__file__)))
import core
from core import enc_str

from prompt_toolkit.clipboard import ClipboardData
from prompt_toolkit.document import Document
from prompt_toolkit.key_binding.bindings.vi import TextObject, TextObjectType
from prompt_toolkit.key_binding.vi_state import InputMode
from prompt_toolkit.selection import SelectionType

import editor as _editor

ID = "C08"
DRIVER = "drv_c08"
PROPS = ["Ptk.Props.C08"]
LEVEL_TEXT = ("Lean 4 theorems over an executable model of TextObject (sorted / operator_range / get_line_numbers / "
              "cut through Document.cut_selection) and the Vi operators d c y g? gu gU g~ > < with registers: yank "
              "never edits, delete/change removes exactly text[from:to) and stores exactly it (whole lines, trailing "
              "newline convention, for linewise), transforms/indents frame, empty span => no-op for every operator, "
              "operator_range in bounds for every modelled motion; the model is tied to /repo on every run by an "
              "end-to-end differential correspondence through the real key processor and by the property oracle")
LEVEL_NOTE = ("trusted: Lean kernel, axioms propext/Classical.choice/Quot.sound only; the hand-written model "
              "(validated by the correspondence, not proved equal to the Python); CPython str/re semantics")
RULE = ("exhaustive: every text over {a,B,space,\\n,(,)} up to the tier's length bound x every cursor x every "
        "modelled motion/text object (with counts none/2/3 and operator counts) under d and typed alone, plus every "
        "operator (d c y g? gu gU g~ > <, \"x register variants) on a rotating motion subset; every TextObject(start,"
        "end,type) with in-range offsets called directly; then seeded random texts (<= 40 chars, quotes, brackets, "
        "wide chars) with random operator x motion x counts incl. motions that are oracle-only (ge gE g_ | % { } ap "
        "gq ~) and `<f|F|t|T c> <operator> ;|,` sequences that carry the last character find; a case is non-trivial when some operator changes text, cursor or a register")
EXHAUSTIVE = True
EXHAUSTIVE_SCOPE = {"quick": "alphabet {a,B,space,\\n,(,)}: len<=1 full product operators x motions x counts; len 2 all motions x d, 10 rotating motions per other operator; len 3 all states, rotating subsets (22 motions x d, 2 per other operator); raw TextObjects over {a,space,\\n} len<=4, all in-range offsets x 3 types",
                    "thorough": "alphabet {a,B,space,\\n,(,)}: len<=1 full product operators x motions x counts, all cursors; len 2 all motions x d, 60 rotating motions per other operator; len 3 all motions x d, 16 rotating motions per other operator; len 4 all states, rotating subsets (16 motions x d, 2 per other operator); raw TextObjects len<=5"}
TRUSTED = ["harness/c08.py compares text, cursor, clipboard, named registers and insert-mode after every operator",
           "Ptk/Model/C08.lean is a hand translation of vi.py TextObject/operators and the Document queries they use"]
ASSUMPTIONS = ["CPython str slicing semantics; `re` on the word patterns == maximal class runs (differentially checked)",
               "str.isspace / regex \\s tables regenerated from the interpreter",
               "transform callbacks = ASCII rot13/lower/upper/swapcase in the correspondence (texts use ASCII letters "
               "and caseless symbols there); theorems hold for every callback"]
PARTIAL_SCOPE = ["gq (reshape_text), ~ as operator, motions ge gE g_ | % { } ap: end-to-end oracle only (not in the Lean model); n N H M L gm not covered",
                 "visual-mode operators (_operator_in_selection) and BLOCK selections not modelled",
                 "register names outside [a-z0-9] (e.g. \"Ad: the deleted text is stored nowhere) are followed by the model but not judged by the oracle",
                 "the cursor position after y / case operators (not part of the property) is compared with the model only",
                 "dd / cc / yy / D / C / x are separate bindings, not operator+motion (C09)"]

ALPHA = ["a", "B", " ", "\n", "(", ")"]
RAND_ALPHA = ["a", "B", "c", "d", " ", " ", "\n", "\n", "(", ")", "'", "\"", ".", ",", "_", "9", "\t", "世", "[", "]", "x"]

OPS = ["d", "c", "y", "g?", "gu", "gU", "g~", ">", "<"]
COUNT_SENSITIVE = {"h", "l", "w", "W", "b", "B", "e", "E", "f", "F", "t", "T", "j", "k", "gg"}
REPEAT = {";", ","}   # motion = [";"|","] (no previous find) or [";"|",", findkey, findchar, findcount|None]
NO_MOVE = {"iw", "iW", "aw", "aW", "j", "k", "ib", "ab", "iq", "aq", "ap"}
LINEWISE = {"j", "k", "G", "gg"}
# oracle-only motions (key strings); not sent to the model
EXTRA_MOTIONS = ["ge", "gE", "g_", "|", "%", "{", "}", "ap"]


# ------------------------------------------------------------------ real editor (one per process)
_ED = {}


def get_editor():
    pid = os.getpid()
    ed = _ED.get(pid)
    if ed is None:
        cm = _editor.editor(vi=True, multiline=True)
        ed = cm.__enter__()
        _ED.clear()
        _ED[pid] = ed
        _ED["cm"] = cm
    return ed


def clip_of(t, lines):
    return ClipboardData(t, SelectionType.LINES if lines else SelectionType.CHARACTERS)


def drive(text, cur, clip, keys, tilde=False):
    """fresh navigation-mode state (text, cur, clipboard) -> feed raw keys -> observable state"""
    ed = get_editor()
    app = ed.app
    ed.buffer.reset(Document(text, cur))
    vs = app.vi_state
    vs.reset()
    vs.named_registers = {}
    vs.last_character_find = None
    vs.tilde_operator = tilde
    vs.input_mode = InputMode.NAVIGATION
    app.clipboard.set_data(clip_of(clip[0], clip[1]))
    app.key_processor.reset()
    err = None
    try:
        ed.feed(keys)
    except Exception as e:  # a handler raised
        err = type(e).__name__
        app.key_processor.reset()
    cd = app.clipboard.get_data()
    return {
        "text": ed.buffer.text, "cur": ed.buffer.cursor_position,
        "clip": (cd.text, 1 if cd.type == SelectionType.LINES else 0, cd.type.name),
        "regs": {k: (v.text, 1 if v.type == SelectionType.LINES else 0) for k, v in vs.named_registers.items()},
        "insert": vs.input_mode == InputMode.INSERT,
        "pending": vs.operator_func is not None,
        "err": err,
    }


# ------------------------------------------------------------------ ops
# an op is [opArg|None, opName, reg|None, motArg|None, motion...]; motion = token list
def prefix_keys(m):
    """keys typed BEFORE the operator: the character find that `;` / `,` repeat"""
    if m[0] in REPEAT and len(m) == 4:
        return ("" if m[3] is None else str(m[3])) + m[1] + m[2]
    return ""


def motion_keys(m):
    k = m[0]
    if k in ("f", "F", "t", "T"):
        return k + m[1]
    if k in ("ib", "ab"):
        return k[0] + m[3]
    if k in ("iq", "aq"):
        return k[0] + m[1]
    return k


def op_keys(op):
    oa, name, reg, ma, m = op[0], op[1], op[2], op[3], op[4:]
    s = prefix_keys(m)
    if oa is not None:
        s += str(oa)
    if reg is not None:
        s += '"' + reg
    s += name
    if ma is not None:
        s += str(ma)
    return s + motion_keys(m)


def motion_tokens(m):
    k = m[0]
    if k in REPEAT:
        return f"rep {1 if k == ',' else 0}"
    if k in ("f", "F", "t", "T", "iq", "aq"):
        return f"{k} {ord(m[1])}"
    if k in ("ib", "ab"):
        return f"{k} {ord(m[1])} {ord(m[2])}"
    return k


def opt(v):
    return "N" if v is None else str(v)


def is_extra(op):
    return op[1] in ("gq", "~") or op[4] in EXTRA_MOTIONS


def base_motions():
    ms = [[k] for k in ["h", "l", "0", "$", "^", "w", "W", "b", "B", "e", "E", "iw", "iW", "aw", "aW",
                        "j", "k", "G", "gg"]]
    for k in "fFtT":
        for ch in ["a", ")", "x", " "]:
            ms.append([k, ch])
    for key in ["(", ")", "b"]:
        ms.append(["ib", "(", ")", key])
        ms.append(["ab", "(", ")", key])
    ms.append(["ib", "[", "]", "["])
    ms.append(["iq", "'"])
    # repeat motions: without and with a remembered character find
    ms.append([";"])
    ms.append([","])
    for fk in "fFtT":
        for ch in ["a", " "]:
            for k in (";", ","):
                ms.append([k, fk, ch, None])
    for fk in "fF":
        for k in (";", ","):
            ms.append([k, fk, "a", 2])
    return ms


BASE = base_motions()
ARGS = [(None, None), (2, None), (None, 2), (2, 2), (3, None), (None, 3)]


def motion_instances():
    inst = []
    for m in BASE:
        inst.append((None, None, m))
        if m[0] in COUNT_SENSITIVE:
            for oa, ma in ARGS[1:]:
                inst.append((oa, ma, m))
        elif m[0] in REPEAT and len(m) == 4:
            for oa, ma in ARGS[1:3]:
                inst.append((oa, ma, m))
    return inst


INST = motion_instances()


def op_variants():
    out = []
    for name in OPS:
        for reg in ([None, "a"] if name in ("d", "c", "y") else [None]):
            if not (name == "d" and reg is None):
                out.append((name, reg))
    return out


VARIANTS = op_variants()


def state_ops(salt, n_d, n_other):
    """the op list for one state: `d` on n_d motion instances (None = all), every other operator
    variant on n_other instances (None = all); subsets rotate with `salt`"""
    ops = []
    n = len(INST)
    sel = INST if n_d is None else [INST[(salt * 5 + i * 7) % n] for i in range(n_d)]
    for oa, ma, m in sel:
        ops.append([oa, "d", None, ma] + m)
    for j, (name, reg) in enumerate(VARIANTS):
        sel = INST if n_other is None else [INST[(salt * 7 + j * 13 + i * 11) % n] for i in range(n_other)]
        for oa, ma, m in sel:
            ops.append([oa, name, reg, ma] + m)
    return ops


def rand_motion(rng):
    r = rng.randrange(12)
    if r < 6:
        return list(rng.choice(BASE))
    if r < 8:
        return [rng.choice("fFtT"), rng.choice(RAND_ALPHA[:21])] if True else None
    if r < 9:
        l, rr = rng.choice([("(", ")"), ("[", "]"), ("{", "}"), ("<", ">")])
        keys = [l, rr] + (["b"] if l == "(" else ["B"] if l == "{" else [])
        return [rng.choice(["ib", "ab"]), l, rr, rng.choice(keys)]
    if r < 10:
        return [rng.choice(["iq", "aq"]), rng.choice(["'", '"', "`"])]
    if rng.randrange(3) == 0:
        if rng.randrange(6) == 0:
            return [rng.choice(";,")]
        ch = rng.choice([c for c in RAND_ALPHA if c not in ("\n", "\t")])
        return [rng.choice(";,"), rng.choice("fFtT"), ch, rng.choice([None, None, 2, 3])]
    return [rng.choice(EXTRA_MOTIONS)]


def rand_op(rng):
    m = rand_motion(rng)
    while m[0] in ("f", "F", "t", "T") and m[1] in ("\n", "\t"):
        m = rand_motion(rng)
    name = rng.choice(OPS + ["d", "d", "c", "y", "gq", "~"])
    reg = rng.choice([None, None, None, "a", "z", "0", "7"]) if name in ("d", "c", "y") else None
    oa = rng.choice([None, None, None, 2, 3, 5, 12, 1000, 1000000])
    ma = rng.choice([None, None, None, 2, 3, 4, 11, 1000, 2000000])
    if m[0] in ("0", "G"):
        ma = None   # `20` is a count; `3G` is bound to go-to-history-line
    return [oa, name, reg, ma] + m


def rand_text(rng):
    n = rng.choice([0, 1, 2, 3, 5, 8, 13, 21, 40])
    kind = rng.randrange(4)
    if kind == 0:
        return "".join(rng.choice(RAND_ALPHA) for _ in range(n))
    if kind == 1:  # word-ish lines
        words = ["ab", "B", "a_9", "..", "(", ")", "'a'", "x", "世", "a.b", ""]
        out = []
        while sum(len(w) + 1 for w in out) < n:
            out.append(rng.choice(words))
        s = ""
        for w in out:
            s += w + rng.choice([" ", " ", "  ", "\n", "\n\n", "\t", ""])
        return s[:max(n, 1)]
    if kind == 2:  # nested brackets / quotes
        return "".join(rng.choice(["(", ")", "a", " ", "\n", "'", "[", "]"]) for _ in range(n))
    return "".join(rng.choice(["a", " ", "\n", "\n", "    ", "B"]) for _ in range(n))


def raw_tos(n, cur):
    """every TextObject whose offsets stay inside the text, all three types"""
    out = []
    for s in range(-cur, n - cur + 1):
        for e in range(-cur, n - cur + 1):
            for ty in (0, 1, 2):
                out.append([s, e, ty])
    return out


# per tier: text length -> (number of `d` motion instances, instances per other operator); None = all
PLAN = {"quick": {0: (None, None), 1: (None, None), 2: (None, 10), 3: (22, 2)},
        "thorough": {0: (None, None), 1: (None, None), 2: (None, 60), 3: (None, 16), 4: (16, 2)}}


def cases(tier, rng):
    quick = tier == "quick"
    plan = PLAN[tier]
    salt = rng.randrange(1000)
    for n in sorted(plan):
        n_d, n_other = plan[n]
        for tup in itertools.product(ALPHA, repeat=n):
            text = "".join(tup)
            for cur in range(n + 1):
                salt += 1
                yield {"k": "e2e", "text": text, "cur": cur, "clip": ["zz", 0],
                       "ops": state_ops(salt, n_d, n_other)}
    # direct TextObject calls
    rawlen = 4 if quick else 5
    for n in range(rawlen + 1):
        for tup in itertools.product(["a", " ", "\n"], repeat=n):
            text = "".join(tup)
            for cur in range(n + 1):
                yield {"k": "raw", "text": text, "cur": cur, "tos": raw_tos(n, cur)}
    nrand = 1000 if quick else 18000
    for _ in range(nrand):
        text = rand_text(rng)
        cur = rng.choice([0, len(text), rng.randrange(0, len(text) + 1), rng.randrange(0, len(text) + 1)])
        clip = rng.choice([["zz", 0], ["", 0], ["old\nline", 1]])
        ops = [rand_op(rng) for _ in range(rng.randrange(4, 12))]
        yield {"k": "e2e", "text": text, "cur": cur, "clip": clip, "ops": ops}
    for _ in range(200 if quick else 3000):
        text = rand_text(rng)[:12]
        cur = rng.randrange(0, len(text) + 1)
        tos = raw_tos(len(text), cur)
        rng.shuffle(tos)
        yield {"k": "raw", "text": text, "cur": cur, "tos": tos[:40]}


# ------------------------------------------------------------------ correspondence
def model_lines(case):
    out = []
    t, c = enc_str(case["text"]), case["cur"]
    if case["k"] == "raw":
        for s, e, ty in case["tos"]:
            out.append(f"raw {t} {c} {s} {e} {ty}")
        return out
    clip = case["clip"]
    for op in case["ops"]:
        if is_extra(op):
            continue
        m = op[4:]
        regtok = opt(None if op[2] is None else ord(op[2]))
        if m[0] in REPEAT and len(m) == 4:
            rev = 1 if m[0] == "," else 0
            out.append(f"e2ep {t} {c} {enc_str(clip[0])} {clip[1]} {opt(m[3])} {m[1]} {ord(m[2])} "
                       f"{opt(op[0])} {op[1]} {regtok} {opt(op[3])} {rev}")
            if op[1] == "d" and op[2] is None and op[0] is None:
                out.append(f"mvp {t} {c} {opt(m[3])} {m[1]} {ord(m[2])} {opt(op[3])} {rev}")
            continue
        out.append(f"e2e {t} {c} {enc_str(clip[0])} {clip[1]} {opt(op[0])} {op[1]} "
                   f"{regtok} {opt(op[3])} {motion_tokens(m)}")
        if op[1] == "d" and op[2] is None and op[0] is None and m[0] not in NO_MOVE:
            out.append(f"mv {t} {c} {opt(op[3])} {motion_tokens(m)}")
    return out


def st_line(r):
    if r["err"]:
        return "err"
    regs = sorted(r["regs"].items())
    items = [f"{ord(k)} {enc_str(v[0])} {v[1]}" for k, v in regs]
    return (f"{enc_str(r['text'])} {r['cur']} {enc_str(r['clip'][0])} {r['clip'][1]} "
            + " ".join([str(len(items))] + items) + f" {1 if r['insert'] else 0}")


_TYPES = [TextObjectType.EXCLUSIVE, TextObjectType.INCLUSIVE, TextObjectType.LINEWISE]

_CACHE = {"case": None, "res": None}


def run_case(case):
    """run every op of an e2e case on the real editor: list of (result, move_result|None)"""
    if _CACHE["case"] is case:
        return _CACHE["res"]
    res = []
    for op in case["ops"]:
        r = drive(case["text"], case["cur"], case["clip"], op_keys(op), tilde=(op[1] == "~"))
        mvr = None
        m = op[4:]
        pre = prefix_keys(m)
        # the state the operator starts from: after the character find typed as a movement
        r["base_cur"] = drive(case["text"], case["cur"], case["clip"], pre)["cur"] if pre else case["cur"]
        if op[1] == "d" and op[2] is None and op[0] is None and m[0] not in NO_MOVE:
            mvr = drive(case["text"], case["cur"], case["clip"],
                        pre + ("" if op[3] is None else str(op[3])) + motion_keys(m))
        res.append((r, mvr))
    _CACHE["case"], _CACHE["res"] = case, res
    return res


def impl_lines(case):
    out = []
    if case["k"] == "raw":
        ed = get_editor()
        for s, e, ty in case["tos"]:
            ed.buffer.reset(Document(case["text"], case["cur"]))
            to = TextObject(s, e, _TYPES[ty])
            doc = ed.buffer.document
            a, b = to.operator_range(doc)
            l1, l2 = to.get_line_numbers(ed.buffer)
            sn = 1 if to.spans_nothing(doc) else 0
            try:
                nd, cd = to.cut(ed.buffer)
                cut = f"{enc_str(nd.text)} {nd.cursor_position} {enc_str(cd.text)} {1 if cd.type == SelectionType.LINES else 0}"
            except AssertionError:
                cut = "err"
            out.append(f"{a} {b} {l1} {l2} {sn} {cut}")
        return out
    for op, (r, mvr) in zip(case["ops"], run_case(case)):
        if is_extra(op):
            continue
        out.append(st_line(r))
        if mvr is not None:
            out.append(str(mvr["cur"]))
    return out


# ------------------------------------------------------------------ oracle
def line_start(t, i):
    return t.rfind("\n", 0, i) + 1


def line_end(t, i):
    j = t.find("\n", i)
    return len(t) if j < 0 else j


def row_of(t, i):
    return t.count("\n", 0, i)


def norm_count(oa, ma):
    def n1(v):
        if v is None:
            return 1
        return 1 if v >= 1000000 else v
    c = n1(oa) * n1(ma)
    return 1 if c >= 1000000 else c


def fails(text, cur, m, count, has_count=False):
    """independent (Vi manual) notion of 'the motion fails or spans nothing'; None = no opinion"""
    k = m[0]
    ls, le = line_start(text, cur), line_end(text, cur)
    if k == "h" or k == "0":
        return cur == ls
    if k in ("l", "$"):
        return cur == le
    if k == "^":
        line = text[ls:le]
        return ls + (len(line) - len(line.lstrip())) == cur
    if k in ("f", "t"):
        return text[cur + 1:le].count(m[1]) < count if cur < le else True
    if k in ("F", "T"):
        return text[ls:cur].count(m[1]) < count
    if k in ("b", "B"):
        return text[:cur].strip() == ""
    if k in ("w", "W"):
        return cur == len(text)
    if k == "j":
        return "\n" not in text[cur:]
    if k == "k":
        return "\n" not in text[:cur]
    if k in ("iw", "iW", "aw", "aW"):
        return True if ls == le else None
    if k in ("ib", "ab"):
        return True if (m[1] not in text or m[2] not in text) else None
    if k in ("iq", "aq"):
        return True if (m[1] not in text[:cur] or m[1] not in text[cur + 1:]) else None
    if k in ("ge", "gE"):
        return True if text[:cur].strip() == "" else None
    if k == "g_":
        return True if ls == le else None
    if k == "%":
        if has_count:
            return None   # N% : jump to a percentage of the file (linewise), never fails
        return True if text[cur:cur + 1] not in tuple("()[]{}<>") or text[cur:cur + 1] == "" else None
    if k in REPEAT:
        if len(m) < 4:
            return True   # no previous f/F/t/T in a fresh state
        backwards = (m[1] in "FT") != (k == ",")
        if backwards:
            return text[ls:cur].count(m[2]) < count
        return text[cur + 1:le].count(m[2]) < count if cur < le else True
    return None


def span_spec(text, cur, m, count):
    """(a, b, linewise) the Vi manual gives for the simple motions; None = no opinion.
    Only called when the motion does not fail."""
    k = m[0]
    ls, le = line_start(text, cur), line_end(text, cur)
    if k == "h":
        return (max(ls, cur - count), cur, False)
    if k == "l":
        return (cur, min(le, cur + count), False)
    if k == "0":
        return (ls, cur, False)
    if k == "$":
        return (cur, le, False)
    if k in ("f", "t"):
        idx = cur
        for _ in range(count):
            idx = text.index(m[1], idx + 1, le)
        return (cur, idx + 1 if k == "f" else idx, False)
    if k in ("F", "T"):
        idx = cur
        for _ in range(count):
            idx = text.rindex(m[1], ls, idx)
        return (idx if k == "F" else idx + 1, cur, False)
    if k in REPEAT and len(m) == 4:
        # `;` repeats the find in its direction, `,` in the opposite one; a backward repeat is an
        # exclusive motion (up to, not including, the cursor), a forward one includes the target
        backwards = (m[1] in "FT") != (k == ",")
        idx = cur
        for _ in range(count):
            idx = text.rindex(m[2], ls, idx) if backwards else text.index(m[2], idx + 1, le)
        return (idx, cur, False) if backwards else (cur, idx + 1, False)
    if k in LINEWISE:
        row = row_of(text, cur)
        last = text.count("\n")
        if k == "j":
            r1, r2 = row, min(last, row + count)
        elif k == "k":
            r1, r2 = max(0, row - count), row
        elif k == "G":
            r1, r2 = row, last
        else:
            tgt = min(last, count - 1)
            r1, r2 = min(row, tgt), max(row, tgt)
        lines = text.split("\n")
        a = sum(len(x) + 1 for x in lines[:r1])
        b = sum(len(x) + 1 for x in lines[:r2 + 1])
        return (a, min(b, len(text)), True)
    return None


TF = {"g?": lambda s: codecs.encode(s, "rot_13"), "gu": str.lower, "gU": str.upper, "g~": str.swapcase,
      "~": str.swapcase}


TEXT_OBJECTS = {"ib", "ab", "iq", "aq", "iw", "iW", "aw", "aW", "ap"}


def removed_spans(text, new, cur, slack=0):
    """all (a, b) with new == text[:a] + text[b:], a <= cur + slack, cur <= b
    (slack = 1 for text objects: `i(` with the cursor on the bracket starts behind it)"""
    k = len(text) - len(new)
    out = []
    if k < 0:
        return out
    # (also: an exclusive motion that ends in column 0 stops at the end of the previous line,
    #  so a backward span may be separated from the cursor by exactly that newline)
    for a in range(max(0, cur - k - 1), min(cur + slack, len(new)) + 1):
        b = a + k
        if text[:a] + text[b:] == new and (b >= cur or (b == cur - 1 and text[b] == "\n" and k > 0)):
            out.append((a, b))
    return out


def vi_fix(text, cur):
    """navigation mode never leaves the cursor behind the last character of a non-empty line
    (KeyProcessor._fix_vi_cursor_position runs after every key handler)"""
    ls, le = line_start(text, cur), line_end(text, cur)
    return cur - 1 if (cur == le and le > ls) else cur


def d_spans(text, cur, d, reg=None):
    """spans (a, b) compatible with a `d` run: new text == text[:a]+text[b:], a <= cur <= b"""
    return removed_spans(text, d["text"], cur)


def check_op(case, op, r, dref):
    """violations of the property for one operator run; dref() = result of d + the same motion"""
    text, clip = case["text"], case["clip"]
    oa, name, reg, ma, m = op[0], op[1], op[2], op[3], op[4:]
    # a leading count is a key handler of its own: the cursor is normalised after it
    base = r.get("base_cur", case["cur"])
    cur = vi_fix(text, base) if oa is not None else base
    v = []
    keys = op_keys(op)

    def bad(site, cond, msg):
        v.append({"signature": f"{site} | {cond}",
                  "msg": f"{msg}: text={text!r} cur={case['cur']}(->{cur}) keys={keys!r} -> text={r['text']!r} "
                         f"cur={r['cur']} clip={r['clip']!r} regs={r['regs']!r}"})

    site = {"d": "delete_or_change_operator", "c": "delete_or_change_operator", "y": "yank operator",
            ">": "indent operator", "<": "unindent operator", "gq": "reshape operator"}.get(name, "transform operator")
    if r["err"]:
        bad(site, "exception " + r["err"], "handler raised")
        return v
    if r["pending"]:
        return v  # the key sequence was not a complete operator+motion (e.g. unknown text object)
    nt, nc = r["text"], r["cur"]
    if not (0 <= nc <= len(nt)):
        bad(site, "cursor out of range", "cursor outside 0..len(text)")
    count = norm_count(oa, ma)
    lw = m[0] in LINEWISE or (m[0] == "%" and (oa is not None or ma is not None))
    clip_before = (clip[0], clip[1])
    new_clip = (r["clip"][0], r["clip"][1])
    stored = new_clip if reg is None else r["regs"].get(reg)
    others_ok = (r["regs"] == {} if reg is None else (new_clip == clip_before and set(r["regs"]) <= {reg}))
    untouched = (new_clip == clip_before and r["regs"] == {})

    def cur_ok(expected):
        return nc == expected or (not r["insert"] and nc == vi_fix(nt, expected))

    f = fails(text, cur, m, count, oa is not None or ma is not None)
    if f is True:
        if nt != text or not cur_ok(cur) or not untouched:
            bad(site, "failing motion " + m[0], "the motion fails / spans nothing but the operator changed something")
        return v

    if name == "y":
        if nt != text:
            bad(site, "text edited", "yank changed the text")
        if not others_ok:
            bad(site, "other register touched", "yank wrote to a register it was not asked to")
        return v

    if name in ("d", "c"):
        if not others_ok:
            bad(site, "other register touched", "delete wrote to a register it was not asked to")
        spans = removed_spans(text, nt, cur, 1 if m[0] in TEXT_OBJECTS else 0)
        if not spans:
            bad(site, "not one contiguous span at the cursor", "new text is not text[:a]+text[b:] with a<=cursor<=b")
            return v
        ok = False
        stale = False
        for a, b in spans:
            rem = text[a:b]
            if a == b:
                # (nothing removed; a linewise operator on an empty last line remembers that line)
                if cur_ok(cur) and (untouched or (lw and others_ok and stored == ("", 1))):
                    ok = True
                continue
            if not cur_ok(a):
                continue
            unchanged = (stored is None) or (reg is None and stored == clip_before)
            at_ls = a == 0 or text[a - 1] == "\n"
            at_le = b == len(text) or text[b - 1] == "\n"
            if lw or (stored is not None and stored[1] == 1):
                # the register holds the removed lines without the newline that terminates the last
                # of them; a span that reaches the end of the text may instead end with a removed
                # EMPTY last line (then the final "\n" is kept)
                exps = [rem[:-1]] if rem.endswith("\n") else [rem]
                if b == len(text) and rem.endswith("\n"):
                    exps.append(rem)
                if (at_ls and at_le and stored is not None and stored[1] == 1 and stored[0] in exps
                        and not (unchanged and stored[0] == "")):
                    ok = True
                elif rem == "\n" and at_ls and unchanged:
                    stale = True
            elif stored is not None and stored == (rem, 0):
                ok = True
        if not ok:
            if stale:
                bad(site, "linewise span is one empty line: register not updated",
                    "a linewise delete removed an empty line but left the register stale")
            else:
                bad(site, "register != removed characters",
                    "register/clipboard does not hold exactly the removed span, or cursor not at its start")
        sp = span_spec(text, cur, m, count) if f is False else None
        if sp is not None:
            a, b, _ = sp
            if nt != text[:a] + text[b:]:
                bad(site, "span of " + m[0], f"removed span differs from the Vi span [{a},{b})")
        return v

    # transform / indent / reshape: the span is what `d` + the same motion removes
    d = dref()
    if d is None or d["err"] or d["pending"]:
        return v
    spans = removed_spans(text, d["text"], cur, 1 if m[0] in TEXT_OBJECTS else 0)
    if not spans:
        return v  # d itself is off; reported at the d run
    if not untouched:
        bad(site, "register touched", "a case/indent operator wrote to a register")
    if spans[0][0] == spans[0][1]:
        if lw and name in (">", "<", "gq"):
            # a linewise span that holds no character is the (empty) line of the cursor
            row = row_of(text, cur)
            lines, nlines = text.split("\n"), nt.split("\n")
            if name != "gq" and (len(lines) != len(nlines) or
                                 any(l0 != l1 for i, (l0, l1) in enumerate(zip(lines, nlines)) if i != row)):
                bad(site, "outside span changed", f"a line other than the cursor line {row} changed")
            return v
        if nt != text or not cur_ok(cur):
            bad(site, "empty span", "the motion spans nothing but the operator changed text or cursor")
        return v
    problems = []
    for a, b in spans:
        p = frame_problem(name, text, nt, a, b, lw, count)
        if p is None:
            return v
        problems.append(p)
    bad(site, problems[0][0], problems[0][1])
    return v


def check_move(case, op, r, mvr):
    """`d<motion>` removes the text between the cursor and the place where the same motion,
    typed alone, puts the cursor (observe_at: 'the cursor movement of the same motion typed
    alone'); +-1 for inclusive motions, the column-0 rule and the navigation-mode cursor fix."""
    if mvr is None or mvr["err"] or r["err"] or r["pending"] or op[4] in LINEWISE:
        return []
    if op[4] == "%" and op[3] is not None:
        return []   # N% is a linewise jump to a percentage of the file
    text, cur = case["text"], r.get("base_cur", case["cur"])
    if vi_fix(text, cur) != cur:
        return []   # not a navigation-mode cursor: the key processor moves it after the motion / count key
    p = mvr["cur"]
    spans = removed_spans(text, r["text"], cur)
    ok = False
    for a, b in spans:
        if a == b:
            ok = ok or abs(p - cur) <= 1
        elif a >= cur:
            ok = ok or abs(b - p) <= 1
        else:
            ok = ok or (abs(a - p) <= 1 and b <= cur + 1)   # (backward inclusive: + the cursor char)
    if spans and not ok:
        return [{"signature": "delete_or_change_operator | span differs from the motion typed alone",
                 "msg": f"text={text!r} cur={cur} keys={op_keys(op)!r} -> text={r['text']!r}; the motion alone moves the cursor to {p}"}]
    return []


def frame_problem(name, text, nt, a, b, lw, count):
    """None when `nt` differs from `text` only inside the span [a, b) (its lines for > < gq)"""
    if name in TF:
        tail = len(text) - b
        if nt[:a] != text[:a] or (tail and nt[-tail:] != text[b:]) or len(nt) < a + tail:
            return ("outside span changed", f"characters outside [{a},{b}) changed")
        if nt[a:len(nt) - tail] != TF[name](text[a:b]):
            return ("inside span", f"text[{a}:{b}] is not the transformed span")
        return None
    # > < gq : lines outside the rows of the span are unchanged
    r1 = row_of(text, a)
    r2req = row_of(text, b - 1)
    # (a linewise span that reaches the end of the text may include an empty last line that
    #  contributes no character)
    r2 = row_of(text, b) if (not lw or b == len(text)) else r2req
    lines, nlines = text.split("\n"), nt.split("\n")
    if name == "gq":
        head, tail = lines[:r1], lines[r2 + 1:]
        if nlines[:len(head)] != head or (tail and nlines[-len(tail):] != tail):
            return ("outside span changed", f"lines outside rows {r1}..{r2} changed")
        return None
    if len(lines) != len(nlines):
        return ("line count", "indent changed the number of lines")
    ic = "    " * count
    for i, (l0, l1) in enumerate(zip(lines, nlines)):
        inside = r1 <= i <= r2
        required = r1 <= i <= r2req
        if not inside:
            if l0 != l1:
                return ("outside span changed", f"line {i} outside rows {r1}..{r2} changed")
        elif name == ">":
            if l1 != ic + l0 and (required or l1 != l0):
                return ("inside span", f"line {i} is not indent+line")
        else:
            if not l0.endswith(l1) or l0[:len(l0) - len(l1)].strip() != "":
                return ("inside span", f"unindent removed non-blank characters on line {i}")
    return None


def oracle_raw(case):
    """TextObject called directly: the documented contract of operator_range ('a (start, end)
    tuple with start <= end'), and cut() removes exactly what it returns"""
    v = []
    ed = get_editor()
    text, cur = case["text"], case["cur"]
    for s, e, ty in case["tos"]:
        ed.buffer.reset(Document(text, cur))
        to = TextObject(s, e, _TYPES[ty])
        a, b = to.operator_range(ed.buffer.document)
        if a > b:
            v.append({"signature": "TextObject.operator_range | start > end",
                      "msg": f"text={text!r} cur={cur} TextObject({s},{e},{_TYPES[ty].name}).operator_range -> ({a},{b})"})
        if not (0 <= cur + a and cur + b <= len(text) + 1):
            v.append({"signature": "TextObject.operator_range | outside the text",
                      "msg": f"text={text!r} cur={cur} TextObject({s},{e},{_TYPES[ty].name}).operator_range -> ({a},{b})"})
        try:
            nd, cd = to.cut(ed.buffer)
        except AssertionError as ex:
            v.append({"signature": "TextObject.cut | AssertionError",
                      "msg": f"text={text!r} cur={cur} TextObject({s},{e},{_TYPES[ty].name}).cut raised {ex}"})
            continue
        k = len(text) - len(nd.text)
        p = nd.cursor_position
        removed = text[p:p + k]
        ok = k >= 0 and text[:p] + text[p + k:] == nd.text and (
            cd.text == removed or (ty == 2 and removed.endswith("\n") and cd.text == removed[:-1]))
        if not ok:
            v.append({"signature": "TextObject.cut | clipboard != removed text",
                      "msg": f"text={text!r} cur={cur} TextObject({s},{e},{_TYPES[ty].name}).cut -> {nd.text!r},{p} clip={cd.text!r}"})
    seen, out = set(), []
    for x in v:
        if x["signature"] not in seen:
            seen.add(x["signature"])
            out.append(x)
    return out


def oracle(case):
    if case["k"] != "e2e":
        return oracle_raw(case)
    res = run_case(case)
    dcache = {}
    v = []
    for op, (r, mvr) in zip(case["ops"], res):
        if op[2] is not None and not (op[2].islower() or op[2].isdigit()):
            continue

        def dref(op=op):
            key = (op[0], op[3], tuple(op[4:]))
            if key not in dcache:
                dop = [op[0], "d", None, op[3]] + op[4:]
                hit = None
                for o2, (r2, _) in zip(case["ops"], res):
                    if o2 == dop:
                        hit = r2
                        break
                if hit is None:
                    hit = drive(case["text"], case["cur"], case["clip"], op_keys(dop))
                dcache[key] = hit
            return dcache[key]

        v += check_op(case, op, r, dref)
        v += check_move(case, op, r, mvr)
        # the motion typed alone lands where the text object starts: inside the text
        if mvr is not None and not mvr["err"]:
            if mvr["text"] != case["text"] or not (0 <= mvr["cur"] <= len(case["text"])):
                v.append({"signature": "move handler | text changed or cursor out of range",
                          "msg": f"text={case['text']!r} cur={case['cur']} keys={motion_keys(op[4:])!r} -> {mvr}"})
    seen, out = set(), []
    for x in v:
        if x["signature"] not in seen:
            seen.add(x["signature"])
            out.append(x)
    return out


def sample_view(case):
    if case["k"] == "raw":
        return dict(case, tos=case["tos"][:4] + [f"... {len(case['tos'])} TextObjects"])
    return dict(case, ops=[op_keys(o) for o in case["ops"][:6]] + [f"... {len(case['ops'])} operator runs, each from a fresh state"])


def nontrivial(case):
    return len(case["text"]) > 0


def distribution(cases):
    d = {"kind": {}, "text_len": {}, "operators": {}, "motions": {}}
    for c in cases:
        d["kind"][c["k"]] = d["kind"].get(c["k"], 0) + 1
        n = len(c["text"])
        key = str(n) if n < 6 else "6+"
        d["text_len"][key] = d["text_len"].get(key, 0) + 1
        if c["k"] == "e2e":
            for op in c["ops"]:
                d["operators"][op[1] + ('"' if op[2] else "")] = d["operators"].get(op[1] + ('"' if op[2] else ""), 0) + 1
                d["motions"][op[4]] = d["motions"].get(op[4], 0) + 1
        else:
            d["operators"]["raw TextObject"] = d["operators"].get("raw TextObject", 0) + len(c["tos"])
    return d


if __name__ == "__main__":
    sys.exit(core.main(sys.modules[__name__]))
